//go:build verif

// C20 part B: reflection prober of the protobuf converters of package main
// (server/pbconverter.go).  Added to the build by -overlay only.
//
// Messages are flattened to LEAVES: (schema path, indices, kind, value).
//   schema path  JSON names joined by '.', "[]" after a list, "{}" after a map
//                (Go side: json tags; protobuf side: proto field names)
//   indices      the list positions / map keys filling the markers, in order
//   kind         s string, i int, b bool, y bytes, t time (unix nanoseconds),
//                j JSON blob (canonical text), p presence of an optional
//                struct / list element, e protobuf enum number
// Zero values are absent (Go zero value, protobuf default), except list elements.
//
// VERIF_MODE=table : probe every leaf, emit facts + classification (JSON) to VERIF_OUT
// VERIF_MODE=rand  : VERIF_SEED / VERIF_N random client and server messages through the
//                    real converters; one JSON object per line to VERIF_OUT
package main

import (
	"encoding/hex"
	"encoding/json"
	"fmt"
	"io"
	"math/rand"
	"os"
	"reflect"
	"sort"
	"strconv"
	"strings"
	"testing"
	"time"

	"github.com/tinode/chat/pbx"
	"github.com/tinode/chat/server/logs"
	"google.golang.org/protobuf/encoding/protojson"
	"google.golang.org/protobuf/proto"
	"google.golang.org/protobuf/reflect/protoreflect"
)

type pbLeaf struct {
	SP string   `json:"sp"`
	Ix []string `json:"ix"`
	K  string   `json:"k"`
	V  string   `json:"v"`
}

func (l pbLeaf) key() string { return l.SP + "|" + strings.Join(l.Ix, ",") }

func pbHex(b []byte) string {
	if len(b) == 0 {
		return "-"
	}
	return hex.EncodeToString(b)
}

func pbJoin(sp, name string) string {
	if sp == "" {
		return name
	}
	if name == "" {
		return sp
	}
	return sp + "." + name
}

func pbIx(ix []string, x string) []string {
	r := make([]string, 0, len(ix)+1)
	r = append(r, ix...)
	return append(r, x)
}

func pbSortLeaves(ls []pbLeaf) []pbLeaf {
	sort.SliceStable(ls, func(i, j int) bool { return ls[i].key() < ls[j].key() })
	if ls == nil {
		ls = []pbLeaf{}
	}
	for i := range ls {
		if ls[i].Ix == nil {
			ls[i].Ix = []string{}
		}
	}
	return ls
}

// ---------------------------------------------------------------- Go side

var (
	pbTimeT = reflect.TypeOf(time.Time{})
	pbRawT  = reflect.TypeOf(json.RawMessage{})
	// Go leaves of static type any that the protobuf schema carries as map<string,bytes>, one entry per
	// key of the JSON object (found by the probe): flattened per key
	pbExplode = map[string]bool{}
)

// json name of a struct field: ("", false) = not rendered; ("", true) = embedded, inlined
func pbJSONName(f reflect.StructField) (string, bool) {
	if !f.IsExported() {
		return "", false
	}
	tag := f.Tag.Get("json")
	if tag == "-" {
		return "", false
	}
	name := strings.Split(tag, ",")[0]
	if name == "" {
		if f.Anonymous {
			return "", true
		}
		return f.Name, true
	}
	return name, true
}

// canonical JSON text of a value as encoding/json renders and re-reads it
func pbCanon(v any) (string, bool) {
	b, err := json.Marshal(v)
	if err != nil {
		return "", false
	}
	return pbCanonBytes(b)
}

func pbCanonBytes(b []byte) (string, bool) {
	var g any
	if err := json.Unmarshal(b, &g); err != nil || g == nil {
		return "", false
	}
	b2, err := json.Marshal(g)
	if err != nil {
		return "", false
	}
	return string(b2), true
}

func pbFlatGo(sp string, ix []string, v reflect.Value, out *[]pbLeaf) {
	switch v.Kind() {
	case reflect.Ptr:
		if v.IsNil() {
			return
		}
		if v.Type().Elem() != pbTimeT && v.Type().Elem().Kind() == reflect.Struct {
			*out = append(*out, pbLeaf{sp, ix, "p", "1"})
		}
		pbFlatGo(sp, ix, v.Elem(), out)
	case reflect.Struct:
		if v.Type() == pbTimeT {
			t := v.Interface().(time.Time)
			if !t.IsZero() {
				*out = append(*out, pbLeaf{sp, ix, "t", strconv.FormatInt(t.UnixNano(), 10)})
			}
			return
		}
		for i := 0; i < v.NumField(); i++ {
			name, ok := pbJSONName(v.Type().Field(i))
			if !ok {
				continue
			}
			pbFlatGo(pbJoin(sp, name), ix, v.Field(i), out)
		}
	case reflect.String:
		if v.Len() > 0 {
			*out = append(*out, pbLeaf{sp, ix, "s", pbHex([]byte(v.String()))})
		}
	case reflect.Int, reflect.Int32, reflect.Int64:
		if v.Int() != 0 {
			*out = append(*out, pbLeaf{sp, ix, "i", strconv.FormatInt(v.Int(), 10)})
		}
	case reflect.Bool:
		if v.Bool() {
			*out = append(*out, pbLeaf{sp, ix, "b", "1"})
		}
	case reflect.Interface:
		if v.IsNil() {
			return
		}
		if pbExplode[sp] {
			if b, err := json.Marshal(v.Interface()); err == nil {
				var g map[string]any
				if json.Unmarshal(b, &g) == nil && g != nil {
					pbFlatGo(sp, ix, reflect.ValueOf(g), out)
					return
				}
			}
		}
		if c, ok := pbCanon(v.Interface()); ok {
			*out = append(*out, pbLeaf{sp, ix, "j", pbHex([]byte(c))})
		}
	case reflect.Map:
		keys := v.MapKeys()
		sort.Slice(keys, func(i, j int) bool { return keys[i].String() < keys[j].String() })
		for _, k := range keys {
			pbFlatGo(sp+"{}", pbIx(ix, "k:"+pbHex([]byte(k.String()))), v.MapIndex(k), out)
		}
	case reflect.Slice:
		if v.Type() == pbRawT {
			if v.Len() > 0 {
				if c, ok := pbCanonBytes(v.Bytes()); ok {
					*out = append(*out, pbLeaf{sp, ix, "j", pbHex([]byte(c))})
				} else {
					*out = append(*out, pbLeaf{sp, ix, "y", pbHex(v.Bytes())})
				}
			}
			return
		}
		if v.Type().Elem().Kind() == reflect.Uint8 {
			if v.Len() > 0 {
				*out = append(*out, pbLeaf{sp, ix, "y", pbHex(v.Bytes())})
			}
			return
		}
		for i := 0; i < v.Len(); i++ {
			e := v.Index(i)
			eix := pbIx(ix, strconv.Itoa(i))
			switch e.Kind() {
			case reflect.String:
				*out = append(*out, pbLeaf{sp + "[]", eix, "s", pbHex([]byte(e.String()))})
			case reflect.Struct:
				*out = append(*out, pbLeaf{sp + "[]", eix, "p", "1"})
				pbFlatGo(sp+"[]", eix, e, out)
			default:
				pbFlatGo(sp+"[]", eix, e, out)
			}
		}
	}
}

func pbFlat(v any) []pbLeaf {
	var out []pbLeaf
	pbFlatGo("", nil, reflect.ValueOf(v), &out)
	return pbSortLeaves(out)
}

type pbStep struct {
	K byte // f field, p deref, e slice element, k map key
	I int
}

type pbGoLeaf struct {
	SP    string
	K     string
	Steps []pbStep
	T     reflect.Type
}

func pbSteps(steps []pbStep, s ...pbStep) []pbStep {
	r := make([]pbStep, 0, len(steps)+len(s))
	r = append(r, steps...)
	return append(r, s...)
}

func pbGoLeaves(t reflect.Type, sp string, steps []pbStep, out *[]pbGoLeaf) {
	switch t.Kind() {
	case reflect.Ptr:
		if t.Elem() == pbTimeT {
			*out = append(*out, pbGoLeaf{sp, "t", steps, t})
			return
		}
		if t.Elem().Kind() == reflect.Struct {
			*out = append(*out, pbGoLeaf{sp, "p", pbSteps(steps, pbStep{'p', 0}), t})
		}
		pbGoLeaves(t.Elem(), sp, pbSteps(steps, pbStep{'p', 0}), out)
	case reflect.Struct:
		if t == pbTimeT {
			*out = append(*out, pbGoLeaf{sp, "t", steps, t})
			return
		}
		for i := 0; i < t.NumField(); i++ {
			name, ok := pbJSONName(t.Field(i))
			if !ok {
				continue
			}
			pbGoLeaves(t.Field(i).Type, pbJoin(sp, name), pbSteps(steps, pbStep{'f', i}), out)
		}
	case reflect.String:
		*out = append(*out, pbGoLeaf{sp, "s", steps, t})
	case reflect.Int, reflect.Int32, reflect.Int64:
		*out = append(*out, pbGoLeaf{sp, "i", steps, t})
	case reflect.Bool:
		*out = append(*out, pbGoLeaf{sp, "b", steps, t})
	case reflect.Interface:
		*out = append(*out, pbGoLeaf{sp, "j", steps, t})
	case reflect.Map:
		*out = append(*out, pbGoLeaf{sp + "{}", "j", pbSteps(steps, pbStep{'k', 0}), t})
	case reflect.Slice:
		if t == pbRawT {
			*out = append(*out, pbGoLeaf{sp, "j", steps, t})
			return
		}
		if t.Elem().Kind() == reflect.Uint8 {
			*out = append(*out, pbGoLeaf{sp, "y", steps, t})
			return
		}
		es := pbSteps(steps, pbStep{'e', 0})
		switch t.Elem().Kind() {
		case reflect.String:
			*out = append(*out, pbGoLeaf{sp + "[]", "s", es, t.Elem()})
		case reflect.Struct:
			*out = append(*out, pbGoLeaf{sp + "[]", "p", es, t.Elem()})
			pbGoLeaves(t.Elem(), sp+"[]", es, out)
		default:
			pbGoLeaves(t.Elem(), sp+"[]", es, out)
		}
	default:
		panic("pbtable: unsupported Go type " + t.String() + " at " + sp)
	}
}

// steps to the parent of a leaf (nothing of the leaf itself allocated)
func pbParentSteps(l pbGoLeaf) []pbStep {
	st := l.Steps
	if l.K == "p" {
		if len(st) > 0 && st[len(st)-1].K == 'p' {
			st = st[:len(st)-1]
		}
		if len(st) > 0 && st[len(st)-1].K == 'e' {
			st = st[:len(st)-1]
		}
		return st
	}
	return st[:len(st)-1]
}

// pbNav walks to the leaf position allocating pointers, list elements and maps.
func pbNav(v reflect.Value, steps []pbStep) reflect.Value {
	for _, s := range steps {
		switch s.K {
		case 'f':
			v = v.Field(s.I)
		case 'p':
			if v.IsNil() {
				v.Set(reflect.New(v.Type().Elem()))
			}
			v = v.Elem()
		case 'e':
			for v.Len() <= s.I {
				v.Set(reflect.Append(v, reflect.Zero(v.Type().Elem())))
			}
			v = v.Index(s.I)
		case 'k':
			if v.IsNil() {
				v.Set(reflect.MakeMap(v.Type()))
			}
			return v
		}
	}
	return v
}

func pbSetGo(root reflect.Value, l pbGoLeaf, val any) {
	v := pbNav(root, l.Steps)
	if len(l.Steps) > 0 && l.Steps[len(l.Steps)-1].K == 'k' {
		v.SetMapIndex(reflect.ValueOf("k"), reflect.ValueOf(val))
		return
	}
	switch l.K {
	case "p":
	case "s":
		v.SetString(val.(string))
	case "i":
		v.SetInt(val.(int64))
	case "b":
		v.SetBool(val.(bool))
	case "y":
		v.SetBytes(val.([]byte))
	case "t":
		tt := val.(time.Time)
		if v.Kind() == reflect.Ptr {
			v.Set(reflect.ValueOf(&tt))
		} else {
			v.Set(reflect.ValueOf(tt))
		}
	case "j":
		if v.Type() == pbRawT {
			b, _ := json.Marshal(val)
			v.SetBytes(b)
		} else {
			v.Set(reflect.ValueOf(val))
		}
	}
}

// ---------------------------------------------------------------- protobuf side

func pbScalarKind(fd protoreflect.FieldDescriptor) string {
	k := fd.Kind()
	if fd.IsMap() {
		k = fd.MapValue().Kind()
	}
	switch k {
	case protoreflect.StringKind:
		return "s"
	case protoreflect.BoolKind:
		return "b"
	case protoreflect.BytesKind:
		return "y"
	case protoreflect.EnumKind:
		return "e"
	case protoreflect.Int32Kind, protoreflect.Int64Kind, protoreflect.Sint32Kind, protoreflect.Sint64Kind,
		protoreflect.Uint32Kind, protoreflect.Uint64Kind, protoreflect.Sfixed32Kind, protoreflect.Sfixed64Kind,
		protoreflect.Fixed32Kind, protoreflect.Fixed64Kind:
		return "i"
	}
	panic("pbtable: unsupported protobuf kind " + k.String() + " of " + string(fd.FullName()))
}

func pbScalarLeaf(sp string, ix []string, kind protoreflect.Kind, v protoreflect.Value) pbLeaf {
	switch kind {
	case protoreflect.StringKind:
		return pbLeaf{sp, ix, "s", pbHex([]byte(v.String()))}
	case protoreflect.BoolKind:
		return pbLeaf{sp, ix, "b", "1"}
	case protoreflect.BytesKind:
		return pbLeaf{sp, ix, "y", pbHex(v.Bytes())}
	case protoreflect.EnumKind:
		return pbLeaf{sp, ix, "e", strconv.Itoa(int(v.Enum()))}
	default:
		return pbLeaf{sp, ix, "i", strconv.FormatInt(v.Int(), 10)}
	}
}

func pbFlatPbMsg(sp string, ix []string, m protoreflect.Message, out *[]pbLeaf) {
	m.Range(func(fd protoreflect.FieldDescriptor, v protoreflect.Value) bool {
		p := pbJoin(sp, string(fd.Name()))
		switch {
		case fd.IsMap():
			v.Map().Range(func(k protoreflect.MapKey, mv protoreflect.Value) bool {
				*out = append(*out, pbScalarLeaf(p+"{}", pbIx(ix, "k:"+pbHex([]byte(k.String()))), fd.MapValue().Kind(), mv))
				return true
			})
		case fd.IsList():
			l := v.List()
			for i := 0; i < l.Len(); i++ {
				eix := pbIx(ix, strconv.Itoa(i))
				if fd.Kind() == protoreflect.MessageKind {
					*out = append(*out, pbLeaf{p + "[]", eix, "p", "1"})
					pbFlatPbMsg(p+"[]", eix, l.Get(i).Message(), out)
				} else {
					*out = append(*out, pbScalarLeaf(p+"[]", eix, fd.Kind(), l.Get(i)))
				}
			}
		case fd.Kind() == protoreflect.MessageKind:
			*out = append(*out, pbLeaf{p, ix, "p", "1"})
			pbFlatPbMsg(p, ix, v.Message(), out)
		default:
			*out = append(*out, pbScalarLeaf(p, ix, fd.Kind(), v))
		}
		return true
	})
}

func pbFlatPb(m proto.Message) []pbLeaf {
	var out []pbLeaf
	if m != nil && m.ProtoReflect().IsValid() {
		pbFlatPbMsg("", nil, m.ProtoReflect(), &out)
	}
	return pbSortLeaves(out)
}

type pbPStep struct {
	FD protoreflect.FieldDescriptor
	K  byte // m message field, l element 0 of a list of messages, s scalar, L list of scalars, M map
}

type pbPbLeaf struct {
	SP    string
	K     string
	Steps []pbPStep
	FD    protoreflect.FieldDescriptor
}

func pbPSteps(steps []pbPStep, s pbPStep) []pbPStep {
	r := make([]pbPStep, 0, len(steps)+1)
	r = append(r, steps...)
	return append(r, s)
}

func pbPbLeaves(md protoreflect.MessageDescriptor, sp string, steps []pbPStep, out *[]pbPbLeaf, depth int) {
	if depth > 8 {
		panic("pbtable: protobuf schema too deep at " + sp)
	}
	fs := md.Fields()
	for i := 0; i < fs.Len(); i++ {
		fd := fs.Get(i)
		p := pbJoin(sp, string(fd.Name()))
		switch {
		case fd.IsMap():
			*out = append(*out, pbPbLeaf{p + "{}", pbScalarKind(fd), pbPSteps(steps, pbPStep{fd, 'M'}), fd})
		case fd.IsList() && fd.Kind() == protoreflect.MessageKind:
			st := pbPSteps(steps, pbPStep{fd, 'l'})
			*out = append(*out, pbPbLeaf{p + "[]", "p", st, fd})
			pbPbLeaves(fd.Message(), p+"[]", st, out, depth+1)
		case fd.IsList():
			*out = append(*out, pbPbLeaf{p + "[]", pbScalarKind(fd), pbPSteps(steps, pbPStep{fd, 'L'}), fd})
		case fd.Kind() == protoreflect.MessageKind:
			st := pbPSteps(steps, pbPStep{fd, 'm'})
			*out = append(*out, pbPbLeaf{p, "p", st, fd})
			pbPbLeaves(fd.Message(), p, st, out, depth+1)
		default:
			*out = append(*out, pbPbLeaf{p, pbScalarKind(fd), pbPSteps(steps, pbPStep{fd, 's'}), fd})
		}
	}
}

func pbSetPb(root protoreflect.Message, l pbPbLeaf, val protoreflect.Value) {
	m := root
	for _, s := range l.Steps {
		switch s.K {
		case 'm':
			m = m.Mutable(s.FD).Message()
		case 'l':
			lst := m.Mutable(s.FD).List()
			if lst.Len() == 0 {
				lst.AppendMutable()
			}
			m = lst.Get(0).Message()
		case 's':
			m.Set(s.FD, val)
		case 'L':
			m.Mutable(s.FD).List().Append(val)
		case 'M':
			m.Mutable(s.FD).Map().Set(protoreflect.ValueOfString("k").MapKey(), val)
		}
	}
}

// ---------------------------------------------------------------- converters under recover

func pbTry(f func()) (pan string) {
	defer func() {
		if r := recover(); r != nil {
			pan = strings.ReplaceAll(fmt.Sprint(r), "\n", " ")
		}
	}()
	f()
	return ""
}

func pbCliDeser(p *pbx.ClientMsg) (res *ClientComMessage, pan string) {
	pan = pbTry(func() { res = pbCliDeserialize(p) })
	return
}

func pbCliSer(m *ClientComMessage) (res *pbx.ClientMsg, pan string) {
	pan = pbTry(func() { res = pbCliSerialize(m) })
	return
}

func pbSrvSer(m *ServerComMessage) (res *pbx.ServerMsg, pan string) {
	pan = pbTry(func() { res = pbServSerialize(m) })
	return
}

func pbSrvDeser(p *pbx.ServerMsg) (res *ServerComMessage, pan string) {
	pan = pbTry(func() { res = pbServDeserialize(p) })
	return
}

// the JSON interpretation of a client message / the typed view of the JSON rendering of a reply
func pbJSONCli(m *ClientComMessage) (*ClientComMessage, string) {
	b, err := json.Marshal(m)
	if err != nil {
		return nil, ""
	}
	var r ClientComMessage
	if err := json.Unmarshal(b, &r); err != nil {
		return nil, string(b)
	}
	return &r, string(b)
}

func pbJSONSrv(m *ServerComMessage) (*ServerComMessage, string) {
	b, err := json.Marshal(m)
	if err != nil {
		return nil, ""
	}
	var r ServerComMessage
	if err := json.Unmarshal(b, &r); err != nil {
		return nil, string(b)
	}
	return &r, string(b)
}

func pbText(m proto.Message) string {
	if m == nil || !m.ProtoReflect().IsValid() {
		return "nil"
	}
	b, err := protojson.MarshalOptions{EmitUnpopulated: false}.Marshal(m)
	if err != nil {
		return "?" + err.Error()
	}
	var g any
	json.Unmarshal(b, &g) // protojson output is deliberately unstable in spacing: re-encode
	b, _ = json.Marshal(g)
	return string(b)
}

func pbMinus(a, b []pbLeaf) []pbLeaf {
	have := map[string]string{}
	for _, l := range b {
		have[l.key()] = l.K + ":" + l.V
	}
	res := []pbLeaf{}
	for _, l := range a {
		if v, ok := have[l.key()]; !ok || v != l.K+":"+l.V {
			res = append(res, l)
		}
	}
	return res
}

// ---------------------------------------------------------------- probe values

type pbProbeVal struct {
	Name string
	Go   any
}

func pbProbeJSON(sp string) any {
	return map[string]any{"b": []any{1.0, "x"}, "a": sp}
}

func pbGoValues(l pbGoLeaf, n int, enums map[string][]string) []pbProbeVal {
	switch l.K {
	case "p":
		return []pbProbeVal{{"present", nil}}
	case "s":
		if sp, ok := enums[l.SP]; ok {
			var r []pbProbeVal
			for _, s := range sp {
				r = append(r, pbProbeVal{"enum " + s, s})
			}
			return r
		}
		return []pbProbeVal{{"string", "v." + l.SP}}
	case "i":
		return []pbProbeVal{{"small", int64(1000 + n)}, {"wide", int64(5000000000 + n)}}
	case "b":
		return []pbProbeVal{{"true", true}}
	case "y":
		return []pbProbeVal{{"bytes", []byte("y." + l.SP)}}
	case "t":
		return []pbProbeVal{{"ms", time.Unix(int64(1700000000+n), 123000000).UTC()},
			{"ns", time.Unix(int64(1700000000+n), 123456789).UTC()}}
	case "j":
		if l.T.Kind() == reflect.Interface {
			// static type any: generic JSON value and a typed map (both are assigned by the code base)
			return []pbProbeVal{{"json", pbProbeJSON(l.SP)}, {"map[string]string", map[string]string{"k": "v." + l.SP}}}
		}
		return []pbProbeVal{{"json", pbProbeJSON(l.SP)}}
	}
	return nil
}

func pbFindLeaf(ls []pbLeaf, sp string) *pbLeaf {
	for i := range ls {
		if ls[i].SP == sp {
			return &ls[i]
		}
	}
	return nil
}

func pbWrap32(z int64) int64 { return int64(int32(z)) }

// how value b (after) relates to value a (before) for one leaf
func pbRelate(kind string, a, b pbLeaf) string {
	if a.K == b.K && a.V == b.V {
		return "same"
	}
	switch kind {
	case "i":
		x, _ := strconv.ParseInt(a.V, 10, 64)
		y, _ := strconv.ParseInt(b.V, 10, 64)
		if b.K == "i" && pbWrap32(x) == y {
			return "int32"
		}
	case "t":
		x, _ := strconv.ParseInt(a.V, 10, 64)
		y, _ := strconv.ParseInt(b.V, 10, 64)
		if b.K == "t" && x/1000000*1000000 == y {
			return "ms"
		}
		if b.K == "i" && x/1000000 == y {
			return "ms"
		}
	case "j":
		if b.K == "y" && b.V != "-" {
			raw, _ := hex.DecodeString(b.V)
			if c, ok := pbCanonBytes(raw); ok && pbHex([]byte(c)) == a.V {
				return "same"
			}
		}
	case "s":
		if b.K == "s" {
			x, _ := hex.DecodeString(strings.TrimPrefix(a.V, "-"))
			y, _ := hex.DecodeString(strings.TrimPrefix(b.V, "-"))
			if strings.EqualFold(string(x), string(y)) {
				return "enum"
			}
		}
		if b.K == "e" {
			return "enum"
		}
	}
	return "other"
}

type pbProbeRec struct {
	Val     string   `json:"val"`
	Msg     string   `json:"msg"`             // the probe message (JSON / protobuf-JSON): the replay
	Wire    string   `json:"wire,omitempty"`  // what the serializer produced
	Panic   string   `json:"panic,omitempty"` // panic text
	Where   string   `json:"where,omitempty"` // converter that panicked / dropped
	Fate    string   `json:"fate"`            // same int32 ms enum other dropped moved panic noschema
	Pb      []pbLeaf `json:"pb"`              // protobuf leaves the probed leaf produced
	Out     []pbLeaf `json:"out"`             // resulting leaves (round trip / deserialised)
	Ref     []pbLeaf `json:"ref"`             // reference leaves (JSON interpretation / rendering)
	Spill   []pbLeaf `json:"spill"`           // other leaves that differ from the reference
	Rescued string   `json:"rescued,omitempty"`
}

type pbRow struct {
	SP     string       `json:"sp"`
	Kind   string       `json:"kind"`
	Enum   string       `json:"enum,omitempty"`
	Fate   string       `json:"fate"`
	Moved  string       `json:"moved,omitempty"`
	PbPath string       `json:"pb_path,omitempty"`
	Note   string       `json:"note,omitempty"`
	Probes []pbProbeRec `json:"probes"`
}

type pbEnum struct {
	Name  string           `json:"name"`
	Ser   [][2]string      `json:"ser"`   // spelling, number
	Deser [][2]string      `json:"deser"` // number, spelling
	Zero  string           `json:"zero"`
	Paths []string         `json:"paths"`
	// spellings that only the deserializer knows (pbCliSerialize loses them): not used by the random generator
	Rescued []string `json:"rescued"`
	names map[int32]string // protobuf value names
}

type pbDirect struct {
	Q     string   `json:"q"`
	Kind  string   `json:"kind"`
	Val   string   `json:"val"`
	Msg   string   `json:"msg"`
	Panic string   `json:"panic,omitempty"`
	Lands []pbLeaf `json:"lands"`
}

var pbFateRank = map[string]int{"same": 0, "int32": 1, "ms": 1, "enum": 1, "noschema": 2, "other": 3, "moved": 4, "dropped": 5, "panic": 6}

func pbWorse(a, b string) string {
	if pbFateRank[b] > pbFateRank[a] {
		return b
	}
	return a
}

// ---------------------------------------------------------------- direct walk: protobuf -> Go

type pbDirectRes struct {
	recs      []pbDirect
	landing   map[string][]string // Go schema path -> protobuf schema paths that deserialise onto it
	enumAt    map[string]*pbEnum  // Go schema path -> enum facts
	wirePaths map[string]string   // protobuf schema path -> kind
}

func pbDirectWalk(mk func() proto.Message, deser func(proto.Message) (any, string)) *pbDirectRes {
	res := &pbDirectRes{landing: map[string][]string{}, enumAt: map[string]*pbEnum{}, wirePaths: map[string]string{}}
	var leaves []pbPbLeaf
	pbPbLeaves(mk().ProtoReflect().Descriptor(), "", nil, &leaves, 0)
	for n, l := range leaves {
		res.wirePaths[l.SP] = l.K
		// base: the enclosing messages only
		base := mk()
		parent := l
		parent.Steps = l.Steps[:len(l.Steps)-1]
		pbSetPb(base.ProtoReflect(), pbPbLeaf{Steps: parent.Steps}, protoreflect.Value{})
		bres, bpan := deser(base)
		var bflat []pbLeaf
		if bpan == "" {
			bflat = pbFlat(bres)
		}
		var vals []protoreflect.Value
		var names []string
		switch l.K {
		case "p":
			vals, names = []protoreflect.Value{{}}, []string{"present"}
		case "s":
			vals, names = []protoreflect.Value{protoreflect.ValueOfString("v." + l.SP)}, []string{"string"}
		case "b":
			vals, names = []protoreflect.Value{protoreflect.ValueOfBool(true)}, []string{"true"}
		case "y":
			b, _ := json.Marshal(pbProbeJSON(l.SP))
			vals, names = []protoreflect.Value{protoreflect.ValueOfBytes(b)}, []string{"json bytes"}
		case "i":
			kd := l.FD.Kind()
			if l.FD.IsMap() {
				kd = l.FD.MapValue().Kind()
			}
			if kd == protoreflect.Int32Kind {
				vals, names = []protoreflect.Value{protoreflect.ValueOfInt32(int32(1000 + n))}, []string{"int32"}
			} else {
				vals, names = []protoreflect.Value{protoreflect.ValueOfInt64(int64(1700000000123 + 1000*n))}, []string{"int64 ms"}
			}
		case "e":
			evs := l.FD.Enum().Values()
			for i := 0; i < evs.Len(); i++ {
				vals = append(vals, protoreflect.ValueOfEnum(evs.Get(i).Number()))
				names = append(names, "enum "+string(evs.Get(i).Name()))
			}
		}
		for vi, v := range vals {
			m := mk()
			if l.K == "p" {
				pbSetPb(m.ProtoReflect(), pbPbLeaf{Steps: l.Steps}, v)
			} else {
				pbSetPb(m.ProtoReflect(), l, v)
			}
			r, pan := deser(m)
			rec := pbDirect{Q: l.SP, Kind: l.K, Val: names[vi], Msg: pbText(m), Panic: pan, Lands: []pbLeaf{}}
			if pan == "" {
				rec.Lands = pbMinus(pbFlat(r), bflat)
				for _, g := range rec.Lands {
					found := false
					for _, q := range res.landing[g.SP] {
						found = found || q == l.SP
					}
					if !found && (g.K == "p") == (l.K == "p") {
						res.landing[g.SP] = append(res.landing[g.SP], l.SP)
					}
				}
				if l.K == "e" {
					num := int32(v.Enum())
					// the Go leaf this enum field lands on: the string leaf that differs from the base
					var gsp, spelling string
					for _, g := range rec.Lands {
						if g.K == "s" {
							raw, _ := hex.DecodeString(strings.TrimPrefix(g.V, "-"))
							gsp, spelling = g.SP, string(raw)
						}
					}
					if gsp != "" {
						e := res.enumAt[gsp]
						if e == nil {
							e = &pbEnum{Name: string(l.FD.Enum().FullName()), names: map[int32]string{}}
							res.enumAt[gsp] = e
						}
						e.Deser = append(e.Deser, [2]string{strconv.Itoa(int(num)), spelling})
					}
				}
			}
			res.recs = append(res.recs, rec)
		}
		// zero spelling of enum fields: what the base message (enum = 0) deserialises to
		if l.K == "e" && bpan == "" {
			for gsp, e := range res.enumAt {
				if e.Name == string(l.FD.Enum().FullName()) {
					for _, q := range res.landing[gsp] {
						if q == l.SP {
							if z := pbFindLeaf(bflat, gsp); z != nil {
								raw, _ := hex.DecodeString(strings.TrimPrefix(z.V, "-"))
								e.Zero = string(raw)
							}
						}
					}
				}
			}
		}
	}
	return res
}

// ---------------------------------------------------------------- client table

func pbEnumSpellings(e *pbEnum) []string {
	seen := map[string]bool{}
	var r []string
	add := func(s string) {
		if s != "" && !seen[s] {
			seen[s] = true
			r = append(r, s)
		}
	}
	for _, d := range e.Deser {
		add(d[1])
		add(strings.ToLower(d[1]))
		add(strings.ToUpper(d[1]))
	}
	add(strings.ToLower(e.Zero))
	return r
}

func pbCliTable(direct *pbDirectRes) ([]pbRow, map[string]*pbEnum) {
	var leaves []pbGoLeaf
	pbGoLeaves(reflect.TypeOf(ClientComMessage{}), "", nil, &leaves)
	spell := map[string][]string{}
	for gsp, e := range direct.enumAt {
		spell[gsp] = pbEnumSpellings(e)
	}
	enums := map[string]*pbEnum{}
	var rows []pbRow
	for n, l := range leaves {
		row := pbRow{SP: l.SP, Kind: l.K, Fate: "same", Probes: []pbProbeRec{}}
		if e, ok := direct.enumAt[l.SP]; ok {
			row.Kind, row.Enum = "e", e.Name
		}
		newMsg := func() *ClientComMessage {
			m := &ClientComMessage{}
			if strings.HasPrefix(l.SP, "extra") {
				m.Leave = &MsgClientLeave{Id: "x"} // {extra} only accompanies a main message
			}
			return m
		}
		base := newMsg()
		pbNav(reflect.ValueOf(base).Elem(), pbParentSteps(l))
		var basePb []pbLeaf
		if bp, pan := pbCliSer(base); pan == "" && bp != nil {
			basePb = pbFlatPb(bp)
		}
		for _, pv := range pbGoValues(l, n, spell) {
			m := newMsg()
			pbSetGo(reflect.ValueOf(m).Elem(), l, pv.Go)
			jm, jtxt := pbJSONCli(m)
			rec := pbProbeRec{Val: pv.Name, Msg: jtxt, Fate: "same", Pb: []pbLeaf{}, Out: []pbLeaf{}, Ref: []pbLeaf{}, Spill: []pbLeaf{}}
			if jm == nil {
				rec.Fate, rec.Where = "other", "encoding/json does not round-trip the probe"
				row.Probes = append(row.Probes, rec)
				row.Fate = pbWorse(row.Fate, rec.Fate)
				continue
			}
			ref := pbFlat(jm)
			rec.Ref = ref
			pkt, pan := pbCliSer(m)
			if pan != "" {
				rec.Fate, rec.Panic, rec.Where = "panic", pan, "pbCliSerialize"
			} else if pkt == nil {
				rec.Fate, rec.Where = "dropped", "pbCliSerialize returns nil"
			} else {
				rec.Wire = pbText(pkt)
				rec.Pb = pbMinus(pbFlatPb(pkt), basePb)
				back, pan := pbCliDeser(pkt)
				if pan != "" {
					rec.Fate, rec.Panic, rec.Where = "panic", pan, "pbCliDeserialize"
				} else {
					out := pbFlat(back)
					rec.Out = out
					rec.Fate, rec.Where = pbJudge(l.SP, l.K, ref, out, rec.Pb, direct.enumAt, &rec)
				}
			}
			if e, ok := direct.enumAt[l.SP]; ok {
				known := false
				for _, p := range rec.Pb {
					known = known || p.K == "e"
				}
				exact := false
				for _, d := range e.Deser {
					exact = exact || d[1] == pv.Go.(string)
				}
				if !known && !exact {
					continue // a spelling outside the enum's domain (neither written by the deserializer nor known to the serializer)
				}
			}
			// a leaf that only the serializer (pbCliSerialize, the plugin-facing converter) loses or alters is
			// still received correctly from a gRPC client when the deserializer maps some protobuf
			// leaf onto it: use the direct walk
			if rec.Fate == "dropped" && rec.Where != "pbCliDeserialize" || rec.Fate == "other" && row.Kind == "e" {
				if q := pbDirectCarries(direct, direct.landing[l.SP], l, pv); q != "" {
					rec.Rescued = "pbCliSerialize loses/alters this leaf; a gRPC client's " + q + " is deserialised onto it correctly"
					rec.Fate = "same"
					if e, ok := direct.enumAt[l.SP]; ok {
						rec.Fate = "enum"
						for _, d := range e.Deser {
							if d[1] == pv.Go.(string) {
								rec.Fate = "same"
							}
						}
					}
				}
			}
			if e, ok := direct.enumAt[l.SP]; ok && rec.Panic == "" {
				num := "0"
				for _, p := range rec.Pb {
					if p.K == "e" {
						num = p.V
					}
				}
				if rec.Rescued != "" {
					for _, d := range e.Deser {
						if strings.EqualFold(d[1], pv.Go.(string)) {
							num = d[0]
						}
					}
				}
				e.Ser = append(e.Ser, [2]string{pv.Go.(string), num})
				if rec.Rescued != "" {
					e.Rescued = append(e.Rescued, pv.Go.(string))
				}
				enums[l.SP] = e
			}
			if len(rec.Pb) > 0 && row.PbPath == "" {
				row.PbPath = rec.Pb[len(rec.Pb)-1].SP
			}
			row.Fate = pbWorse(row.Fate, rec.Fate)
			row.Probes = append(row.Probes, rec)
		}
		if row.Fate == "dropped" && len(direct.landing[l.SP]) == 0 && row.PbPath == "" {
			row.Fate = "noschema"
			row.Note = "no protobuf leaf is produced from or deserialised onto this leaf: the schema cannot carry it"
		}
		if row.Fate == "moved" {
			for _, p := range row.Probes {
				if p.Fate == "moved" {
					row.Moved = p.Where
				}
			}
		}
		rows = append(rows, row)
	}
	for gsp, e := range direct.enumAt {
		if enums[gsp] == nil {
			enums[gsp] = e
		}
	}
	return rows, enums
}

// does the directly constructed protobuf leaf q deserialise onto Go leaf l (any value)?
func pbDirectCarries(direct *pbDirectRes, qs []string, l pbGoLeaf, pv pbProbeVal) string {
	for _, q := range qs {
		if pbDirectCarries1(direct, q, l, pv) {
			return q
		}
	}
	return ""
}

func pbDirectCarries1(direct *pbDirectRes, q string, l pbGoLeaf, pv pbProbeVal) bool {
	for _, r := range direct.recs {
		if r.Q != q || r.Panic != "" {
			continue
		}
		for _, g := range r.Lands {
			if g.SP != l.SP {
				continue
			}
			if s, ok := pv.Go.(string); ok && g.K == "s" && r.Kind == "e" {
				raw, _ := hex.DecodeString(strings.TrimPrefix(g.V, "-"))
				if strings.EqualFold(string(raw), s) {
					return true
				}
				continue
			}
			return true
		}
	}
	return false
}

// pbJudge compares the reference leaves with the resulting leaves at the probed leaf and elsewhere.
func pbJudge(sp, kind string, ref, out, wire []pbLeaf, enumAt map[string]*pbEnum, rec *pbProbeRec) (string, string) {
	r := pbFindLeaf(ref, sp)
	o := pbFindLeaf(out, sp)
	fate, where := "same", ""
	// leaves elsewhere that differ; a spurious enum leaf spelling the zero value is the documented normalisation
	for _, d := range append(pbMinus(out, ref), pbMinus(ref, out)...) {
		if d.SP == sp {
			continue
		}
		if e, ok := enumAt[d.SP]; ok && d.K == "s" && d.V == pbHex([]byte(e.Zero)) && pbFindLeaf(ref, d.SP) == nil {
			continue
		}
		rec.Spill = append(rec.Spill, d)
	}
	switch {
	case r == nil && o == nil:
		// the probed value is the zero of its kind for JSON as well
	case r == nil:
		fate = "other"
	case o == nil:
		fate = "dropped"
		where = "pbCliSerialize"
		if len(wire) > 0 {
			where = "pbCliDeserialize"
		}
		for _, d := range rec.Spill {
			if d.K == r.K && d.V == r.V && pbFindLeaf(ref, d.SP) == nil {
				fate, where = "moved", d.SP
			}
		}
	default:
		fate = pbRelate(kind, *r, *o)
	}
	if fate == "same" && len(rec.Spill) > 0 {
		fate, where = "other", "other leaves change: "+rec.Spill[0].SP
	}
	return fate, where
}

// ---------------------------------------------------------------- server table

func pbSrvTable(direct *pbDirectRes) ([]pbRow, map[string]*pbEnum) {
	var leaves []pbGoLeaf
	pbGoLeaves(reflect.TypeOf(ServerComMessage{}), "", nil, &leaves)
	spell := map[string][]string{}
	for gsp, e := range direct.enumAt {
		spell[gsp] = pbEnumSpellings(e)
	}
	enums := map[string]*pbEnum{}
	var rows []pbRow
	for n, l := range leaves {
		row := pbRow{SP: l.SP, Kind: l.K, Fate: "same", Probes: []pbProbeRec{}}
		if e, ok := direct.enumAt[l.SP]; ok {
			row.Kind, row.Enum = "e", e.Name
		}
		base := &ServerComMessage{}
		pbNav(reflect.ValueOf(base).Elem(), pbParentSteps(l))
		var basePb []pbLeaf
		var baseRef []pbLeaf
		if bp, pan := pbSrvSer(base); pan == "" && bp != nil {
			basePb = pbFlatPb(bp)
		}
		if bj, _ := pbJSONSrv(base); bj != nil {
			baseRef = pbFlat(bj)
		}
		for _, pv := range pbGoValues(l, n, spell) {
			m := &ServerComMessage{}
			pbSetGo(reflect.ValueOf(m).Elem(), l, pv.Go)
			jm, jtxt := pbJSONSrv(m)
			rec := pbProbeRec{Val: pv.Name, Msg: jtxt, Fate: "same", Pb: []pbLeaf{}, Out: []pbLeaf{}, Ref: []pbLeaf{}, Spill: []pbLeaf{}}
			if jm == nil {
				rec.Fate, rec.Where = "other", "encoding/json does not round-trip the probe"
				row.Probes = append(row.Probes, rec)
				row.Fate = pbWorse(row.Fate, rec.Fate)
				continue
			}
			rec.Ref = pbMinus(pbFlat(jm), baseRef)
			pkt, pan := pbSrvSer(m)
			if pan != "" {
				rec.Fate, rec.Panic, rec.Where = "panic", pan, "pbServSerialize"
			} else {
				rec.Wire = pbText(pkt)
				rec.Pb = pbMinus(pbFlatPb(pkt), basePb)
				rec.Out = rec.Pb
				r := pbFindLeaf(rec.Ref, l.SP)
				isAny := l.K == "j" && l.T.Kind() == reflect.Interface
				switch {
				case isAny && (pbExplode[l.SP] || pbAllAt(rec.Pb) != ""):
					// a JSON object carried as map<string,bytes>: compare key by key
					if at := pbAllAt(rec.Pb); at != "" {
						row.PbPath = at
					}
					row.Kind = "jm"
					pbExplode[l.SP] = true
					ref := pbMinus(pbFlat(jm), baseRef)
					rec.Ref = ref
					switch {
					case len(ref) == 0:
						rec.Fate, rec.Where = "other", "probe object has no keys"
					case len(rec.Pb) == 0:
						rec.Fate, rec.Where = "dropped", "pbServSerialize (schema leaf "+row.PbPath+")"
					case len(rec.Pb) != len(ref):
						rec.Fate, rec.Where = "other", "keys of the JSON object missing"
					}
					for i := range ref {
						if i < len(rec.Pb) && len(rec.Pb) == len(ref) &&
							(ref[i].key() != l.SP+"{}|"+strings.Join(rec.Pb[i].Ix, ",") || pbRelate("j", ref[i], rec.Pb[i]) != "same") {
							rec.Fate, rec.Where = "other", "value of a key differs"
						}
					}
				case r == nil && len(rec.Pb) == 0:
					// zero for both renderings
				case r == nil:
					rec.Fate, rec.Where = "other", "no JSON leaf but a protobuf leaf"
				case len(rec.Pb) == 0:
					if len(direct.landing[l.SP]) > 0 {
						rec.Fate, rec.Where = "dropped", "pbServSerialize (schema leaf "+direct.landing[l.SP][0]+")"
					} else {
						rec.Fate = "noschema"
					}
				default:
					// the protobuf leaf of this Go leaf: same kind class, last in path order for presence
					var best *pbLeaf
					for i := range rec.Pb {
						p := &rec.Pb[i]
						if (l.K == "p") == (p.K == "p") {
							if best == nil || l.K != "p" {
								best = p
							}
						}
					}
					if best == nil {
						rec.Fate, rec.Where = "other", "protobuf leaves of another kind"
					} else {
						rec.Fate = pbRelate(l.K, *r, *best)
						if row.PbPath == "" {
							row.PbPath = best.SP
						} else if row.PbPath != best.SP {
							rec.Fate, rec.Where = "other", "lands on "+best.SP+" and "+row.PbPath
						}
						if l.K != "p" && len(rec.Pb) > 1 {
							rec.Fate, rec.Where = "other", "several protobuf leaves change"
						}
						if e, ok := direct.enumAt[l.SP]; ok && best.K == "e" {
							e.Ser = append(e.Ser, [2]string{pv.Go.(string), best.V})
							enums[l.SP] = e
							// the same value means: the number's spelling (as pbServDeserialize reads it) is the JSON string
							okv := false
							for _, d := range e.Deser {
								if d[0] == best.V && d[1] == pv.Go.(string) {
									okv = true
								}
							}
							if okv {
								rec.Fate = "enum"
							} else {
								rec.Fate, rec.Where = "other", "enum number "+best.V+" does not spell "+pv.Go.(string)
							}
						}
					}
				}
				if _, ok := direct.enumAt[l.SP]; ok && len(rec.Pb) == 0 && r != nil {
					// spelling the serializer does not know (upper-case variants): JSON keeps it, protobuf has 0
					rec.Fate, rec.Where = "enum-unknown", "spelling not in the protobuf enum"
				}
			}
			if rec.Fate != "enum-unknown" {
				row.Fate = pbWorse(row.Fate, rec.Fate)
				row.Probes = append(row.Probes, rec)
			}
		}
		if row.Fate == "noschema" {
			row.Note = "no protobuf leaf is produced from or deserialised onto this JSON field: not defined by the schema"
		}
		if row.Kind == "jm" {
			row.SP += "{}"
		}
		rows = append(rows, row)
	}
	for gsp, e := range direct.enumAt {
		if enums[gsp] == nil {
			enums[gsp] = e
		}
	}
	return rows, enums
}

// the common schema path of all leaves if it has the given last segment, else ""
func pbAllAt(ls []pbLeaf) string {
	if len(ls) == 0 {
		return ""
	}
	for _, l := range ls {
		if l.SP != ls[0].SP || !strings.HasSuffix(l.SP, "{}") || l.K != "y" {
			return ""
		}
	}
	return ls[0].SP
}

// ---------------------------------------------------------------- random messages

var pbRandWords = []string{"a", "me", "grpAbC", "usrXyZ", "日本", "q\"uo\\te", "x y", "<&>", "é"}

func pbRandJSON(r *rand.Rand, depth int) any {
	switch r.Intn(7 - 2*depth) {
	case 0:
		return pbRandWords[r.Intn(len(pbRandWords))]
	case 1:
		return float64(r.Intn(2000) - 1000)
	case 2:
		return r.Intn(2) == 0
	case 3:
		return float64(r.Intn(1000)) / 8
	case 4:
		return pbRandWords[r.Intn(len(pbRandWords))] + strconv.Itoa(r.Intn(100))
	case 5:
		m := map[string]any{}
		for i := r.Intn(3) + 1; i > 0; i-- {
			m[pbRandWords[r.Intn(len(pbRandWords))]] = pbRandJSON(r, depth+1)
		}
		return m
	default:
		var l []any
		for i := r.Intn(3) + 1; i > 0; i-- {
			l = append(l, pbRandJSON(r, depth+1))
		}
		return l
	}
}

type pbRandCfg struct {
	r       *rand.Rand
	density float64
	enums   map[string][]string
	wild    bool // values outside the documented domain: wide ints, sub-millisecond times
}

func pbRandFill(c *pbRandCfg, sp string, v reflect.Value, force bool) {
	take := func() bool { return force || c.r.Float64() < c.density }
	switch v.Kind() {
	case reflect.Ptr:
		if !take() {
			return
		}
		v.Set(reflect.New(v.Type().Elem()))
		pbRandFill(c, sp, v.Elem(), v.Type().Elem() == pbTimeT)
	case reflect.Struct:
		if v.Type() == pbTimeT {
			ns := int64(c.r.Intn(1000)) * 1000000
			if c.wild && c.r.Intn(4) == 0 {
				ns += int64(c.r.Intn(1000000))
			}
			v.Set(reflect.ValueOf(time.Unix(1000000000+c.r.Int63n(1000000000), ns).UTC()))
			return
		}
		for i := 0; i < v.NumField(); i++ {
			name, ok := pbJSONName(v.Type().Field(i))
			if !ok {
				continue
			}
			pbRandFill(c, pbJoin(sp, name), v.Field(i), false)
		}
	case reflect.String:
		if !take() {
			return
		}
		if sps, ok := c.enums[sp]; ok {
			// an enum field: a spelling of its domain that the serializer carries, or nothing
			if len(sps) > 0 {
				v.SetString(sps[c.r.Intn(len(sps))])
			}
		} else {
			v.SetString(pbRandWords[c.r.Intn(len(pbRandWords))] + strconv.Itoa(c.r.Intn(1000)))
		}
	case reflect.Int, reflect.Int32, reflect.Int64:
		if !take() {
			return
		}
		switch {
		case c.wild && c.r.Intn(4) == 0:
			v.SetInt(int64(c.r.Intn(1<<20)) + int64(c.r.Intn(8))<<31)
		case c.r.Intn(8) == 0:
			v.SetInt(int64([]int{1, -1, 1<<31 - 1, -(1 << 31), 255, 65536}[c.r.Intn(6)]))
		default:
			v.SetInt(int64(c.r.Intn(100000)))
		}
	case reflect.Bool:
		v.SetBool(take())
	case reflect.Interface:
		if take() {
			if pbExplode[sp] {
				if c.r.Intn(3) == 0 {
					m := map[string]string{}
					for i := c.r.Intn(3) + 1; i > 0; i-- {
						m[pbRandWords[c.r.Intn(len(pbRandWords))]] = pbRandWords[c.r.Intn(len(pbRandWords))]
					}
					v.Set(reflect.ValueOf(m))
				} else {
					m := map[string]any{}
					for i := c.r.Intn(3) + 1; i > 0; i-- {
						m[pbRandWords[c.r.Intn(len(pbRandWords))]] = pbRandJSON(c.r, 0)
					}
					v.Set(reflect.ValueOf(m))
				}
			} else {
				v.Set(reflect.ValueOf(pbRandJSON(c.r, 0)))
			}
		}
	case reflect.Map:
		if take() {
			m := reflect.MakeMap(v.Type())
			for i := c.r.Intn(3) + 1; i > 0; i-- {
				m.SetMapIndex(reflect.ValueOf(pbRandWords[c.r.Intn(len(pbRandWords))]), reflect.ValueOf(pbRandJSON(c.r, 0)))
			}
			v.Set(m)
		}
	case reflect.Slice:
		if !take() {
			return
		}
		if v.Type() == pbRawT {
			b, _ := json.Marshal(pbRandJSON(c.r, 0))
			v.SetBytes(b)
			return
		}
		if v.Type().Elem().Kind() == reflect.Uint8 {
			b := make([]byte, c.r.Intn(12)+1)
			c.r.Read(b)
			v.SetBytes(b)
			return
		}
		n := c.r.Intn(3) + 1
		s := reflect.MakeSlice(v.Type(), n, n)
		for i := 0; i < n; i++ {
			pbRandFill(c, sp+"[]", s.Index(i), true)
		}
		v.Set(s)
	}
}

type pbRandRec struct {
	Id    int      `json:"id"`
	Side  string   `json:"side"`
	Wild  bool     `json:"wild"`
	Msg   string   `json:"msg"`
	Wire  string   `json:"wire,omitempty"`
	Panic string   `json:"panic,omitempty"`
	Where string   `json:"where,omitempty"`
	In    []pbLeaf `json:"in"`  // leaves of the generated Go message
	Ref   []pbLeaf `json:"ref"` // JSON interpretation (client) / JSON rendering (server)
	Out   []pbLeaf `json:"out"` // gRPC interpretation (client, Go leaves) / protobuf rendering (server, protobuf leaves)
}

func pbRandRun(seed int64, n int, enumsCli, enumsSrv map[string][]string, w io.Writer) {
	r := rand.New(rand.NewSource(seed))
	enc := json.NewEncoder(w)
	cliKinds := []string{"Hi", "Acc", "Login", "Sub", "Leave", "Pub", "Get", "Set", "Del", "Note"}
	srvKinds := []string{"Ctrl", "Data", "Meta", "Pres", "Info"}
	for i := 0; i < n; i++ {
		dens := []float64{0.15, 0.5, 0.85, 1.0}[r.Intn(4)]
		wild := r.Intn(5) == 0
		if i%2 == 0 {
			c := &pbRandCfg{r, dens, enumsCli, wild}
			m := &ClientComMessage{}
			mv := reflect.ValueOf(m).Elem()
			f := mv.FieldByName(cliKinds[(i/2)%len(cliKinds)])
			name, _ := pbJSONName(func() reflect.StructField { sf, _ := mv.Type().FieldByName(cliKinds[(i/2)%len(cliKinds)]); return sf }())
			pbRandFill(c, name, f, true)
			if r.Intn(3) == 0 {
				pbRandFill(c, "extra", mv.FieldByName("Extra"), true)
			}
			rec := pbRandRec{Id: i, Side: "cli", Wild: wild, In: pbFlat(m), Ref: []pbLeaf{}, Out: []pbLeaf{}}
			jm, txt := pbJSONCli(m)
			rec.Msg = txt
			if jm == nil {
				rec.Where = "json"
				enc.Encode(rec)
				continue
			}
			rec.Ref = pbFlat(jm)
			pkt, pan := pbCliSer(m)
			if pan != "" {
				rec.Panic, rec.Where = pan, "pbCliSerialize"
			} else if pkt == nil {
				rec.Where = "pbCliSerialize returns nil"
			} else {
				rec.Wire = pbText(pkt)
				back, pan := pbCliDeser(pkt)
				if pan != "" {
					rec.Panic, rec.Where = pan, "pbCliDeserialize"
				} else {
					rec.Out = pbFlat(back)
				}
			}
			enc.Encode(rec)
		} else {
			c := &pbRandCfg{r, dens, enumsSrv, wild}
			m := &ServerComMessage{}
			mv := reflect.ValueOf(m).Elem()
			kind := srvKinds[(i/2)%len(srvKinds)]
			sf, _ := mv.Type().FieldByName(kind)
			name, _ := pbJSONName(sf)
			pbRandFill(c, name, mv.FieldByName(kind), true)
			if m.Data != nil && m.Data.Timestamp.IsZero() {
				m.Data.Timestamp = time.Unix(1500000000, 5000000).UTC()
			}
			rec := pbRandRec{Id: i, Side: "srv", Wild: wild, In: pbFlat(m), Ref: []pbLeaf{}, Out: []pbLeaf{}}
			jm, txt := pbJSONSrv(m)
			rec.Msg = txt
			if jm == nil {
				rec.Where = "json"
				enc.Encode(rec)
				continue
			}
			rec.Ref = pbFlat(jm)
			pkt, pan := pbSrvSer(m)
			if pan != "" {
				rec.Panic, rec.Where = pan, "pbServSerialize"
			} else {
				rec.Wire = pbText(pkt)
				rec.Out = pbFlatPb(pkt)
			}
			enc.Encode(rec)
		}
	}
}

// ---------------------------------------------------------------- entry point

func pbEnumList(m map[string]*pbEnum) []*pbEnum {
	var keys []string
	for k := range m {
		keys = append(keys, k)
	}
	sort.Strings(keys)
	var res []*pbEnum
	for _, k := range keys {
		e := *m[k]
		e.Paths = []string{k}
		if e.Ser == nil {
			e.Ser = [][2]string{}
		}
		if e.Deser == nil {
			e.Deser = [][2]string{}
		}
		if e.Rescued == nil {
			e.Rescued = []string{}
		}
		res = append(res, &e)
	}
	return res
}

func pbSpellMap(es []*pbEnum, known bool) map[string][]string {
	res := map[string][]string{}
	for _, e := range es {
		res[e.Paths[0]] = []string{}
		for _, s := range e.Ser {
			resc := false
			for _, r := range e.Rescued {
				resc = resc || r == s[0]
			}
			if (s[1] != "0" || !known) && !resc {
				res[e.Paths[0]] = append(res[e.Paths[0]], s[0])
			}
		}
	}
	return res
}

func TestVerifPbTable(t *testing.T) {
	logs.Init(io.Discard, "stdFlags")
	fout, err := os.Create(os.Getenv("VERIF_OUT"))
	if err != nil {
		t.Fatal(err)
	}
	defer fout.Close()

	cliDirect := pbDirectWalk(func() proto.Message { return &pbx.ClientMsg{} },
		func(m proto.Message) (any, string) { r, p := pbCliDeser(m.(*pbx.ClientMsg)); return r, p })
	srvDirect := pbDirectWalk(func() proto.Message { return &pbx.ServerMsg{} },
		func(m proto.Message) (any, string) { r, p := pbSrvDeser(m.(*pbx.ServerMsg)); return r, p })
	cliRows, cliEnums := pbCliTable(cliDirect)
	srvRows, srvEnums := pbSrvTable(srvDirect)

	if os.Getenv("VERIF_MODE") == "rand" {
		seed, _ := strconv.ParseInt(os.Getenv("VERIF_SEED"), 10, 64)
		n, _ := strconv.Atoi(os.Getenv("VERIF_N"))
		pbRandRun(seed, n, pbSpellMap(pbEnumList(cliEnums), true), pbSpellMap(pbEnumList(srvEnums), true), fout)
		return
	}
	orphans := func(d *pbDirectRes, rows []pbRow) []string {
		used := map[string]bool{}
		for _, r := range rows {
			for _, p := range r.Probes {
				for _, l := range p.Pb {
					used[l.SP] = true
				}
			}
		}
		for _, qs := range d.landing {
			for _, q := range qs {
				used[q] = true
			}
		}
		var res []string
		for q := range d.wirePaths {
			if !used[q] {
				res = append(res, q)
			}
		}
		sort.Strings(res)
		return res
	}
	enc := json.NewEncoder(fout)
	enc.SetIndent("", " ")
	enc.Encode(map[string]any{
		"cli_rows": cliRows, "srv_rows": srvRows,
		"cli_enums": pbEnumList(cliEnums), "srv_enums": pbEnumList(srvEnums),
		"cli_direct": cliDirect.recs, "srv_direct": srvDirect.recs,
		"cli_orphans": orphans(cliDirect, cliRows), "srv_orphans": orphans(srvDirect, srvRows),
	})
}
