//go:build verif

// C10 presence driver: multi-user scenarios (tools/props/c10.py) against the REAL hub,
// REAL 'me', p2p and group topics, sessions and store mappers above memverif.  One
// client request at a time through Session.dispatchRaw, sound quiescence after each
// (vWaitQuiet of zz_verif_topic_test.go), then a dump of: the {pres} frames every
// session received ({info} frames as what = i:<what>), the real perSubs tables of the loaded 'me' topics, the real
// perUser[..].online counters and attached-session sets of every loaded topic, and
// the stored subscription rows.  The model runner (harness/runner/r_pres.ml) prints
// the same canonical blocks for the same scenario.
package main

import (
	"bufio"
	"fmt"
	"os"
	"sort"
	"strconv"
	"strings"
	"testing"
	"time"

	"github.com/tinode/chat/server/auth"
	"github.com/tinode/chat/server/store"
	"github.com/tinode/chat/server/store/types"
)

type pScn struct {
	id       string
	out      *bufio.Writer
	uids     map[int]types.Uid
	uidIdx   map[types.Uid]int
	sess     map[int]*vSess
	sessUser map[int]int
	dead     map[int]bool
	grp      map[int]string // group index -> grpXXX name
	grpIdx   map[string]int
	p2p      map[string]bool // p2p topic names seen
	opi      int
	// zombie 'me'/'grp' topics whose unload was split (hub removed them, the "off" fan-out is still pending)
	zombies map[string]*Topic
	// C10x: clogged connections (send buffer full, nothing reads it): session index -> stop handle of the
	// goroutine that keeps serving the session's detach channel meanwhile
	clogged map[int]*pClogC10x
}

// pClogC10x: a connection that stopped reading.  The driver's drain loop of the vSess is stopped through the
// session's own stop channel and Session.send is filled to capacity with dummy byte frames, so every
// Session.queueOut on it takes the `default:` branch - the real "connection stuck" path of
// broadcastToSessions (topic.go:1326-1337: the topic detaches the session).  As in hdl_websock.go's writeLoop
// a detach request of a topic (evictUser -> Session.detachSession) is still served: one legal schedule of a slow
// writer whose buffer stays full.
type pClogC10x struct {
	quit chan bool
	done chan bool
}

func pClogLoopC10x(s *Session, c *pClogC10x) {
	for {
		select {
		case topic := <-s.detach:
			s.delSub(topic)
		case <-c.quit:
			close(c.done)
			return
		}
	}
}

func (sc *pScn) clogC10x(si int) bool {
	vs := sc.sess[si]
	if vs == nil || sc.dead[si] || sc.clogged[si] != nil || vs.s.countSub() == 0 {
		return false
	}
	vs.s.stop <- nil
	<-vs.done
	for {
		select {
		case vs.s.send <- []byte{0x30}:
			continue
		default:
		}
		break
	}
	c := &pClogC10x{quit: make(chan bool), done: make(chan bool)}
	sc.clogged[si] = c
	go pClogLoopC10x(vs.s, c)
	return true
}

// stop serving the clogged connection; restart = the client reads again (the queued dummies are thrown away)
func (sc *pScn) unclogC10x(si int, restart bool) bool {
	c := sc.clogged[si]
	if c == nil {
		return false
	}
	close(c.quit)
	<-c.done
	delete(sc.clogged, si)
	if restart {
		vs := sc.sess[si]
		for len(vs.s.send) > 0 {
			if m := <-vs.s.send; m != nil {
				if _, dummy := m.([]byte); !dummy {
					fmt.Fprintln(sc.out, "HANG a frame entered the full queue of a clogged session")
				}
			}
		}
		vs.done = make(chan bool)
		go vs.loop()
	}
	return true
}

func (sc *pScn) userName(i int) string { return sc.uids[i].UserId() }

// token of a topic name / contact as printed: u<i> for usrXXX, g<k> for grpXXX, p<i>.<j> for p2p names
func (sc *pScn) tok(name string) string {
	if name == "" {
		return "-"
	}
	if name == "me" {
		return "me"
	}
	if k, ok := sc.grpIdx[name]; ok {
		return "g" + strconv.Itoa(k)
	}
	if strings.HasPrefix(name, "usr") {
		if i, ok := sc.uidIdx[types.ParseUserId(name)]; ok {
			return "u" + strconv.Itoa(i)
		}
	}
	if strings.HasPrefix(name, "p2p") {
		if u1, u2, err := types.ParseP2P(name); err == nil {
			a, b := sc.uidIdx[u1], sc.uidIdx[u2]
			if a > b {
				a, b = b, a
			}
			return fmt.Sprintf("p%d.%d", a, b)
		}
	}
	return "?" + name
}

// topic reference relative to a user -> (name as the client addresses it, hub name)
func (sc *pScn) topicRef(user int, ref string) (string, string) {
	switch {
	case ref == "me":
		return "me", sc.userName(user)
	case ref[0] == 'p':
		v, _ := strconv.Atoi(ref[1:])
		return sc.userName(v), sc.uids[user].P2PName(sc.uids[v])
	case ref[0] == 'g':
		k, _ := strconv.Atoi(ref[1:])
		return sc.grp[k], sc.grp[k]
	}
	return "", ""
}

// absolute topic token (m<u>, p<u>.<v>, g<k>) -> hub name
func (sc *pScn) topicAbs(tokn string) string {
	switch tokn[0] {
	case 'm':
		u, _ := strconv.Atoi(tokn[1:])
		return sc.userName(u)
	case 'p':
		ab := strings.Split(tokn[1:], ".")
		a, _ := strconv.Atoi(ab[0])
		b, _ := strconv.Atoi(ab[1])
		return sc.uids[a].P2PName(sc.uids[b])
	case 'g':
		k, _ := strconv.Atoi(tokn[1:])
		return sc.grp[k]
	}
	return ""
}

func (sc *pScn) allTopics() []string {
	var res []string
	for _, u := range sc.uids {
		res = append(res, u.UserId())
	}
	for _, g := range sc.grp {
		res = append(res, g)
	}
	for p := range sc.p2p {
		res = append(res, p)
	}
	sort.Strings(res)
	return res
}

func (sc *pScn) session(si int) *vSess {
	if vs := sc.sess[si]; vs != nil && !sc.dead[si] {
		return vs
	}
	// (re)connect: a fresh session object of the same user
	vs := vNewSession(si, sc.uids[sc.sessUser[si]], auth.LevelAuth)
	sc.sess[si] = vs
	sc.dead[si] = false
	return vs
}

func (sc *pScn) quiet() string {
	h := vWaitQuiet(sc.allTopics())
	// keep the real 4 s idle timers from firing on their own: unloads are explicit ops
	for _, n := range sc.allTopics() {
		if t := globals.hub.topicGet(n); t != nil && len(t.sessions) == 0 && t.killTimer != nil {
			t.killTimer.Reset(time.Hour)
		}
	}
	return h
}

func pMode(m types.AccessMode) string {
	if m == types.ModeInvalid {
		return "inv"
	}
	if m&types.ModeUnset != 0 {
		return "unset"
	}
	return strconv.Itoa(int(m & types.ModeBitmask))
}

func pMask(s string) string {
	n, _ := strconv.Atoi(s)
	if n == 0 {
		return "N"
	}
	return types.AccessMode(n).String()
}

// unload by the topic's OWN idle timer: the topic goroutine runs handleTopicTimeout.
func (sc *pScn) unload(name string) bool {
	t := globals.hub.topicGet(name)
	if t == nil || len(t.sessions) != 0 || t.killTimer == nil {
		return false
	}
	t.killTimer.Reset(time.Nanosecond)
	deadline := time.Now().Add(10 * time.Second)
	for globals.hub.topicGet(name) != nil && time.Now().Before(deadline) {
		time.Sleep(20 * time.Microsecond)
	}
	return true
}

func (sc *pScn) idleTopics() []string {
	var res []string
	for _, n := range sc.allTopics() {
		if t := globals.hub.topicGet(n); t != nil && len(t.sessions) == 0 {
			res = append(res, n)
		}
	}
	// canonical order: me by user index, then p2p, then groups (same as the model)
	key := func(n string) string {
		tk := sc.tok(n)
		switch tk[0] {
		case 'u':
			i, _ := strconv.Atoi(tk[1:])
			return fmt.Sprintf("0%06d", i)
		case 'p':
			ab := strings.Split(tk[1:], ".")
			a, _ := strconv.Atoi(ab[0])
			b, _ := strconv.Atoi(ab[1])
			return fmt.Sprintf("1%06d%06d", a, b)
		case 'g':
			i, _ := strconv.Atoi(tk[1:])
			return fmt.Sprintf("2%06d", i)
		}
		return "9" + n
	}
	sort.Slice(res, func(i, j int) bool { return key(res[i]) < key(res[j]) })
	return res
}

func (sc *pScn) send(si int, msg string) {
	sc.session(si).s.dispatchRaw([]byte(msg))
}

func (sc *pScn) attached(si int, hub string) bool {
	vs := sc.sess[si]
	return vs != nil && !sc.dead[si] && vs.s.getSub(hub) != nil
}

func (sc *pScn) op(w []string) {
	sc.opi++
	fmt.Fprintf(sc.out, "op %d\n", sc.opi)
	kind, a := w[0], w[1:]
	id := strconv.Itoa(sc.opi)
	at := func(i int) int { v, _ := strconv.Atoi(a[i]); return v }
	skipped := false
	if pActorOpC10x[kind] && sc.clogged[at(0)] != nil {
		// a client whose connection is stuck sends nothing either (both sides skip the request)
		kind, skipped = "", true
	}
	switch kind {
	case "new": // new <sid> <k>: create group k, owner = the session's user, default access JRWPS for authenticated users
		si := at(0)
		vs := sc.session(si)
		if len(vs.s.subs) == 0 {
			vs.s.background = len(a) > 2 && a[2] == "1"
		}
		sc.send(si, `{"sub":{"id":"`+id+`","topic":"new`+id+`x","set":{"desc":{"defacs":{"auth":"JRWPS","anon":"N"}}}}}`)
		sc.quiet()
		// find the name in the reply without consuming frames
		vs.mu.Lock()
		for _, m := range vs.frames {
			if m.Ctrl != nil && m.Ctrl.Id == id && strings.HasPrefix(m.Ctrl.Topic, "grp") {
				sc.grp[at(1)] = m.Ctrl.Topic
				sc.grpIdx[m.Ctrl.Topic] = at(1)
			}
		}
		vs.mu.Unlock()
	case "att": // att <sid> <ref> <bkg>
		si := at(0)
		vs := sc.session(si)
		cli, hub := sc.topicRef(sc.sessUser[si], a[1])
		if cli == "" || vs.s.getSub(hub) != nil {
			skipped = true
			break
		}
		if len(vs.s.subs) == 0 {
			// 'background' is a property of the whole session; nothing in this code base sets it for
			// ordinary sessions ({hi bkg:true} only arms a timer), so the driver sets the field.
			vs.s.background = len(a) > 2 && a[2] == "1"
		}
		if strings.HasPrefix(hub, "p2p") {
			sc.p2p[hub] = true
		}
		sc.send(si, `{"sub":{"id":"`+id+`","topic":"`+cli+`"}}`)
	case "det", "unsub":
		si := at(0)
		cli, hub := sc.topicRef(sc.sessUser[si], a[1])
		if !sc.attached(si, hub) {
			skipped = true
			break
		}
		uns := ""
		if kind == "unsub" {
			uns = `,"unsub":true`
		}
		sc.send(si, `{"leave":{"id":"`+id+`","topic":"`+cli+`"`+uns+`}}`)
	case "disc":
		si := at(0)
		if vs := sc.sess[si]; vs != nil && !sc.dead[si] {
			if sc.unclogC10x(si, false) {
				// the drain loop is not running: cleanUp only needs the free stop slot
				vs.s.cleanUp(true)
			} else {
				vs.s.cleanUp(true)
				<-vs.done
			}
			sc.dead[si] = true
		} else {
			skipped = true
		}
	case "clog": // clog <sid>: the connection stops reading and its send buffer is full
		if !sc.clogC10x(at(0)) {
			skipped = true
		}
	case "unclog": // unclog <sid>: the client reads again
		if !sc.unclogC10x(at(0), true) {
			skipped = true
		}
	case "fg": // background session's timer fires (hdl_websock.go:119-122)
		si := at(0)
		if vs := sc.sess[si]; vs != nil && !sc.dead[si] && vs.s.background {
			vs.s.background = false
			vs.s.onBackgroundTimer()
		} else {
			skipped = true
		}
	case "want": // want <sid> <ref> <mask>: {set sub mode} on own subscription, attached sessions only
		si := at(0)
		cli, hub := sc.topicRef(sc.sessUser[si], a[1])
		if !sc.attached(si, hub) {
			skipped = true
			break
		}
		sc.send(si, `{"set":{"id":"`+id+`","topic":"`+cli+`","sub":{"mode":"`+pMask(a[2])+`"}}}`)
	case "given": // given <sid> <ref> <user> <mask>: {set sub user mode}
		si := at(0)
		cli, hub := sc.topicRef(sc.sessUser[si], a[1])
		if !sc.attached(si, hub) {
			skipped = true
			break
		}
		sc.send(si, `{"set":{"id":"`+id+`","topic":"`+cli+`","sub":{"user":"`+sc.userName(at(2))+`","mode":"`+pMask(a[3])+`"}}}`)
	case "evict": // evict <sid> <ref> <user>: {del sub}
		si := at(0)
		cli, hub := sc.topicRef(sc.sessUser[si], a[1])
		if !sc.attached(si, hub) {
			skipped = true
			break
		}
		sc.send(si, `{"del":{"id":"`+id+`","topic":"`+cli+`","what":"sub","user":"`+sc.userName(at(2))+`"}}`)
	case "pub":
		si := at(0)
		cli, hub := sc.topicRef(sc.sessUser[si], a[1])
		if !sc.attached(si, hub) {
			skipped = true
			break
		}
		sc.send(si, `{"pub":{"id":"`+id+`","topic":"`+cli+`","content":"x"}}`)
	case "note": // note <sid> <ref> <kp|read|recv> <seq>: {note}; never answered
		si := at(0)
		cli, hub := sc.topicRef(sc.sessUser[si], a[1])
		// a "recv" of a session that is not attached is routed by the hub (session.go:1286-1301): sent all the same
		if !sc.attached(si, hub) && a[2] != "recv" {
			skipped = true
			break
		}
		seq := ""
		if a[2] != "kp" {
			seq = `,"seq":` + a[3]
		}
		sc.send(si, `{"note":{"topic":"`+cli+`","what":"`+a[2]+`"`+seq+`}}`)
	case "delmsg": // delmsg <sid> <ref> <hard>: {del what=msg} of message 1
		si := at(0)
		cli, hub := sc.topicRef(sc.sessUser[si], a[1])
		if !sc.attached(si, hub) {
			skipped = true
			break
		}
		hard := ""
		if len(a) > 2 && a[2] == "1" {
			hard = `,"hard":true`
		}
		sc.send(si, `{"del":{"id":"`+id+`","topic":"`+cli+`","what":"msg","delseq":[{"low":1}]`+hard+`}}`)
	case "unload": // unload <abs topic>: the idle timer of that topic fires
		if !sc.unload(sc.topicAbs(a[0])) {
			skipped = true
		}
	case "unloadall":
		for _, n := range sc.idleTopics() {
			sc.unload(n)
			sc.quiet()
		}
	case "unload1": // first half of handleTopicTimeout only: hub.unreg; the "off" fan-out is delayed (zombie)
		name := sc.topicAbs(a[0])
		if t := globals.hub.topicGet(name); t != nil && len(t.sessions) == 0 {
			globals.hub.unreg <- &topicUnreg{rcptTo: name}
			sc.zombies[name] = t
		} else {
			skipped = true
		}
	case "unload2": // second half: the old topic goroutine (now gone) fans out "off"
		name := sc.topicAbs(a[0])
		if t := sc.zombies[name]; t != nil {
			delete(sc.zombies, name)
			if t.cat == types.TopicCatMe {
				t.presUsersOfInterest("off", "")
			} else if t.cat == types.TopicCatGrp {
				t.presSubsOffline("off", nilPresParams, nilPresFilters, nilPresFilters, "", false)
			}
		} else {
			skipped = true
		}
	}
	hang := sc.quiet()
	if skipped {
		fmt.Fprintln(sc.out, "skipped")
	}
	if hang != "" {
		fmt.Fprintln(sc.out, hang)
	}
	sc.dump()
}

var pActorOpC10x = map[string]bool{"new": true, "att": true, "det": true, "unsub": true, "fg": true, "want": true, "given": true,
	"evict": true, "pub": true, "note": true, "delmsg": true}

func pB(b bool) string {
	if b {
		return "1"
	}
	return "0"
}

func (sc *pScn) dump() {
	// frames
	idxs := make([]int, 0, len(sc.sess))
	for i := range sc.sess {
		idxs = append(idxs, i)
	}
	sort.Ints(idxs)
	for _, i := range idxs {
		var fl []string
		for _, m := range sc.sess[i].take() {
			switch {
			case m.Pres != nil:
				fl = append(fl, fmt.Sprintf("F %d %s %s %s", i, sc.tok(m.Pres.Topic), sc.tok(m.Pres.Src), m.Pres.What))
			case m.Info != nil:
				// {info}: on 'me' Src names the topic it comes from; in the topic itself Src is empty
				src := m.Info.Src
				if src == "" {
					src = m.Info.Topic
				}
				fl = append(fl, fmt.Sprintf("F %d %s %s i:%s", i, sc.tok(m.Info.Topic), sc.tok(src), m.Info.What))
			case m.Ctrl != nil && m.Ctrl.Id != "":
				fl = append(fl, fmt.Sprintf("C %d %d", i, m.Ctrl.Code))
			case m.Ctrl != nil:
				fl = append(fl, fmt.Sprintf("E %d %d %s", i, m.Ctrl.Code, sc.tok(m.Ctrl.Topic)))
			}
		}
		sort.Strings(fl)
		for _, l := range fl {
			fmt.Fprintln(sc.out, l)
		}
	}
	// topics
	sessList := func(t *Topic) string {
		var sl []string
		for s, pssd := range t.sessions {
			for i, vs := range sc.sess {
				if vs.s == s {
					sl = append(sl, fmt.Sprintf("%d:%d:%s", i, sc.uidIdx[pssd.uid], pB(s.background)))
				}
			}
		}
		sort.Strings(sl)
		if len(sl) == 0 {
			return "-"
		}
		return strings.Join(sl, ",")
	}
	var lines []string
	for _, n := range sc.allTopics() {
		t := globals.hub.topicGet(n)
		tk := sc.tok(n)
		if tk[0] == 'u' {
			tk = "m" + tk[1:]
		}
		if t != nil {
			if t.cat == types.TopicCatMe {
				lines = append(lines, fmt.Sprintf("T %s marked=%s online=%d sess=%s", tk, pB(t.isLoaded()),
					t.perUser[types.ParseUserId(n)].online, sessList(t)))
			} else {
				lines = append(lines, fmt.Sprintf("T %s marked=%s sess=%s", tk, pB(t.isLoaded()), sessList(t)))
			}
			for c, psd := range t.perSubs {
				if sc.tok(c)[0] == '?' {
					continue // the user's own 'fnd' subscription
				}
				lines = append(lines, fmt.Sprintf("PS %s %s on=%s en=%s", tk, sc.tok(c), pB(psd.online), pB(psd.enabled)))
			}
			if t.cat != types.TopicCatMe {
				for uid, pud := range t.perUser {
					lines = append(lines, fmt.Sprintf("U %s %d want=%s given=%s online=%d deleted=%s", tk, sc.uidIdx[uid],
						pMode(pud.modeWant), pMode(pud.modeGiven), pud.online, pB(pud.deleted)))
				}
			}
		}
		// stored rows (soft-deleted included)
		if t == nil || t.cat != types.TopicCatMe {
			if tk[0] == 'm' {
				continue
			}
			for i, uid := range sc.uids {
				if sub, err := store.Subs.Get(n, uid, true); err == nil && sub != nil {
					lines = append(lines, fmt.Sprintf("R %s %d want=%s given=%s deleted=%s", tk, i, pMode(sub.ModeWant), pMode(sub.ModeGiven),
						pB(sub.DeletedAt != nil)))
				}
			}
		}
	}
	sort.Strings(lines)
	for _, l := range lines {
		fmt.Fprintln(sc.out, l)
	}
}

func (sc *pScn) finish() {
	for i, vs := range sc.sess {
		if !sc.dead[i] {
			if sc.unclogC10x(i, false) {
				vs.s.cleanUp(true)
			} else {
				vs.s.cleanUp(true)
				<-vs.done
			}
			sc.dead[i] = true
		}
	}
	vWaitQuiet(sc.allTopics())
	for _, n := range sc.allTopics() {
		if t := globals.hub.topicGet(n); t != nil {
			globals.hub.unreg <- &topicUnreg{rcptTo: n}
		}
	}
	vWaitQuiet(sc.allTopics())
}

func TestVerifPres(t *testing.T) {
	vInitServer(t)
	globals.maxSubscriberCount = 32
	fin, err := os.Open(os.Getenv("VERIF_IN"))
	if err != nil {
		t.Fatal(err)
	}
	defer fin.Close()
	fout, err := os.Create(os.Getenv("VERIF_OUT"))
	if err != nil {
		t.Fatal(err)
	}
	defer fout.Close()
	out := bufio.NewWriterSize(fout, 1<<20)
	defer out.Flush()
	in := bufio.NewScanner(fin)
	in.Buffer(make([]byte, 1<<20), 1<<26)
	var sc *pScn
	for in.Scan() {
		w := strings.Fields(in.Text())
		if len(w) == 0 {
			continue
		}
		switch w[0] {
		case "scn":
			kv := vKV(w[2:])
			sc = &pScn{id: w[1], out: out, uids: map[int]types.Uid{}, uidIdx: map[types.Uid]int{}, sess: map[int]*vSess{},
				sessUser: map[int]int{}, dead: map[int]bool{}, grp: map[int]string{}, grpIdx: map[string]int{}, p2p: map[string]bool{},
				zombies: map[string]*Topic{}, clogged: map[int]*pClogC10x{}}
			n, _ := strconv.Atoi(kv["users"])
			for i := 1; i <= n; i++ {
				u := &types.User{}
				u.Access.Auth = types.ModeCAuth
				u.Access.Anon = types.ModeNone
				if _, err := store.Users.Create(u, nil); err != nil {
					t.Fatal("user create: ", err)
				}
				sc.uids[i] = u.Uid()
				sc.uidIdx[u.Uid()] = i
			}
			fmt.Fprintf(out, "scn %s\n", w[1])
		case "sess":
			si, _ := strconv.Atoi(w[1])
			ui, _ := strconv.Atoi(w[2])
			sc.sessUser[si] = ui
		case "op":
			sc.op(w[1:])
		case "end":
			sc.finish()
			fmt.Fprintln(out, "end")
			out.Flush()
		}
	}
}
