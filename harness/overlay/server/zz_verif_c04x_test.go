//go:build verif

// C04, requests on behalf of another user: the topic-history driver (zz_verif_topic_test.go)
// extended with ROOT sessions and the `extra.obo` member of a request.
//
// Scenario format = the one of TestVerifTopic plus
//
//	sess <n> <user> r            session n of <user> is authenticated at level root
//	op <flt> <kind>@<obo> ...    the request carries {"extra":{"obo":"<id of user obo>"}};
//	                             obo = x: a string that is not a user id; obo = 0: "usr" (parses to the zero id)
//
//	op <flt> subget[@<obo>] <s> <want|-> <bkg> <a:b:l|-> <a:b:l|->    {sub get="data del"} with the options of each part
//
// for the kinds sub, subget, leave, pub, getdata, getdel, delmsg. Everything else is executed by the
// shared driver's vScn.op. The output blocks are the shared driver's.
package main

import (
	"bufio"
	"fmt"
	"os"
	"strconv"
	"strings"
	"testing"
	"time"

	"github.com/tinode/chat/server/auth"
	"github.com/tinode/chat/server/db/memverif"
	"github.com/tinode/chat/server/store"
	"github.com/tinode/chat/server/store/types"
)

type c04xScn struct {
	*vScn
	roots map[int]bool
}

// the shared driver re-creates sessions (restart, crash) at level auth: put the root flag back.
// Called at quiescence only: nothing else touches the session then.
func (sc *c04xScn) c04xReflag() {
	for si, vs := range sc.sess {
		if sc.roots[si] {
			vs.s.authLvl = auth.LevelRoot
		}
	}
}

func (sc *c04xScn) c04xExtra(obo string) string {
	switch obo {
	case "":
		return ""
	case "x":
		return `,"extra":{"obo":"nobody"}`
	case "0":
		return `,"extra":{"obo":"usr"}`
	}
	ui, _ := strconv.Atoi(obo)
	uid, ok := sc.uids[ui]
	if !ok {
		// a well-formed id of a user that does not exist in this scenario
		uid = types.Uid(0x7fff000000000000 + uint64(ui))
	}
	return `,"extra":{"obo":"` + uid.UserId() + `"}`
}

// one request with extra.obo; same framing as vScn.op
// "a:b:l" -> the JSON of MsgGetOpts
func c04xOpts(w string) string {
	p := strings.Split(w, ":")
	opts := map[string]int{}
	for i, k := range []string{"since", "before", "limit"} {
		if i < len(p) {
			if v, _ := strconv.Atoi(p[i]); v != 0 {
				opts[k] = v
			}
		}
	}
	return vJSON(opts)
}

func (sc *c04xScn) c04xOp(w []string, obo string) {
	sc.opi++
	fmt.Fprintf(sc.out, "op %d\n", sc.opi)
	flt, kind, a := w[0], w[1], w[2:]
	memverif.ClearFault()
	memverif.ResetCallLog()
	if flt != "N" {
		k, _ := strconv.Atoi(flt[1:])
		memverif.SetFault(k, flt[0] == 'C')
	}
	tn := sc.topic
	id := fmt.Sprintf("%d", sc.opi)
	at := func(i int) int { v, _ := strconv.Atoi(a[i]); return v }
	extra := sc.c04xExtra(obo)
	switch kind {
	case "sub":
		set := ""
		if a[1] != "-" {
			set = `,"set":{"sub":{"mode":` + vJSON(vHexStr(a[1])) + `}}`
		}
		sc.sess[at(0)].s.background = a[2] == "1"
		sc.send(at(0), `{"sub":{"id":"`+id+`","topic":"`+tn+`"`+set+`}`+extra+`}`)
	case "subget":
		// subget <s> <want|-> <bkg> <since:before:limit|-> <since:before:limit|->   {sub get="data del"}
		set := ""
		if a[1] != "-" {
			set = `,"set":{"sub":{"mode":` + vJSON(vHexStr(a[1])) + `}}`
		}
		sc.sess[at(0)].s.background = a[2] == "1"
		var what []string
		get := ""
		if a[3] != "-" {
			what = append(what, "data")
			get += `,"data":` + c04xOpts(a[3])
		}
		if a[4] != "-" {
			what = append(what, "del")
			get += `,"del":` + c04xOpts(a[4])
		}
		sc.send(at(0), `{"sub":{"id":"`+id+`","topic":"`+tn+`"`+set+`,"get":{"what":"`+strings.Join(what, " ")+`"`+get+`}}`+extra+`}`)
	case "leave":
		unsub := ""
		if a[1] == "1" {
			unsub = `,"unsub":true`
		}
		sc.send(at(0), `{"leave":{"id":"`+id+`","topic":"`+tn+`"`+unsub+`}`+extra+`}`)
	case "pub":
		ne := ""
		if a[2] == "1" {
			ne = `,"noecho":true`
		}
		sc.send(at(0), `{"pub":{"id":"`+id+`","topic":"`+tn+`","content":`+a[1]+ne+`}`+extra+`}`)
	case "getdata", "getdel":
		what := "data"
		if kind == "getdel" {
			what = "del"
		}
		opts := map[string]int{}
		if at(1) != 0 {
			opts["since"] = at(1)
		}
		if at(2) != 0 {
			opts["before"] = at(2)
		}
		if at(3) != 0 {
			opts["limit"] = at(3)
		}
		sc.send(at(0), `{"get":{"id":"`+id+`","topic":"`+tn+`","what":"`+what+`","`+what+`":`+vJSON(opts)+`}`+extra+`}`)
	case "delmsg":
		var rs []map[string]int
		if a[2] != "-" {
			for _, p := range strings.Split(a[2], ",") {
				lh := strings.Split(p, ":")
				lo, _ := strconv.Atoi(lh[0])
				hi, _ := strconv.Atoi(lh[1])
				r := map[string]int{}
				if lo != 0 {
					r["low"] = lo
				}
				if hi != 0 {
					r["hi"] = hi
				}
				rs = append(rs, r)
			}
		}
		hard := ""
		if a[1] == "1" {
			hard = `,"hard":true`
		}
		sc.send(at(0), `{"del":{"id":"`+id+`","topic":"`+tn+`","what":"msg","delseq":`+vJSON(rs)+hard+`}`+extra+`}`)
	default:
		fmt.Fprintf(sc.out, "UNSUPPORTED %s with obo\n", kind)
	}
	hang := vWaitQuiet([]string{tn})
	sc.emitFrames()
	calls := memverif.CallLog()
	if flt != "N" && flt[0] == 'C' {
		sc.restart()
		if h2 := vWaitQuiet([]string{tn}); h2 != "" {
			hang = h2
		}
	}
	if hang != "" {
		fmt.Fprintln(sc.out, hang)
	}
	fmt.Fprintf(sc.out, "calls %d\n", len(calls))
	fmt.Fprintf(sc.out, "calllog %s\n", strings.Join(calls, " "))
	memverif.ClearFault()
	if t := globals.hub.topicGet(sc.topic); t == nil {
		fmt.Fprintln(sc.out, "loaded 0")
	} else {
		fmt.Fprintln(sc.out, "loaded 1")
	}
	sc.emitStore()
	sc.emitCache()
}

func TestVerifC04Obo(t *testing.T) {
	vInitServer(t)
	fin, err := os.Open(os.Getenv("VERIF_IN"))
	if err != nil {
		t.Fatal(err)
	}
	defer fin.Close()
	fout, err := os.Create(os.Getenv("VERIF_OUT"))
	if err != nil {
		t.Fatal(err)
	}
	defer fout.Close()
	out := bufio.NewWriterSize(fout, 1<<20)
	defer out.Flush()
	in := bufio.NewScanner(fin)
	in.Buffer(make([]byte, 1<<20), 1<<26)
	var sc *c04xScn
	scnCount := 0
	for in.Scan() {
		w := strings.Fields(in.Text())
		if len(w) == 0 {
			continue
		}
		switch w[0] {
		case "scn":
			scnCount++
			kv := vKV(w[2:])
			sc = &c04xScn{vScn: &vScn{id: w[1], uids: map[int]types.Uid{}, uidIdx: map[types.Uid]int{}, sess: map[int]*vSess{},
				sessUser: map[int]int{}, out: out}, roots: map[int]bool{}}
			sc.topic = "grpVerifC04x" + strconv.Itoa(scnCount) + "x" + strconv.FormatInt(time.Now().UnixNano()%1000000, 36)
			sc.gen = scnCount
			sc.pending(kv)
			fmt.Fprintf(out, "scn %s\n", w[1])
		case "user":
			kv := vKV(w[2:])
			i, _ := strconv.Atoi(w[1])
			acc, _ := strconv.Atoi(kv["acc"])
			u := &types.User{}
			u.Access.Auth = types.AccessMode(acc)
			u.Access.Anon = types.ModeNone
			if _, err := store.Users.Create(u, nil); err != nil {
				t.Fatal("user create: ", err)
			}
			sc.uids[i] = u.Uid()
			sc.uidIdx[u.Uid()] = i
			sc.maybeCreateTopic(t, i)
		case "subrow":
			kv := vKV(w[2:])
			i, _ := strconv.Atoi(w[1])
			want, _ := strconv.Atoi(kv["want"])
			given, _ := strconv.Atoi(kv["given"])
			if err := store.Subs.Create(&types.Subscription{User: sc.uids[i].String(), Topic: sc.topic,
				ModeWant: types.AccessMode(want), ModeGiven: types.AccessMode(given)}); err != nil {
				t.Fatal("sub create: ", err)
			}
		case "sess":
			si, _ := strconv.Atoi(w[1])
			ui, _ := strconv.Atoi(w[2])
			sc.sessUser[si] = ui
			lvl := auth.LevelAuth
			if len(w) > 3 && w[3] == "r" {
				sc.roots[si] = true
				lvl = auth.LevelRoot
			}
			sc.sess[si] = vNewSession(si, sc.uids[ui], lvl)
		case "op":
			kind, obo := w[2], ""
			if i := strings.Index(kind, "@"); i >= 0 {
				kind, obo = w[2][:i], w[2][i+1:]
			}
			if obo == "" && kind != "subget" {
				sc.op(w[1:])
			} else {
				ww := append([]string{w[1], kind}, w[3:]...)
				sc.c04xOp(ww, obo)
			}
			sc.c04xReflag()
		case "end":
			sc.finish()
			fmt.Fprintln(out, "end")
			out.Flush()
		}
	}
}
