//go:build verif

// C02 fan-out driver: runs delivery scenarios (tools/props/c02.py) against the REAL hub, topic
// goroutines (group, channel-enabled group, p2p), sessions and store mappers above memverif:
// Session.dispatchRaw -> Session.publish -> Topic.handlePubBroadcast -> saveAndBroadcastMessage ->
// broadcastToSessions / prepareBroadcastableMessage / msg.copy -> Session.queueOut, and
// pushForData -> sendPush -> globals.usersUpdate (a channel owned by the driver: the receipt is
// observed where the topic hands it to the user cache, before any device lookup).
// One client request at a time, sound quiescence after each (vWaitQuiet), then the canonical
// block: the frames every connection received, the push receipts, and the part of the topic state
// the fan-out reads (perUser want/given/deleted/isChan, attached sessions with acting user and
// channel flag, lastID), read only at quiescence (topic goroutine parked, queues empty).
// The model runner harness/runner/r_c02.ml prints the same blocks for the same scenario.
//
// Reuses vInitServer, vNewSession, vSess, vWaitQuiet, vKV, vNum, vB2s of zz_verif_topic_test.go /
// zz_verif_lines_test.go.  Nothing is written to /repo.
//
// "note <s> ...": a {note what=kp|kpa|read|recv} through Session.note -> Topic.handleNoteBroadcast -> the {info}
// branch of broadcastToSessions; the {info} frames every connection received are printed.
//
// "clog <s>": the connection stops reading (the driver's drain loop of that vSess is stopped through
// the session's own stop channel) and its send buffer is filled to capacity with dummy byte frames, so
// that every Session.queueOut on it takes the `default:` branch - the real "connection stuck" path of
// broadcastToSessions.  "unclog <s>" throws the queued dummies away and restarts the drain loop.
package main

import (
	"bufio"
	"fmt"
	"io"
	"os"
	"sort"
	"strconv"
	"strings"
	"testing"
	"time"

	"github.com/tinode/chat/server/auth"
	"github.com/tinode/chat/server/logs"
	"github.com/tinode/chat/server/store"
	"github.com/tinode/chat/server/store/types"
)

type fScn struct {
	id       string
	kind     string // grp | chn | p2p
	out      *bufio.Writer
	uids     map[int]types.Uid
	uidIdx   map[types.Uid]int
	topic    string // hub name: grpXXX or p2pXXX
	rows     [][]string
	defacs   int
	sess     map[int]*vSess
	sessUser map[int]int
	sessRoot map[int]bool
	dead     map[int]bool
	clogged  map[int]bool
	opi      int
}

func (sc *fScn) uidx(userId string) int {
	if userId == "" {
		return 0
	}
	u := types.ParseUserId(userId)
	if u.IsZero() {
		u = types.ParseUid(userId)
	}
	if i, ok := sc.uidIdx[u]; ok {
		return i
	}
	return 99
}

// topic name as carried by a frame -> canonical token
func (sc *fScn) tname(n string) string {
	switch {
	case n == "":
		return "-"
	case n == sc.topic && sc.kind == "p2p":
		return "T"
	case n == sc.topic:
		return "g"
	case sc.kind != "p2p" && n == types.GrpToChn(sc.topic):
		return "c"
	case strings.HasPrefix(n, "usr"):
		return "u" + strconv.Itoa(sc.uidx(n))
	}
	return "?" + n
}

// the name a client acting as user `as` writes for spelling sp: g (grpX), c (chnX), u (usr<peer>), T (p2p name)
func (sc *fScn) cliName(as int, sp string) string {
	switch sp {
	case "g":
		return sc.topic
	case "c":
		return types.GrpToChn(sc.topic)
	case "u":
		if as == 1 {
			return sc.uids[2].UserId()
		}
		return sc.uids[1].UserId()
	}
	return sc.topic
}

func fMode(m types.AccessMode) string {
	if m == types.ModeInvalid {
		return "inv"
	}
	if m&types.ModeUnset != 0 {
		return "unset"
	}
	return strconv.Itoa(int(m & types.ModeBitmask))
}

func fMask(s string) types.AccessMode {
	n, _ := strconv.Atoi(s)
	return types.AccessMode(n)
}

func fMaskStr(s string) string {
	n, _ := strconv.Atoi(s)
	if n == 0 {
		return "N"
	}
	return types.AccessMode(n).String()
}

func (sc *fScn) headStr(h map[string]any) string {
	if len(h) == 0 {
		return "-"
	}
	var ks []string
	for k := range h {
		ks = append(ks, k)
	}
	sort.Strings(ks)
	var ps []string
	for _, k := range ks {
		v := h[k]
		if k == "sender" {
			if s, ok := v.(string); ok {
				ps = append(ps, "sender:u"+strconv.Itoa(sc.uidx(s)))
			} else {
				ps = append(ps, "sender:?")
			}
			continue
		}
		ps = append(ps, k+":"+strings.ReplaceAll(vNum(v), " ", "_"))
	}
	return strings.Join(ps, ",")
}

func (sc *fScn) frame(m *ServerComMessage, id string) string {
	switch {
	case m.Ctrl != nil:
		res := "ctrl " + strconv.Itoa(m.Ctrl.Code) + " mine=" + vB2s(m.Ctrl.Id == id && id != "")
		if p, ok := m.Ctrl.Params.(map[string]any); ok {
			if v, ok := p["seq"]; ok {
				res += " seq=" + vNum(v)
			}
		}
		return res + " topic=" + sc.tname(m.Ctrl.Topic)
	case m.Data != nil:
		return fmt.Sprintf("data seq=%d from=%d topic=%s content=%s head=%s", m.Data.SeqId, sc.uidx(m.Data.From),
			sc.tname(m.Data.Topic), strings.ReplaceAll(vNum(m.Data.Content), " ", "_"), sc.headStr(m.Data.Head))
	case m.Info != nil:
		src := "-"
		if m.Info.Src != "" {
			src = sc.tname(m.Info.Src)
		}
		return fmt.Sprintf("info what=%s from=%d seq=%d topic=%s src=%s", m.Info.What, sc.uidx(m.Info.From), m.Info.SeqId,
			sc.tname(m.Info.Topic), src)
	case m.Pres != nil:
		return "pres " + m.Pres.What
	case m.Meta != nil:
		return "meta"
	}
	return "frame ?"
}

func (sc *fScn) emitPush() {
	for {
		select {
		case req := <-globals.usersUpdate:
			if req == nil || req.PushRcpt == nil || req.PushRcpt.Payload.What != "msg" {
				continue
			}
			r := req.PushRcpt
			var to []int
			for uid := range r.To {
				i, ok := sc.uidIdx[uid]
				if !ok {
					i = 99
				}
				to = append(to, i)
			}
			sort.Ints(to)
			var ts []string
			for _, i := range to {
				ts = append(ts, strconv.Itoa(i))
			}
			tos := strings.Join(ts, ",")
			if tos == "" {
				tos = "-"
			}
			fmt.Fprintf(sc.out, "push seq=%d from=%d topic=%s to=%s chan=%s\n", r.Payload.SeqId, sc.uidx(r.Payload.From),
				sc.tname(r.Payload.Topic), tos, sc.tname(r.Channel))
		default:
			return
		}
	}
}

func (sc *fScn) emitFrames(id string) {
	idxs := make([]int, 0, len(sc.sess))
	for i := range sc.sess {
		idxs = append(idxs, i)
	}
	sort.Ints(idxs)
	for _, i := range idxs {
		if sc.clogged[i] {
			continue
		}
		for _, m := range sc.sess[i].take() {
			fmt.Fprintf(sc.out, "S%d %s\n", i, sc.frame(m, id))
		}
	}
	sc.emitPush()
}

func (sc *fScn) sidx(s *Session) int {
	for i, vs := range sc.sess {
		if vs.s == s {
			return i
		}
	}
	return 0
}

func (sc *fScn) emitState() {
	t := globals.hub.topicGet(sc.topic)
	if t == nil {
		fmt.Fprintln(sc.out, "loaded 0")
		return
	}
	fmt.Fprintln(sc.out, "loaded 1")
	fmt.Fprintf(sc.out, "lastid %d\n", t.lastID)
	var ul []string
	for uid, p := range t.perUser {
		i, ok := sc.uidIdx[uid]
		if !ok {
			i = 99
		}
		ul = append(ul, fmt.Sprintf("U %02d want=%s given=%s del=%s chan=%s", i, fMode(p.modeWant), fMode(p.modeGiven),
			vB2s(p.deleted), vB2s(p.isChan)))
	}
	sort.Strings(ul)
	for _, l := range ul {
		fmt.Fprintln(sc.out, l)
	}
	var al []string
	for s, pssd := range t.sessions {
		i, ok := sc.uidIdx[pssd.uid]
		if !ok {
			i = 99
		}
		al = append(al, fmt.Sprintf("A %02d uid=%d chan=%s", sc.sidx(s), i, vB2s(pssd.isChanSub)))
	}
	sort.Strings(al)
	for _, l := range al {
		fmt.Fprintln(sc.out, l)
	}
}

func (sc *fScn) topics() []string { return []string{sc.topic} }

func (sc *fScn) session(si int) *vSess {
	if vs := sc.sess[si]; vs != nil && !sc.dead[si] {
		return vs
	}
	lvl := auth.LevelAuth
	if sc.sessRoot[si] {
		lvl = auth.LevelRoot
	}
	vs := vNewSession(si, sc.uids[sc.sessUser[si]], lvl)
	sc.sess[si] = vs
	sc.dead[si] = false
	sc.clogged[si] = false
	return vs
}

func (sc *fScn) quiet() string {
	h := vWaitQuiet(sc.topics())
	// the real idle timer would unload an unattended topic after a few seconds of wall clock: not part of these scenarios
	if t := globals.hub.topicGet(sc.topic); t != nil && len(t.sessions) == 0 && t.killTimer != nil {
		t.killTimer.Reset(time.Hour)
	}
	return h
}

func (sc *fScn) op(w []string) {
	sc.opi++
	fmt.Fprintf(sc.out, "op %d\n", sc.opi)
	kind, a := w[0], w[1:]
	id := strconv.Itoa(sc.opi)
	at := func(i int) int { v, _ := strconv.Atoi(a[i]); return v }
	si := at(0)
	if _, ok := sc.sessUser[si]; !ok {
		fmt.Fprintln(sc.out, "skipped")
		sc.emitState()
		return
	}
	vs := sc.session(si)
	// acting user and the `extra` member
	as, extra, tn := sc.sessUser[si], "", ""
	if len(a) >= 3 && kind != "disc" && kind != "clog" && kind != "unclog" {
		if at(1) != 0 {
			as = at(1)
			extra = `,"extra":{"obo":"` + sc.uids[as].UserId() + `"}`
		}
		tn = sc.cliName(as, a[2])
	}
	send := func(msg string) { vs.s.dispatchRaw([]byte(msg)) }
	switch kind {
	case "att":
		send(`{"sub":{"id":"` + id + `","topic":"` + tn + `"}` + extra + `}`)
	case "det":
		send(`{"leave":{"id":"` + id + `","topic":"` + tn + `"}` + extra + `}`)
	case "unsub":
		send(`{"leave":{"id":"` + id + `","topic":"` + tn + `","unsub":true}` + extra + `}`)
	case "disc":
		if sc.clogged[si] {
			// the drain loop is not running: cleanUp only needs the stop slot
			vs.s.cleanUp(true)
		} else {
			vs.s.cleanUp(true)
			<-vs.done
		}
		sc.dead[si] = true
		sc.clogged[si] = false
	case "want":
		send(`{"set":{"id":"` + id + `","topic":"` + tn + `","sub":{"mode":"` + fMaskStr(a[3]) + `"}}` + extra + `}`)
	case "given":
		send(`{"set":{"id":"` + id + `","topic":"` + tn + `","sub":{"user":"` + sc.uids[at(3)].UserId() + `","mode":"` + fMaskStr(a[4]) + `"}}` + extra + `}`)
	case "evict":
		send(`{"del":{"id":"` + id + `","topic":"` + tn + `","what":"sub","user":"` + sc.uids[at(3)].UserId() + `"}` + extra + `}`)
	case "pub":
		// pub <s> <as> <spelling> <noecho> <hasid> <content> <head>
		ne, pid, head := "", "", ""
		if a[3] == "1" {
			ne = `,"noecho":true`
		}
		if a[4] == "1" {
			pid = `"id":"` + id + `",`
		} else {
			id = ""
		}
		if a[6] != "-" {
			var ps []string
			for _, kv := range strings.Split(a[6], ",") {
				p := strings.SplitN(kv, ":", 2)
				v := `"` + p[1] + `"`
				if p[0] == "sender" {
					if strings.HasPrefix(p[1], "u") {
						ui, _ := strconv.Atoi(p[1][1:])
						v = `"` + sc.uids[ui].UserId() + `"`
					}
				}
				ps = append(ps, `"`+p[0]+`":`+v)
			}
			head = `,"head":{` + strings.Join(ps, ",") + `}`
		}
		send(`{"pub":{` + pid + `"topic":"` + tn + `","content":` + a[5] + ne + head + `}` + extra + `}`)
	case "note":
		// note <s> <as> <spelling> <what> <seq>
		seq := ""
		if a[4] != "0" {
			seq = `,"seq":` + a[4]
		}
		send(`{"note":{"topic":"` + tn + `","what":"` + a[3] + `"` + seq + `}` + extra + `}`)
	case "clog":
		if !sc.clogged[si] {
			vs.s.stop <- nil
			<-vs.done
			n := 0
			for {
				select {
				case vs.s.send <- []byte{0x30}:
					n++
					continue
				default:
				}
				break
			}
			sc.clogged[si] = true
		}
	case "unclog":
		if sc.clogged[si] {
			for len(vs.s.send) > 0 {
				m := <-vs.s.send
				if _, dummy := m.([]byte); !dummy {
					fmt.Fprintln(sc.out, "CLOGLEAK a frame entered a full queue")
				}
			}
			vs.done = make(chan bool)
			go vs.loop()
			sc.clogged[si] = false
		}
	}
	hang := sc.quiet()
	sc.emitFrames(id)
	if hang != "" {
		fmt.Fprintln(sc.out, hang)
	}
	sc.emitState()
}

func (sc *fScn) finish() {
	for i, vs := range sc.sess {
		if !sc.dead[i] {
			// Session.purgeChannels (`for len(s.send) > 0 { <-s.send }`) races with the connection's own drain loop:
			// if the loop takes the last frame between the len() and the receive, cleanUp blocks for ever.  The
			// previous cleanUp makes the topic queue {pres off} on the remaining connections, so wait until their
			// loops have drained everything before the next one (seen as a rare stall of the whole run).
			vWaitQuiet(sc.topics())
			vs.s.cleanUp(true)
			if !sc.clogged[i] {
				<-vs.done
			}
			sc.dead[i] = true
		}
	}
	vWaitQuiet(sc.topics())
	if t := globals.hub.topicGet(sc.topic); t != nil {
		globals.hub.unreg <- &topicUnreg{rcptTo: sc.topic}
	}
	vWaitQuiet(sc.topics())
	for len(globals.usersUpdate) > 0 {
		<-globals.usersUpdate
	}
}

// create the topic and the initial subscription rows directly in the store: the topic is loaded from
// them by the real initTopicGrp / initTopicP2P + loadSubscribers on the first {sub}
func (sc *fScn) mk(t *testing.T) {
	now := types.TimeNow()
	if sc.kind == "p2p" {
		sc.topic = sc.uids[1].P2PName(sc.uids[2])
		var subs [2]*types.Subscription
		for _, r := range sc.rows {
			kv := vKV(r[1:])
			i, _ := strconv.Atoi(r[0])
			if i == 1 || i == 2 {
				subs[i-1] = &types.Subscription{User: sc.uids[i].String(), Topic: sc.topic, ModeWant: fMask(kv["want"]), ModeGiven: fMask(kv["given"])}
			}
		}
		if subs[0] == nil || subs[1] == nil {
			t.Fatal("p2p scenario needs rows for users 1 and 2")
		}
		if err := store.Topics.CreateP2P(subs[0], subs[1]); err != nil {
			t.Fatal("p2p create: ", err)
		}
		return
	}
	sc.topic = "grpC02v" + strconv.FormatInt(time.Now().UnixNano()%100000000000, 36) + "x" + sc.id
	stopic := &types.Topic{
		ObjHeader: types.ObjHeader{Id: sc.topic, CreatedAt: now},
		Access:    types.DefaultAccess{Auth: types.AccessMode(sc.defacs), Anon: types.ModeNone},
		UseBt:     sc.kind == "chn",
	}
	for _, r := range sc.rows {
		kv := vKV(r[1:])
		i, _ := strconv.Atoi(r[0])
		if i == 1 {
			// the owner: store.Topics.Create writes given = CFull, want = the access given here
			stopic.GiveAccess(sc.uids[1], fMask(kv["want"]), types.ModeCFull)
			if err := store.Topics.Create(stopic, sc.uids[1], nil); err != nil {
				t.Fatal("topic create: ", err)
			}
		}
	}
	for _, r := range sc.rows {
		kv := vKV(r[1:])
		i, _ := strconv.Atoi(r[0])
		if i == 1 {
			continue
		}
		name := sc.topic
		if kv["chan"] == "1" {
			name = types.GrpToChn(sc.topic)
		}
		if err := store.Subs.Create(&types.Subscription{User: sc.uids[i].String(), Topic: name,
			ModeWant: fMask(kv["want"]), ModeGiven: fMask(kv["given"])}); err != nil {
			t.Fatal("sub create: ", err)
		}
	}
}

func TestVerifFanout(t *testing.T) {
	vInitServer(t)
	logs.Init(io.Discard, "stdFlags")
	globals.maxSubscriberCount = 128
	fin, err := os.Open(os.Getenv("VERIF_IN"))
	if err != nil {
		t.Fatal(err)
	}
	defer fin.Close()
	fout, err := os.Create(os.Getenv("VERIF_OUT"))
	if err != nil {
		t.Fatal(err)
	}
	defer fout.Close()
	out := bufio.NewWriterSize(fout, 1<<20)
	defer out.Flush()
	in := bufio.NewScanner(fin)
	in.Buffer(make([]byte, 1<<20), 1<<26)
	var sc *fScn
	for in.Scan() {
		w := strings.Fields(in.Text())
		if len(w) == 0 {
			continue
		}
		switch w[0] {
		case "scn":
			kv := vKV(w[2:])
			sc = &fScn{id: w[1], kind: kv["kind"], out: out, uids: map[int]types.Uid{}, uidIdx: map[types.Uid]int{},
				sess: map[int]*vSess{}, sessUser: map[int]int{}, sessRoot: map[int]bool{}, dead: map[int]bool{}, clogged: map[int]bool{}}
			sc.defacs, _ = strconv.Atoi(kv["defacs"])
			n, _ := strconv.Atoi(kv["users"])
			for i := 1; i <= n; i++ {
				u := &types.User{}
				u.Access.Auth = types.ModeCAuth
				u.Access.Anon = types.ModeNone
				if _, err := store.Users.Create(u, nil); err != nil {
					t.Fatal("user create: ", err)
				}
				sc.uids[i] = u.Uid()
				sc.uidIdx[u.Uid()] = i
			}
			for len(globals.usersUpdate) > 0 {
				<-globals.usersUpdate
			}
			fmt.Fprintf(out, "scn %s\n", w[1])
		case "subrow":
			sc.rows = append(sc.rows, w[1:])
		case "mk":
			sc.mk(t)
		case "sess":
			si, _ := strconv.Atoi(w[1])
			ui, _ := strconv.Atoi(w[2])
			sc.sessUser[si] = ui
			sc.sessRoot[si] = len(w) > 3 && w[3] == "r"
		case "op":
			sc.op(w[1:])
		case "end":
			sc.finish()
			fmt.Fprintln(out, "end")
			out.Flush()
		}
	}
}
