//go:build verif

// C01 "several requests in flight" driver (model coq/Sys/TopicBurstC01.v, runner
// harness/runner/r_c01b.ml): histories on a REAL group topic above memverif in which
//
//   - BURSTS of {pub} requests (same session, different sessions, different users) are dispatched
//     back to back through Session.dispatchRaw WITHOUT waiting in between; every session is served
//     by a write loop that, like hdl_websock.go writeLoop, serialises a frame (Session.serialize ->
//     json.Marshal) at the moment it takes it from Session.send; the loops of the "held" sessions of
//     a burst do not run until the whole burst has been handled (a slow socket), so that whatever
//     the topic goroutine does after queueing a frame is visible in what goes on the wire;
//   - the IDLE-UNLOAD RACE is driven deterministically: `timeout` is the first statement of
//     handleTopicTimeout (an unregister request is on its way to the hub; the driver sends it when
//     the scenario says the hub handles it: `hubunreg`), sessions may still attach to the instance
//     and publish in between, `hubunreg` lets the real Hub.topicUnreg run (the instance's goroutine
//     reads its exit message and ends), `zpub` makes the unregistered instance handle a {pub} that
//     the real Session.publish queued on its clientMsg channel (the order "clientMsg before exit"
//     of the select in runLocal; the handler is run by the driver after the instance's goroutine
//     has ended - handleTopicTermination touches neither lastID nor the status bits), `zexit` lets
//     the sessions of that instance process the detach request it sent them.
//
// Every number passed to store.Messages.Save for the scenario topic, with the outcome, is recorded
// by a wrapper installed around the real mapper (`issued` line of each block).
//
// Scenario lines: the head lines of the topic-history driver (scn/user/subrow/sess), then
//   op <N|Fk> sub <s> <mode|-> <bkg> | leave <s> <unsub> | pub <s> <content> <noecho> |
//             getdata <s> <since> <before> <limit> | getdesc <s> | unload | restart
//   op N timeout | hubunreg | zpub <i> <s> <content> <noecho> | zexit <i>
//   op N hubunregmid <s> <content> <noecho> | zfinish <i>      (the unregistration lands inside a publish
//             handler: the instance's goroutine is held at the entry of Save's first adapter call)
//   op N burst <held sessions a,b|-> <s> <content> <noecho> ...
//   end
// Reuses vScn (frame rendering, emitPush, emitStore, emitCache), vSess, vWaitQuiet, vInitServer, vKV,
// vJSON, vHexStr of zz_verif_topic_test.go.
package main

import (
	"bufio"
	"encoding/json"
	"fmt"
	"os"
	"sort"
	"strconv"
	"strings"
	"sync"
	"testing"
	"time"

	"github.com/tinode/chat/server/auth"
	"github.com/tinode/chat/server/db/memverif"
	"github.com/tinode/chat/server/store"
	"github.com/tinode/chat/server/store/types"
)

// ---- a session whose write loop serialises at dequeue time and can be held ----

type c01bSess struct {
	vs         *vSess
	mu         sync.Mutex
	holdSend   bool
	holdDetach bool
	kick       chan struct{}
	syncReq    chan chan struct{}
}

// pause: the loop stops taking from Session.send / Session.detach and has acknowledged it, so that
// Session.cleanUp (purgeChannels: `for len(ch) > 0 { <-ch }`) is the only reader of those channels
func (bs *c01bSess) pause() {
	bs.mu.Lock()
	bs.holdSend, bs.holdDetach = true, true
	bs.mu.Unlock()
	ack := make(chan struct{})
	bs.syncReq <- ack
	<-ack
}

func (bs *c01bSess) kickLoop() {
	select {
	case bs.kick <- struct{}{}:
	default:
	}
}

func (bs *c01bSess) setHoldSend(v bool) {
	bs.mu.Lock()
	bs.holdSend = v
	bs.mu.Unlock()
	bs.kickLoop()
}

func (bs *c01bSess) setHoldDetach(v bool) {
	bs.mu.Lock()
	bs.holdDetach = v
	bs.mu.Unlock()
	bs.kickLoop()
}

func (bs *c01bSess) hold(send, detach bool) {
	bs.mu.Lock()
	bs.holdSend, bs.holdDetach = send, detach
	bs.mu.Unlock()
	select {
	case bs.kick <- struct{}{}:
	default:
	}
}

// what goes on the wire for one queued frame: Session.serialize now, parsed back for rendering
func (bs *c01bSess) wire(m *ServerComMessage) {
	_, data := bs.vs.s.serialize(m)
	b, _ := data.([]byte)
	var back ServerComMessage
	if err := json.Unmarshal(b, &back); err != nil {
		back = ServerComMessage{Ctrl: &MsgServerCtrl{Code: 999, Text: "unparsable frame: " + err.Error()}}
	}
	bs.vs.mu.Lock()
	bs.vs.frames = append(bs.vs.frames, &back)
	bs.vs.mu.Unlock()
}

func (bs *c01bSess) loop() {
	s := bs.vs.s
	for {
		var sendCh <-chan any = s.send
		var detCh <-chan string = s.detach
		bs.mu.Lock()
		if bs.holdSend {
			sendCh = nil
		}
		if bs.holdDetach {
			detCh = nil
		}
		bs.mu.Unlock()
		select {
		case m, ok := <-sendCh:
			if !ok {
				close(bs.vs.done)
				return
			}
			switch v := m.(type) {
			case *ServerComMessage:
				bs.wire(v)
			case []*ServerComMessage:
				for _, x := range v {
					bs.wire(x)
				}
			}
		case topic := <-detCh:
			s.delSub(topic)
		case <-s.stop:
			close(bs.vs.done)
			return
		case <-bs.kick:
		case ack := <-bs.syncReq:
			close(ack)
		}
	}
}

func c01bNewSession(idx int, uid types.Uid) *c01bSess {
	s := &Session{
		proto:        WEBSOCK,
		sid:          fmt.Sprintf("vb%d_%d", idx, time.Now().UnixNano()),
		uid:          uid,
		authLvl:      auth.LevelAuth,
		ver:          (0 << 8) | 22,
		subs:         make(map[string]*Subscription),
		send:         make(chan any, 4096),
		stop:         make(chan any, 1),
		detach:       make(chan string, 64),
		inflightReqs: newBoundedWaitGroup(1),
		lastTouched:  time.Now(),
	}
	s.bkgTimer = time.NewTimer(time.Hour)
	s.bkgTimer.Stop()
	bs := &c01bSess{vs: &vSess{s: s, idx: idx, done: make(chan bool)}, kick: make(chan struct{}, 1), syncReq: make(chan chan struct{})}
	go bs.loop()
	return bs
}

// ---- the numbers passed to store.Messages.Save ----

type c01bSpy struct {
	store.MessagesPersistenceInterface
	mu    sync.Mutex
	topic string
	log   []string
}

func (p *c01bSpy) Save(msg *types.Message, attachmentURLs []string, readBySender bool) (error, bool) {
	err, b := p.MessagesPersistenceInterface.Save(msg, attachmentURLs, readBySender)
	p.mu.Lock()
	if msg.Topic == p.topic {
		ok := "0"
		if err == nil {
			ok = "1"
		}
		p.log = append(p.log, strconv.Itoa(msg.SeqId)+":"+ok)
	}
	p.mu.Unlock()
	return err, b
}

func (p *c01bSpy) take() []string {
	p.mu.Lock()
	defer p.mu.Unlock()
	l := p.log
	p.log = nil
	return l
}

// ---- scenario ----

type c01bScn struct {
	*vScn
	bs      map[int]*c01bSess
	pend    int
	zombies []*Topic
	spy     *c01bSpy
	// the instance whose goroutine the driver holds inside store.Messages.Save (hubunregmid .. zfinish)
	mid     *Topic
	release chan struct{}
}

// lets the held publish go on (and the instance read its exit message)
func (sc *c01bScn) releaseMid() {
	if sc.mid != nil {
		memverif.SetHook("TopicUpdateOnMessage", nil)
		close(sc.release)
		sc.mid, sc.release = nil, nil
	}
}

// quiescence of the server plus: every write loop that is not held has emptied its queues
func (sc *c01bScn) quiet() string {
	deadline := time.Now().Add(20 * time.Second)
	for {
		hang := vWaitQuiet([]string{sc.topic})
		busy := false
		for _, b := range sc.bs {
			b.mu.Lock()
			hs, hd := b.holdSend, b.holdDetach
			b.mu.Unlock()
			if (!hs && len(b.vs.s.send) > 0) || (!hd && len(b.vs.s.detach) > 0) {
				busy = true
			}
		}
		if !busy || hang != "" {
			return hang
		}
		if time.Now().After(deadline) {
			return "HANG session write loop"
		}
		time.Sleep(50 * time.Microsecond)
	}
}

func (sc *c01bScn) emit() {
	sc.emitPush()
	idxs := make([]int, 0, len(sc.sess))
	for i := range sc.sess {
		idxs = append(idxs, i)
	}
	sort.Ints(idxs)
	for _, i := range idxs {
		for _, m := range sc.sess[i].take() {
			t := sc.frame(m)
			if m.Ctrl != nil && m.Ctrl.Id != "" {
				t += " id=" + m.Ctrl.Id
			}
			fmt.Fprintf(sc.out, "S%d %s\n", i, t)
		}
	}
}

func (sc *c01bScn) newSession(si int) {
	b := c01bNewSession(si, sc.uids[sc.sessUser[si]])
	sc.bs[si] = b
	sc.sess[si] = b.vs
}

func (sc *c01bScn) dropAll() {
	sc.releaseMid()
	vWaitQuiet([]string{sc.topic})
	for _, b := range sc.bs {
		b.pause()
		b.vs.s.cleanUp(true)
		<-b.vs.done
	}
	vWaitQuiet([]string{sc.topic})
	if t := globals.hub.topicGet(sc.topic); t != nil {
		globals.hub.unreg <- &topicUnreg{rcptTo: sc.topic}
	}
	vWaitQuiet([]string{sc.topic})
	sc.zombies, sc.pend = nil, 0
}

func (sc *c01bScn) pubJSON(id, content, noecho string) string {
	ne := ""
	if noecho == "1" {
		ne = `,"noecho":true`
	}
	return `{"pub":{"id":"` + id + `","topic":"` + sc.topic + `","content":` + content + ne + `}}`
}

// the unregistered instance session si is still attached to, or -1
func (sc *c01bScn) zombieOf(si int) int {
	b := sc.bs[si]
	if b == nil {
		return -1
	}
	for i, z := range sc.zombies {
		if _, ok := z.sessions[b.vs.s]; ok {
			return i
		}
	}
	return -1
}

// zombie i handles the {pub} the real Session.publish queues on its clientMsg channel
func (sc *c01bScn) zpub(i, si int, id, content, noecho string) bool {
	z := sc.zombies[i]
	sc.send(si, sc.pubJSON(id, content, noecho))
	select {
	case m := <-z.clientMsg:
		// runLocal: `case msg := <-t.clientMsg: t.handleClientMsg(msg)` chosen before `case sd := <-t.exit`
		z.handleClientMsg(m)
		return true
	default:
		return false
	}
}

func (sc *c01bScn) bop(w []string) {
	sc.opi++
	fmt.Fprintf(sc.out, "op %d\n", sc.opi)
	flt, kind, a := w[0], w[1], w[2:]
	memverif.ClearFault()
	memverif.ResetCallLog()
	sc.spy.take()
	if flt != "N" && flt[0] == 'F' {
		k, _ := strconv.Atoi(flt[1:])
		memverif.SetFault(k, false)
	}
	tn := sc.topic
	id := strconv.Itoa(sc.opi)
	at := func(i int) int { v, _ := strconv.Atoi(a[i]); return v }
	invalid := false
	switch kind {
	case "leave", "getdata", "getdesc":
		if sc.zombieOf(at(0)) >= 0 {
			// outside the model: the request would sit in the queues of an instance that no longer runs
			invalid = true
			kind = "skip"
		}
	}
	switch kind {
	case "sub":
		set := ""
		if a[1] != "-" {
			set = `,"set":{"sub":{"mode":` + vJSON(vHexStr(a[1])) + `}}`
		}
		sc.send(at(0), `{"sub":{"id":"`+id+`","topic":"`+tn+`"`+set+`}}`)
	case "leave":
		unsub := ""
		if a[1] == "1" {
			unsub = `,"unsub":true`
		}
		sc.send(at(0), `{"leave":{"id":"`+id+`","topic":"`+tn+`"`+unsub+`}}`)
	case "pub":
		if i := sc.zombieOf(at(0)); i >= 0 {
			invalid = !sc.zpub(i, at(0), id, a[1], a[2])
		} else {
			sc.send(at(0), sc.pubJSON(id, a[1], a[2]))
		}
	case "getdata":
		opts := map[string]int{}
		if at(1) != 0 {
			opts["since"] = at(1)
		}
		if at(2) != 0 {
			opts["before"] = at(2)
		}
		if at(3) != 0 {
			opts["limit"] = at(3)
		}
		sc.send(at(0), `{"get":{"id":"`+id+`","topic":"`+tn+`","what":"data","data":`+vJSON(opts)+`}}`)
	case "getdesc":
		sc.send(at(0), `{"get":{"id":"`+id+`","topic":"`+tn+`","what":"desc"}}`)
	case "unload":
		if t := globals.hub.topicGet(tn); t != nil && len(t.sessions) == 0 {
			// what the kill timer does: handleTopicTimeout -> hub.unreg, handled at once
			globals.hub.unreg <- &topicUnreg{rcptTo: tn}
		}
	case "restart":
		sc.dropAll()
		for i := range sc.sess {
			sc.newSession(i)
		}
		memverif.ResetCallLog()
	case "timeout":
		// handleTopicTimeout: `hub.unreg <- &topicUnreg{rcptTo: t.name}`; the hub has not taken it yet
		if t := globals.hub.topicGet(tn); t != nil && len(t.sessions) == 0 {
			sc.pend++
		}
	case "hubunreg":
		if sc.pend > 0 {
			sc.pend--
			if t := globals.hub.topicGet(tn); t != nil {
				// the sessions of this instance will be told to detach when it exits; they get to it at `zexit`
				for s := range t.sessions {
					for _, b := range sc.bs {
						if b.vs.s == s {
							b.setHoldDetach(true)
						}
					}
				}
				sc.zombies = append(sc.zombies, t)
			}
			globals.hub.unreg <- &topicUnreg{rcptTo: tn}
		}
	case "zpub":
		i := at(0)
		var z *Topic
		if i < len(sc.zombies) {
			z = sc.zombies[i]
		}
		b := sc.bs[at(1)]
		if z == nil || b == nil || z == sc.mid {
			invalid = true
			break
		}
		if _, ok := z.sessions[b.vs.s]; !ok {
			invalid = true
			break
		}
		invalid = !sc.zpub(i, at(1), id, a[2], a[3])
	case "zexit":
		i := at(0)
		if i >= len(sc.zombies) {
			invalid = true
			break
		}
		z := sc.zombies[i]
		if z == sc.mid {
			invalid = true
			break
		}
		sc.zombies = append(sc.zombies[:i:i], sc.zombies[i+1:]...)
		for s := range z.sessions {
			for _, b := range sc.bs {
				if b.vs.s == s {
					b.setHoldDetach(false)
				}
			}
		}
	case "hubunregmid":
		// The hub handles a pending unregister request while the registered instance is inside
		// handlePubBroadcast: the instance's goroutine is held at the entry of the first adapter call
		// of store.Messages.Save (memverif call hook), i.e. after its isInactive check.
		t := globals.hub.topicGet(tn)
		b := sc.bs[at(0)]
		if sc.pend == 0 || t == nil || b == nil || sc.mid != nil {
			invalid = true
			break
		}
		if _, ok := t.sessions[b.vs.s]; !ok {
			invalid = true
			break
		}
		entered := make(chan struct{})
		release := make(chan struct{})
		var once sync.Once
		memverif.SetHook("TopicUpdateOnMessage", func() {
			first := false
			once.Do(func() { first = true })
			if first {
				close(entered)
				<-release
			}
		})
		sc.send(at(0), sc.pubJSON(id, a[1], a[2]))
		reached := false
		deadline := time.Now().Add(20 * time.Second)
		for !reached && time.Now().Before(deadline) {
			select {
			case <-entered:
				reached = true
			default:
				if q, _ := vQuiescent([]string{tn}); q {
					select {
					case <-entered:
						reached = true
					default:
						// handled without reaching Save (no W): the window does not exist
						deadline = time.Now()
					}
				} else {
					time.Sleep(20 * time.Microsecond)
				}
			}
		}
		if !reached {
			memverif.SetHook("TopicUpdateOnMessage", nil)
			invalid = true
			break
		}
		sc.mid, sc.release = t, release
		sc.pend--
		for s := range t.sessions {
			for _, b2 := range sc.bs {
				if b2.vs.s == s {
					b2.setHoldDetach(true)
				}
			}
		}
		sc.zombies = append(sc.zombies, t)
		globals.hub.unreg <- &topicUnreg{rcptTo: tn}
	case "zfinish":
		i := at(0)
		if i >= len(sc.zombies) || sc.zombies[i] != sc.mid || sc.mid == nil {
			invalid = true
			break
		}
		z := sc.zombies[i]
		sc.zombies = append(sc.zombies[:i:i], sc.zombies[i+1:]...)
		// the real goroutine of the instance goes on: Save, acknowledgement, broadcast, then its exit message
		sc.releaseMid()
		vWaitQuiet([]string{tn})
		for s := range z.sessions {
			for _, b2 := range sc.bs {
				if b2.vs.s == s {
					b2.setHoldDetach(false)
				}
			}
		}
	case "burst":
		if a[0] != "-" {
			for _, h := range strings.Split(a[0], ",") {
				hi, _ := strconv.Atoi(h)
				if b := sc.bs[hi]; b != nil {
					b.setHoldSend(true)
				}
			}
		}
		j := 0
		for k := 1; k+2 < len(a); k += 3 {
			j++
			si, _ := strconv.Atoi(a[k])
			if i := sc.zombieOf(si); i >= 0 {
				sc.zpub(i, si, id+"x"+strconv.Itoa(j), a[k+1], a[k+2])
			} else {
				sc.send(si, sc.pubJSON(id+"x"+strconv.Itoa(j), a[k+1], a[k+2]))
			}
		}
		// the whole burst is handled while the held write loops stand still
		if hang := sc.quiet(); hang != "" {
			fmt.Fprintln(sc.out, hang)
		}
		for _, b := range sc.bs {
			b.mu.Lock()
			hs := b.holdSend
			b.mu.Unlock()
			if hs {
				b.setHoldSend(false)
			}
		}
	}
	hang := sc.quiet()
	if invalid {
		fmt.Fprintln(sc.out, "invalid")
	}
	sc.emit()
	fmt.Fprintf(sc.out, "issued %s\n", strings.Join(sc.spy.take(), " "))
	calls := memverif.CallLog()
	if hang != "" {
		fmt.Fprintln(sc.out, hang)
	}
	fmt.Fprintf(sc.out, "calls %d\n", len(calls))
	fmt.Fprintf(sc.out, "calllog %s\n", strings.Join(calls, " "))
	memverif.ClearFault()
	if globals.hub.topicGet(sc.topic) == nil {
		fmt.Fprintln(sc.out, "loaded 0")
	} else {
		fmt.Fprintln(sc.out, "loaded 1")
	}
	sc.emitStore()
	sc.emitCache()
	for i, z := range sc.zombies {
		var ss []int
		for s := range z.sessions {
			for si, b := range sc.bs {
				if b.vs.s == s {
					ss = append(ss, si)
				}
			}
		}
		sort.Ints(ss)
		var st []string
		for _, x := range ss {
			st = append(st, strconv.Itoa(x))
		}
		d, busy := "0", "0"
		if z.isDeleted() {
			d = "1"
		}
		if z == sc.mid {
			busy = "1"
		}
		fmt.Fprintf(sc.out, "zombie %d lastid=%d deleted=%s busy=%s sess=%s\n", i, z.lastID, d, busy, strings.Join(st, ","))
	}
}

func TestVerifC01b(t *testing.T) {
	vInitServer(t)
	fin, err := os.Open(os.Getenv("VERIF_IN"))
	if err != nil {
		t.Fatal(err)
	}
	defer fin.Close()
	fout, err := os.Create(os.Getenv("VERIF_OUT"))
	if err != nil {
		t.Fatal(err)
	}
	defer fout.Close()
	out := bufio.NewWriterSize(fout, 1<<20)
	defer out.Flush()
	spy := &c01bSpy{MessagesPersistenceInterface: store.Messages}
	store.Messages = spy
	defer func() { store.Messages = spy.MessagesPersistenceInterface }()
	in := bufio.NewScanner(fin)
	in.Buffer(make([]byte, 1<<20), 1<<26)
	var sc *c01bScn
	scnCount := 0
	for in.Scan() {
		w := strings.Fields(in.Text())
		if len(w) == 0 {
			continue
		}
		switch w[0] {
		case "scn":
			scnCount++
			kv := vKV(w[2:])
			sc = &c01bScn{vScn: &vScn{id: w[1], uids: map[int]types.Uid{}, uidIdx: map[types.Uid]int{}, sess: map[int]*vSess{},
				sessUser: map[int]int{}, out: out}, bs: map[int]*c01bSess{}, spy: spy}
			sc.topic = "grpVerifB" + strconv.Itoa(scnCount) + "x" + strconv.FormatInt(time.Now().UnixNano()%1000000, 36)
			spy.mu.Lock()
			spy.topic, spy.log = sc.topic, nil
			spy.mu.Unlock()
			sc.pending(kv)
			fmt.Fprintf(out, "scn %s\n", w[1])
		case "user":
			kv := vKV(w[2:])
			i, _ := strconv.Atoi(w[1])
			acc, _ := strconv.Atoi(kv["acc"])
			u := &types.User{}
			u.Access.Auth = types.AccessMode(acc)
			u.Access.Anon = types.ModeNone
			if _, err := store.Users.Create(u, nil); err != nil {
				t.Fatal("user create: ", err)
			}
			sc.uids[i] = u.Uid()
			sc.uidIdx[u.Uid()] = i
			sc.maybeCreateTopic(t, i)
		case "subrow":
			kv := vKV(w[2:])
			i, _ := strconv.Atoi(w[1])
			want, _ := strconv.Atoi(kv["want"])
			given, _ := strconv.Atoi(kv["given"])
			if err := store.Subs.Create(&types.Subscription{User: sc.uids[i].String(), Topic: sc.topic,
				ModeWant: types.AccessMode(want), ModeGiven: types.AccessMode(given)}); err != nil {
				t.Fatal("sub create: ", err)
			}
		case "sess":
			si, _ := strconv.Atoi(w[1])
			ui, _ := strconv.Atoi(w[2])
			sc.sessUser[si] = ui
			sc.newSession(si)
		case "op":
			sc.bop(w[1:])
			out.Flush()
		case "end":
			memverif.ClearFault()
			sc.dropAll()
			fmt.Fprintln(out, "end")
			out.Flush()
		}
	}
}
