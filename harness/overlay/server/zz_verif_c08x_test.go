//go:build verif

// C08, part d.  Two drivers that reuse the scenario machinery of other parts:
//   TestVerifC08xKinds  p2p / me / fnd / sys topics: the C07 kinds driver (c07Scn of zz_verif_c07_test.go:
//                       real hub, topics, sessions, store mappers above memverif) plus {get desc} / {get sub}
//                       requests whose {meta} answers are printed, for the reload / offline differential of C08;
//   TestVerifC08xChan   channel-enabled group topics in the description part (see below).
package main

import (
	"bufio"
	"fmt"
	"os"
	"sort"
	"strconv"
	"strings"
	"testing"

	"github.com/tinode/chat/server/auth"
	"github.com/tinode/chat/server/db/memverif"
	"github.com/tinode/chat/server/store"
	"github.com/tinode/chat/server/store/types"
)

// getdesc / getsub <ref>: a query through Session.dispatchRaw; ctrl and meta frames of every session are printed
func c08xKindsQuery(sc *c07Scn, w []string) {
	sc.opi++
	fmt.Fprintf(sc.out, "op %d\n", sc.opi)
	si, _ := strconv.Atoi(w[0])
	what := "desc"
	if w[1] == "getsub" {
		what = "sub"
	}
	if vs := sc.sess[si]; vs != nil {
		vs.s.dispatchRaw([]byte(`{"get":{"id":"` + strconv.Itoa(sc.opi) + `","topic":"` + sc.ref(sc.sessUser[si], w[2]) + `","what":"` + what + `"}}`))
	}
	hang := sc.quiet()
	idxs := make([]int, 0, len(sc.sess))
	for i := range sc.sess {
		idxs = append(idxs, i)
	}
	sort.Ints(idxs)
	for _, i := range idxs {
		for _, m := range sc.sess[i].take() {
			if m.Ctrl != nil || m.Meta != nil {
				fmt.Fprintf(sc.out, "S%d %s\n", i, sc.rend.frame(m))
			}
		}
	}
	if hang != "" {
		fmt.Fprintln(sc.out, hang)
	}
	sc.dump()
}

func TestVerifC08xKinds(t *testing.T) {
	vInitServer(t)
	if st, _ := store.Topics.Get("sys"); st == nil {
		now := types.TimeNow()
		if err := store.Topics.Create(&types.Topic{ObjHeader: types.ObjHeader{Id: "sys", CreatedAt: now},
			Access: types.DefaultAccess{Auth: types.ModeNone, Anon: types.ModeNone}}, types.ZeroUid, nil); err != nil {
			t.Fatal("sys create: ", err)
		}
	}
	fin, err := os.Open(os.Getenv("VERIF_IN"))
	if err != nil {
		t.Fatal(err)
	}
	defer fin.Close()
	fout, err := os.Create(os.Getenv("VERIF_OUT"))
	if err != nil {
		t.Fatal(err)
	}
	defer fout.Close()
	out := bufio.NewWriterSize(fout, 1<<20)
	defer out.Flush()
	in := bufio.NewScanner(fin)
	in.Buffer(make([]byte, 1<<20), 1<<26)
	var sc *c07Scn
	for in.Scan() {
		w := strings.Fields(in.Text())
		if len(w) == 0 {
			continue
		}
		switch w[0] {
		case "kscn":
			sc = &c07Scn{id: w[1], out: out, uids: map[int]types.Uid{}, uidIdx: map[types.Uid]int{}, root: map[int]bool{},
				sess: map[int]*vSess{}, sessUser: map[int]int{}}
			sc.rend = &vScn{uids: sc.uids, uidIdx: sc.uidIdx}
			if tp := globals.hub.topicGet("sys"); tp != nil && len(tp.sessions) == 0 {
				globals.hub.unreg <- &topicUnreg{rcptTo: "sys"}
				vWaitQuiet([]string{"sys"})
			}
			fmt.Fprintf(out, "kscn %s\n", w[1])
		case "user":
			kv := vKV(w[2:])
			i, _ := strconv.Atoi(w[1])
			acc, _ := strconv.Atoi(kv["acc"])
			u := &types.User{}
			u.Access.Auth = types.AccessMode(acc)
			u.Access.Anon = types.ModeNone
			if _, err := store.Users.Create(u, nil); err != nil {
				t.Fatal("user create: ", err)
			}
			sc.uids[i] = u.Uid()
			sc.uidIdx[u.Uid()] = i
			sc.root[i] = kv["root"] == "1"
		case "sess":
			si, _ := strconv.Atoi(w[1])
			ui, _ := strconv.Atoi(w[2])
			lvl := auth.LevelAuth
			if sc.root[ui] {
				lvl = auth.LevelRoot
			}
			sc.sessUser[si] = ui
			sc.sess[si] = vNewSession(si, sc.uids[ui], lvl)
		case "op":
			if len(w) > 2 && (w[2] == "getdesc" || w[2] == "getsub") {
				c08xKindsQuery(sc, w[1:])
			} else {
				sc.op(w[1:])
			}
		case "end":
			sc.finish()
			fmt.Fprintln(out, "end")
			out.Flush()
		}
	}
}

// ---------------------------------------------------------------------------------------------------------------
// TestVerifC08xChan: private / public data of a CHANNEL-ENABLED group topic (topics.usebt = true).  Full subscribers
// have rows under grpXXX, channel readers under chnXXX; either kind of user may name the topic grpXXX or chnXXX in
// {sub} / {set desc} / {get desc} / {leave}.  Scenario lines: cscn / user / member / reader / sess / op / end.
// After every request: frames (rendering of the description driver c08dScn), loaded flag, the topic's public, the
// rows under BOTH names with their private column, the cached perUser records (isChan, private) and sessions.
type c08xChan struct {
	*c08dScn
	chn string
}

func (sc *c08xChan) name(form string) string {
	if form == "chn" {
		return sc.chn
	}
	return sc.topic
}

func (sc *c08xChan) dump() {
	if globals.hub.topicGet(sc.topic) == nil {
		fmt.Fprintln(sc.out, "loaded 0")
	} else {
		fmt.Fprintln(sc.out, "loaded 1")
	}
	d := memverif.DumpTopicDesc(sc.topic)
	fmt.Fprintf(sc.out, "store topic pub=%s\n", c08dTokOf(d.Public))
	for _, nm := range []string{"grp", "chn"} {
		for _, s := range memverif.DumpSubsPrivC08x(sc.name(nm)) {
			fmt.Fprintf(sc.out, "store row %s user=%d %s/%s priv=%s deleted=%s\n", nm, sc.uidIdx[s.User], vModeStr(s.Want), vModeStr(s.Given),
				c08dTokOf(s.Private), vB2s(s.Deleted))
		}
	}
	if t := globals.hub.topicGet(sc.topic); t != nil {
		fmt.Fprintf(sc.out, "cache topic pub=%s ischan=%s\n", c08dTokOf(t.public), vB2s(t.isChan))
		var lines []string
		for uid, p := range t.perUser {
			lines = append(lines, fmt.Sprintf("cache user %d chan=%s %s/%s priv=%s", sc.uidIdx[uid], vB2s(p.isChan), vModeStr(p.modeWant), vModeStr(p.modeGiven), c08dTokOf(p.private)))
		}
		sort.Strings(lines)
		var sl []string
		for s, pssd := range t.sessions {
			for i, vs := range sc.sess {
				if vs.s == s {
					sl = append(sl, fmt.Sprintf("cache sess %d user=%d chan=%s", i, sc.uidIdx[pssd.uid], vB2s(pssd.isChanSub)))
				}
			}
		}
		sort.Strings(sl)
		for _, l := range append(lines, sl...) {
			fmt.Fprintln(sc.out, l)
		}
	}
}

func (sc *c08xChan) op(w []string) {
	sc.opi++
	fmt.Fprintf(sc.out, "op %d\n", sc.opi)
	kind, a := w[0], w[1:]
	id := strconv.Itoa(sc.opi)
	at := func(i int) int { v, _ := strconv.Atoi(a[i]); return v }
	switch kind {
	case "sub": // sub <sess> <grp|chn> <priv tok|0>
		set := ""
		if a[2] != "0" {
			set = `,"set":{"desc":{"private":` + c08dTokJSON(a[2]) + `}}`
		}
		sc.send(at(0), `{"sub":{"id":"`+id+`","topic":"`+sc.name(a[1])+`"`+set+`}}`)
	case "leave": // leave <sess> <grp|chn> <unsub>
		unsub := ""
		if a[2] == "1" {
			unsub = `,"unsub":true`
		}
		sc.send(at(0), `{"leave":{"id":"`+id+`","topic":"`+sc.name(a[1])+`"`+unsub+`}}`)
	case "setpriv": // setpriv <sess> <grp|chn> <tok>
		sc.send(at(0), `{"set":{"id":"`+id+`","topic":"`+sc.name(a[1])+`","desc":{"private":`+c08dTokJSON(a[2])+`}}}`)
	case "setpub": // setpub <sess> <grp|chn> <tok>
		sc.send(at(0), `{"set":{"id":"`+id+`","topic":"`+sc.name(a[1])+`","desc":{"public":`+c08dTokJSON(a[2])+`}}}`)
	case "getdesc": // getdesc <sess> <grp|chn>
		sc.send(at(0), `{"get":{"id":"`+id+`","topic":"`+sc.name(a[1])+`","what":"desc"}}`)
	case "unload":
		if t := globals.hub.topicGet(sc.topic); t != nil && len(t.sessions) == 0 {
			globals.hub.unreg <- &topicUnreg{rcptTo: sc.topic}
		}
	case "restart":
		sc.restart()
	}
	hang := vWaitQuiet([]string{sc.topic})
	sc.emitFrames()
	if hang != "" {
		fmt.Fprintln(sc.out, hang)
	}
	sc.dump()
}

func TestVerifC08xChan(t *testing.T) {
	vInitServer(t)
	fin, err := os.Open(os.Getenv("VERIF_IN"))
	if err != nil {
		t.Fatal(err)
	}
	defer fin.Close()
	fout, err := os.Create(os.Getenv("VERIF_OUT"))
	if err != nil {
		t.Fatal(err)
	}
	defer fout.Close()
	out := bufio.NewWriterSize(fout, 1<<20)
	defer out.Flush()
	in := bufio.NewScanner(fin)
	in.Buffer(make([]byte, 1<<20), 1<<26)
	var sc *c08xChan
	scnCount := 0
	for in.Scan() {
		w := strings.Fields(in.Text())
		if len(w) == 0 {
			continue
		}
		switch w[0] {
		case "cscn":
			scnCount++
			kv := vKV(w[2:])
			d := &c08dScn{vScn: &vScn{id: w[1], uids: map[int]types.Uid{}, uidIdx: map[types.Uid]int{}, sess: map[int]*vSess{},
				sessUser: map[int]int{}, out: out}, root: map[int]bool{}}
			suffix := "VerifX" + strconv.Itoa(scnCount) + "x" + strconv.FormatInt(types.TimeNow().UnixNano()%1000000, 36)
			d.topic = "grp" + suffix
			d.gen = scnCount
			sc = &c08xChan{c08dScn: d, chn: "chn" + suffix}
			stopic := &types.Topic{
				ObjHeader: types.ObjHeader{Id: d.topic, CreatedAt: types.TimeNow()},
				Access:    types.DefaultAccess{Auth: types.ModeCPublic, Anon: types.ModeNone},
				Public:    c08dTokVal(kv["pub"]),
				UseBt:     true,
			}
			if err := store.Topics.Create(stopic, types.ZeroUid, nil); err != nil {
				t.Fatal("topic create: ", err)
			}
			fmt.Fprintf(out, "scn %s\n", w[1])
		case "user":
			i, _ := strconv.Atoi(w[1])
			u := &types.User{}
			u.Access.Auth = types.ModeCAuth
			u.Access.Anon = types.ModeNone
			if _, err := store.Users.Create(u, nil); err != nil {
				t.Fatal("user create: ", err)
			}
			sc.uids[i] = u.Uid()
			sc.uidIdx[u.Uid()] = i
		case "member", "reader":
			kv := vKV(w[2:])
			i, _ := strconv.Atoi(w[1])
			want, given, tn := types.ModeCChnReader, types.ModeCChnReader, sc.chn
			if w[0] == "member" {
				wv, _ := strconv.Atoi(kv["want"])
				gv, _ := strconv.Atoi(kv["given"])
				want, given, tn = types.AccessMode(wv), types.AccessMode(gv), sc.topic
			}
			if err := store.Subs.Create(&types.Subscription{User: sc.uids[i].String(), Topic: tn,
				ModeWant: want, ModeGiven: given, Private: c08dTokVal(kv["priv"])}); err != nil {
				t.Fatal("sub create: ", err)
			}
		case "sess":
			si, _ := strconv.Atoi(w[1])
			ui, _ := strconv.Atoi(w[2])
			sc.sessUser[si] = ui
			sc.sess[si] = vNewSession(si, sc.uids[ui], auth.LevelAuth)
		case "op":
			sc.op(w[1:])
		case "end":
			sc.finish()
			fmt.Fprintln(out, "end")
			out.Flush()
		}
	}
}
