//go:build verif

// C08, part d.  Two drivers that reuse the scenario machinery of other parts:
//   TestVerifC08xKinds  p2p / me / fnd / sys topics: the C07 kinds driver (c07Scn of zz_verif_c07_test.go:
//                       real hub, topics, sessions, store mappers above memverif) plus {get desc} / {get sub}
//                       requests whose {meta} answers are printed, for the reload / offline differential of C08;
//   TestVerifC08xChan   channel-enabled group topics in the description part (see below).
package main

import (
	"bufio"
	"fmt"
	"os"
	"sort"
	"strconv"
	"strings"
	"testing"

	"github.com/tinode/chat/server/auth"
	"github.com/tinode/chat/server/store"
	"github.com/tinode/chat/server/store/types"
)

// getdesc / getsub <ref>: a query through Session.dispatchRaw; ctrl and meta frames of every session are printed
func c08xKindsQuery(sc *c07Scn, w []string) {
	sc.opi++
	fmt.Fprintf(sc.out, "op %d\n", sc.opi)
	si, _ := strconv.Atoi(w[0])
	what := "desc"
	if w[1] == "getsub" {
		what = "sub"
	}
	if vs := sc.sess[si]; vs != nil {
		vs.s.dispatchRaw([]byte(`{"get":{"id":"` + strconv.Itoa(sc.opi) + `","topic":"` + sc.ref(sc.sessUser[si], w[2]) + `","what":"` + what + `"}}`))
	}
	hang := sc.quiet()
	idxs := make([]int, 0, len(sc.sess))
	for i := range sc.sess {
		idxs = append(idxs, i)
	}
	sort.Ints(idxs)
	for _, i := range idxs {
		for _, m := range sc.sess[i].take() {
			if m.Ctrl != nil || m.Meta != nil {
				fmt.Fprintf(sc.out, "S%d %s\n", i, sc.rend.frame(m))
			}
		}
	}
	if hang != "" {
		fmt.Fprintln(sc.out, hang)
	}
	sc.dump()
}

func TestVerifC08xKinds(t *testing.T) {
	vInitServer(t)
	if st, _ := store.Topics.Get("sys"); st == nil {
		now := types.TimeNow()
		if err := store.Topics.Create(&types.Topic{ObjHeader: types.ObjHeader{Id: "sys", CreatedAt: now},
			Access: types.DefaultAccess{Auth: types.ModeNone, Anon: types.ModeNone}}, types.ZeroUid, nil); err != nil {
			t.Fatal("sys create: ", err)
		}
	}
	fin, err := os.Open(os.Getenv("VERIF_IN"))
	if err != nil {
		t.Fatal(err)
	}
	defer fin.Close()
	fout, err := os.Create(os.Getenv("VERIF_OUT"))
	if err != nil {
		t.Fatal(err)
	}
	defer fout.Close()
	out := bufio.NewWriterSize(fout, 1<<20)
	defer out.Flush()
	in := bufio.NewScanner(fin)
	in.Buffer(make([]byte, 1<<20), 1<<26)
	var sc *c07Scn
	for in.Scan() {
		w := strings.Fields(in.Text())
		if len(w) == 0 {
			continue
		}
		switch w[0] {
		case "kscn":
			sc = &c07Scn{id: w[1], out: out, uids: map[int]types.Uid{}, uidIdx: map[types.Uid]int{}, root: map[int]bool{},
				sess: map[int]*vSess{}, sessUser: map[int]int{}}
			sc.rend = &vScn{uids: sc.uids, uidIdx: sc.uidIdx}
			if tp := globals.hub.topicGet("sys"); tp != nil && len(tp.sessions) == 0 {
				globals.hub.unreg <- &topicUnreg{rcptTo: "sys"}
				vWaitQuiet([]string{"sys"})
			}
			fmt.Fprintf(out, "kscn %s\n", w[1])
		case "user":
			kv := vKV(w[2:])
			i, _ := strconv.Atoi(w[1])
			acc, _ := strconv.Atoi(kv["acc"])
			u := &types.User{}
			u.Access.Auth = types.AccessMode(acc)
			u.Access.Anon = types.ModeNone
			if _, err := store.Users.Create(u, nil); err != nil {
				t.Fatal("user create: ", err)
			}
			sc.uids[i] = u.Uid()
			sc.uidIdx[u.Uid()] = i
			sc.root[i] = kv["root"] == "1"
		case "sess":
			si, _ := strconv.Atoi(w[1])
			ui, _ := strconv.Atoi(w[2])
			lvl := auth.LevelAuth
			if sc.root[ui] {
				lvl = auth.LevelRoot
			}
			sc.sessUser[si] = ui
			sc.sess[si] = vNewSession(si, sc.uids[ui], lvl)
		case "op":
			if len(w) > 2 && (w[2] == "getdesc" || w[2] == "getsub") {
				c08xKindsQuery(sc, w[1:])
			} else {
				sc.op(w[1:])
			}
		case "end":
			sc.finish()
			fmt.Fprintln(out, "end")
			out.Flush()
		}
	}
}
