// Translator for property C11: reads server/session.go of the tinode/chat tree given as
// the first argument and writes the guard structure of Session.dispatch as a Coq value
// (second argument: output file, coq/Gen/GenDispatch.v).
//
// It recognises exactly the shapes listed below and FAILS CLOSED on anything else: an
// unknown case / handler expression becomes an `Unrecognised "<source text>"` entry and an
// unknown closure / block shape becomes a `false` flag, both of which the obligation
// gen_ok (coq/Sys/SessionGen.v) rejects.
//
// Only the standard library is used (go/parser, go/ast, go/printer, go/token).
package main

import (
	"bytes"
	"fmt"
	"go/ast"
	"go/parser"
	"go/printer"
	"go/token"
	"os"
	"path/filepath"
	"strings"
)

var fset = token.NewFileSet()

func src(n ast.Node) string {
	var b bytes.Buffer
	printer.Fprint(&b, fset, n)
	s := strings.Join(strings.Fields(b.String()), " ")
	return s
}

func coqStr(s string) string {
	s = strings.ReplaceAll(s, "\"", "'")
	if len(s) > 300 {
		s = s[:300] + "..."
	}
	// keep the Coq string ASCII
	var b strings.Builder
	for _, r := range s {
		if r < 32 || r > 126 {
			b.WriteByte('?')
		} else {
			b.WriteRune(r)
		}
	}
	return "\"" + b.String() + "\""
}

func coqBool(b bool) string {
	if b {
		return "true"
	}
	return "false"
}

func findMethod(f *ast.File, name string) *ast.FuncDecl {
	for _, d := range f.Decls {
		fd, ok := d.(*ast.FuncDecl)
		if !ok || fd.Name.Name != name || fd.Recv == nil || len(fd.Recv.List) != 1 {
			continue
		}
		if src(fd.Recv.List[0].Type) == "*Session" {
			return fd
		}
	}
	return nil
}

// endsWithBareReturn: the last statement of the block is `return` without results.
func endsWithBareReturn(b *ast.BlockStmt) bool {
	if b == nil || len(b.List) == 0 {
		return false
	}
	r, ok := b.List[len(b.List)-1].(*ast.ReturnStmt)
	return ok && len(r.Results) == 0
}

// queuesReply: the block contains, at its top level, `s.queueOut(<ctor>(...))`.
func queuesReply(b *ast.BlockStmt, ctor string) bool {
	for _, st := range b.List {
		es, ok := st.(*ast.ExprStmt)
		if !ok {
			continue
		}
		c, ok := es.X.(*ast.CallExpr)
		if !ok || src(c.Fun) != "s.queueOut" || len(c.Args) != 1 {
			continue
		}
		in, ok := c.Args[0].(*ast.CallExpr)
		if ok && src(in.Fun) == ctor {
			return true
		}
	}
	return false
}

// wrapperOK: name := func(handler ...) ... { return func(m ...) { if <cond> { ...queueOut(<ctor>(..)); return }; handler(m) } }
func wrapperOK(body *ast.BlockStmt, name, cond, ctor string) bool {
	for _, st := range body.List {
		as, ok := st.(*ast.AssignStmt)
		if !ok || len(as.Lhs) != 1 || len(as.Rhs) != 1 || src(as.Lhs[0]) != name {
			continue
		}
		outer, ok := as.Rhs[0].(*ast.FuncLit)
		if !ok || len(outer.Body.List) != 1 {
			return false
		}
		ret, ok := outer.Body.List[0].(*ast.ReturnStmt)
		if !ok || len(ret.Results) != 1 {
			return false
		}
		inner, ok := ret.Results[0].(*ast.FuncLit)
		if !ok || len(inner.Body.List) != 2 {
			return false
		}
		ifs, ok := inner.Body.List[0].(*ast.IfStmt)
		if !ok || ifs.Init != nil || ifs.Else != nil || src(ifs.Cond) != cond {
			return false
		}
		if !queuesReply(ifs.Body, ctor) || !endsWithBareReturn(ifs.Body) {
			return false
		}
		call, ok := inner.Body.List[1].(*ast.ExprStmt)
		if !ok || src(call.X) != "handler(m)" {
			return false
		}
		return true
	}
	return false
}

var kindOfField = map[string]string{"Hi": "KHi", "Acc": "KAcc", "Login": "KLogin", "Sub": "KSub", "Leave": "KLeave",
	"Pub": "KPub", "Get": "KGet", "Set": "KSet", "Del": "KDel", "Note": "KNote"}
var methodOfField = map[string]string{"Hi": "hello", "Acc": "acc", "Login": "login", "Sub": "subscribe", "Leave": "leave",
	"Pub": "publish", "Get": "get", "Set": "set", "Del": "del", "Note": "note"}

// handlerGuards: `checkVers(checkUser(s.m))` -> (true,true); `checkVers(s.m)` -> (true,false);
// `checkUser(s.m)` -> (false,true); `s.m` -> (false,false); anything else is not recognised
// (in particular checkUser(checkVers(..)): the order of the refusals would differ).
func handlerGuards(e ast.Expr, method string) (ver, user, ok bool) {
	want := "s." + method
	switch src(e) {
	case "checkVers(checkUser(" + want + "))":
		return true, true, true
	case "checkVers(" + want + ")":
		return true, false, true
	case "checkUser(" + want + ")":
		return false, true, true
	case want:
		return false, false, true
	}
	return false, false, false
}

// silentGuards reads the first statement of a handler: `if <cond> { return }` where cond is a
// disjunction of `s.ver == 0` and `msg.AsUser == ""`.  A first statement that tests these fields in
// any other way is not recognised.
func silentGuards(fd *ast.FuncDecl) (sver, suser, ok bool) {
	if fd == nil || fd.Body == nil || len(fd.Body.List) == 0 {
		return false, false, false
	}
	ifs, isIf := fd.Body.List[0].(*ast.IfStmt)
	if !isIf {
		return false, false, true
	}
	c := src(ifs.Cond)
	mentions := strings.Contains(c, "s.ver") || strings.Contains(c, "AsUser") || strings.Contains(c, "s.uid")
	if !mentions {
		return false, false, true
	}
	if ifs.Init != nil || ifs.Else != nil || len(ifs.Body.List) != 1 || !endsWithBareReturn(ifs.Body) {
		return false, false, false
	}
	switch c {
	case `s.ver == 0 || msg.AsUser == ""`, `msg.AsUser == "" || s.ver == 0`:
		return true, true, true
	case `s.ver == 0`:
		return true, false, true
	case `msg.AsUser == ""`:
		return false, true, true
	}
	return false, false, false
}

func main() {
	if len(os.Args) < 3 {
		fmt.Fprintln(os.Stderr, "usage: dispatch <repo> <out.v>")
		os.Exit(2)
	}
	repo, out := os.Args[1], os.Args[2]
	path := filepath.Join(repo, "server", "session.go")
	file, err := parser.ParseFile(fset, path, nil, 0)
	if err != nil {
		fmt.Fprintln(os.Stderr, "parse:", err)
		os.Exit(1)
	}
	var entries []string
	checkVers, checkUser, asUser, dflt, called := false, false, false, false, false
	disp := findMethod(file, "dispatch")
	if disp == nil || disp.Body == nil {
		entries = append(entries, "Unrecognised "+coqStr("func (s *Session) dispatch not found in "+path))
	} else {
		body := disp.Body
		checkVers = wrapperOK(body, "checkVers", "s.ver == 0", "ErrCommandOutOfSequence")
		checkUser = wrapperOK(body, "checkUser", `msg.AsUser == ""`, "ErrAuthRequiredReply")
		swIdx, asIdx := -1, -1
		var sw *ast.SwitchStmt
		for i, st := range body.List {
			if s, ok := st.(*ast.SwitchStmt); ok && s.Tag == nil && s.Init == nil && sw == nil {
				sw, swIdx = s, i
			}
			if ifs, ok := st.(*ast.IfStmt); ok && asIdx < 0 && src(ifs.Cond) == `msg.Extra == nil || msg.Extra.AsUser == ""` {
				asIdx = i
				// branch 1: own uid and level
				b1 := src(ifs.Body)
				ok1 := strings.Contains(b1, "msg.AsUser = s.uid.UserId()") && strings.Contains(b1, "msg.AuthLvl = int(s.authLvl)") && len(ifs.Body.List) == 2
				// branch 2: non-root refused
				e2, isIf2 := ifs.Else.(*ast.IfStmt)
				ok2 := isIf2 && e2.Init == nil && src(e2.Cond) == "s.authLvl != auth.LevelRoot" &&
					queuesReply(e2.Body, "ErrPermissionDenied") && endsWithBareReturn(e2.Body)
				ok3, ok4 := false, false
				if ok2 {
					// branch 3: unparsable user id refused
					e3, isIf3 := e2.Else.(*ast.IfStmt)
					ok3 = isIf3 && e3.Init != nil && src(e3.Init) == "fromUid := types.ParseUserId(msg.Extra.AsUser)" &&
						src(e3.Cond) == "fromUid.IsZero()" && queuesReply(e3.Body, "ErrMalformed") && endsWithBareReturn(e3.Body)
					if ok3 {
						// branch 4: honour the value
						if e4, isBlk := e3.Else.(*ast.BlockStmt); isBlk && len(e4.List) >= 1 {
							ok4 = src(e4.List[0]) == "msg.AsUser = msg.Extra.AsUser"
						}
					}
				}
				asUser = ok1 && ok2 && ok3 && ok4
			}
			if es, ok := st.(*ast.ExprStmt); ok && sw != nil && i > swIdx && src(es.X) == "handler(msg)" {
				if called {
					called = false // more than one call: not the known shape
					break
				}
				called = true
			}
		}
		if asIdx < 0 || swIdx < 0 || asIdx > swIdx {
			asUser = false
		}
		// no statement between the as-user block and the switch may touch msg.AsUser / msg.AuthLvl again
		if asUser {
			for _, st := range body.List[asIdx+1 : swIdx] {
				if as, ok := st.(*ast.AssignStmt); ok {
					for _, l := range as.Lhs {
						if t := src(l); t == "msg.AsUser" || t == "msg.AuthLvl" {
							asUser = false
						}
					}
				}
			}
		}
		if sw == nil {
			entries = append(entries, "Unrecognised "+coqStr("no tagless switch in Session.dispatch"))
		} else {
			for _, cst := range sw.Body.List {
				cc := cst.(*ast.CaseClause)
				if cc.List == nil {
					blk := &ast.BlockStmt{List: cc.Body}
					dflt = queuesReply(blk, "ErrMalformed") && endsWithBareReturn(blk)
					continue
				}
				text := "case " + src(cc.List[0])
				if len(cc.List) != 1 {
					entries = append(entries, "Unrecognised "+coqStr(text+": several conditions"))
					continue
				}
				be, ok := cc.List[0].(*ast.BinaryExpr)
				var field string
				if ok && be.Op == token.NEQ && src(be.Y) == "nil" {
					if sel, ok := be.X.(*ast.SelectorExpr); ok && src(sel.X) == "msg" {
						field = sel.Sel.Name
					}
				}
				kind, known := kindOfField[field]
				if !known {
					entries = append(entries, "Unrecognised "+coqStr(text))
					continue
				}
				var handlerExpr ast.Expr
				bad := ""
				for _, st := range cc.Body {
					as, ok := st.(*ast.AssignStmt)
					if !ok || len(as.Lhs) != 1 || len(as.Rhs) != 1 || as.Tok != token.ASSIGN {
						bad = src(st)
						break
					}
					switch src(as.Lhs[0]) {
					case "handler":
						if handlerExpr != nil {
							bad = "handler assigned twice"
						}
						handlerExpr = as.Rhs[0]
					case "msg.Id", "msg.Original", "uaRefresh":
					default:
						bad = src(st)
					}
					if bad != "" {
						break
					}
				}
				if bad != "" || handlerExpr == nil {
					entries = append(entries, "Unrecognised "+coqStr(text+": "+bad))
					continue
				}
				ver, user, ok := handlerGuards(handlerExpr, methodOfField[field])
				if !ok {
					entries = append(entries, "Unrecognised "+coqStr(text+": handler = "+src(handlerExpr)))
					continue
				}
				sver, suser := false, false
				if field == "Note" {
					var sok bool
					sver, suser, sok = silentGuards(findMethod(file, "note"))
					if !sok {
						entries = append(entries, "Unrecognised "+coqStr("first statement of func (s *Session) note"))
						continue
					}
				}
				entries = append(entries, fmt.Sprintf("Entry %s (mkg %s %s %s %s) %s", kind, coqBool(ver), coqBool(user),
					coqBool(sver), coqBool(suser), coqStr(text+": handler = "+src(handlerExpr))))
			}
		}
	}
	// writers of the session state in session.go: s.ver only in hello, s.uid / s.authLvl only in onLogin
	writers := true
	var writerList []string
	for _, d := range file.Decls {
		fd, ok := d.(*ast.FuncDecl)
		if !ok || fd.Body == nil {
			continue
		}
		ast.Inspect(fd.Body, func(n ast.Node) bool {
			var lhs []ast.Expr
			switch st := n.(type) {
			case *ast.AssignStmt:
				lhs = st.Lhs
			case *ast.IncDecStmt:
				lhs = []ast.Expr{st.X}
			}
			for _, l := range lhs {
				sel, ok := l.(*ast.SelectorExpr)
				if !ok {
					continue
				}
				f := sel.Sel.Name
				if f != "ver" && f != "uid" && f != "authLvl" {
					continue
				}
				writerList = append(writerList, fd.Name.Name+":"+src(l))
				allowed := (f == "ver" && fd.Name.Name == "hello") || ((f == "uid" || f == "authLvl") && fd.Name.Name == "onLogin")
				if !allowed || src(sel.X) != "s" {
					writers = false
				}
			}
			return true
		})
	}
	// assignments to the same fields of a session object in the other files of package main
	// (syntactic: the assigned expression is <x>.uid / .authLvl / .ver where <x> names a session:
	// s, sess, *.sess, *Sess).  They are listed for the obligation, which knows the ones the model accounts for.
	var foreign []string
	matches, _ := filepath.Glob(filepath.Join(repo, "server", "*.go"))
	for _, fn := range matches {
		if strings.HasSuffix(fn, "_test.go") || filepath.Base(fn) == "session.go" {
			continue
		}
		of, err := parser.ParseFile(fset, fn, nil, 0)
		if err != nil {
			foreign = append(foreign, "parse error in "+filepath.Base(fn))
			continue
		}
		for _, d := range of.Decls {
			fd, ok := d.(*ast.FuncDecl)
			if !ok || fd.Body == nil {
				continue
			}
			ast.Inspect(fd.Body, func(n ast.Node) bool {
				as, ok := n.(*ast.AssignStmt)
				if !ok {
					return true
				}
				for li, l := range as.Lhs {
					sel, ok := l.(*ast.SelectorExpr)
					if !ok {
						continue
					}
					f := sel.Sel.Name
					if f != "ver" && f != "uid" && f != "authLvl" {
						continue
					}
					rhs := "?"
					if len(as.Rhs) == len(as.Lhs) {
						rhs = src(as.Rhs[li])
					}
					base := src(sel.X)
					last := base
					if i := strings.LastIndex(base, "."); i >= 0 {
						last = base[i+1:]
					}
					if last == "s" || last == "sess" || strings.HasSuffix(last, "Sess") || strings.HasSuffix(last, "Session") {
						foreign = append(foreign, filepath.Base(fn)+":"+fd.Name.Name+":"+src(l)+" = "+rhs)
					}
				}
				return true
			})
		}
	}
	var fq []string
	for _, f := range foreign {
		fq = append(fq, coqStr(f))
	}
	var b strings.Builder
	b.WriteString("(* GENERATED on every run by harness/translators/dispatch from " + path + " - do not edit. *)\n")
	b.WriteString("From Coq Require Import List String Bool.\nFrom Tinode Require Import Sys.SessionAuth Sys.SessionGen.\nImport ListNotations.\nLocal Open Scope string_scope.\n\n")
	b.WriteString("(* assignments to ver/uid/authLvl fields found in session.go: " + strings.ReplaceAll(strings.Join(writerList, ", "), "*)", "* )") + " *)\n")
	b.WriteString("Definition gen_dispatch_src : gen_dispatch := {|\n  gd_entries := [\n    ")
	b.WriteString(strings.Join(entries, ";\n    "))
	b.WriteString("\n  ];\n")
	fmt.Fprintf(&b, "  gd_checkvers := %s;\n  gd_checkuser := %s;\n  gd_asuser := %s;\n  gd_default := %s;\n  gd_called := %s;\n  gd_writers := %s;\n  gd_foreign_writers := [%s]\n|}.\n",
		coqBool(checkVers), coqBool(checkUser), coqBool(asUser), coqBool(dflt), coqBool(called), coqBool(writers), strings.Join(fq, "; "))
	if err := os.WriteFile(out, []byte(b.String()), 0o644); err != nil {
		fmt.Fprintln(os.Stderr, "write:", err)
		os.Exit(1)
	}
}
