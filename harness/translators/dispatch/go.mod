module verif/translators/dispatch

go 1.21
