// Translator "gopure": reads server/store/types/types.go of the tinode/chat tree given as the
// first argument and writes (second argument: coq/Gen/GenAcsPred.v)
//
//   * every constant of type AccessMode of the `const ( ModeJoin AccessMode = 1 << iota ... )`
//     block, evaluated (iota, <<, |, &, &^, ^, references to earlier constants), as `Definition
//     g_<Name> : N`;
//   * every function or method of the file whose parameters (receiver included) are all of type
//     AccessMode, whose result is `bool` or `AccessMode` and whose body is ONE return statement
//     over the expression language
//         e ::= param | const | literal | (e) | e & e | e | e | e &^ e | e == e | e != e
//             | e && e | e || e | !e | x.F(args) with F another translated function
//     as `Definition g_<Name> (params : N) : bool|N`, in dependency order.
//
// AccessMode is `uint`; the operators above are closed on the naturals (no +, -, <<, ^ on
// variables), so N is an exact model of them with no wrap-around case.  `^` and `<<` are accepted
// in constant expressions only, where they are evaluated here.
//
// The translator FAILS CLOSED: a listed function (see `wanted`) that is missing, has another
// signature or uses anything outside the grammar is emitted as `Definition g_<Name>_untranslated :
// unit := tt` and NOT as a function, so that the obligation file (coq/Gen/ObAcsPred.v), which
// mentions `g_<Name>`, no longer compiles.
//
// Only the standard library is used (go/parser, go/ast, go/printer, go/token).
package main

import (
	"bytes"
	"fmt"
	"go/ast"
	"go/parser"
	"go/printer"
	"go/token"
	"os"
	"path/filepath"
	"sort"
	"strconv"
	"strings"
)

var fset = token.NewFileSet()

// functions the obligation file relies on (fail closed when one of them cannot be translated)
var wanted = []string{"BetterThan", "BetterEqual", "IsJoiner", "IsOwner", "IsApprover", "IsAdmin", "IsSharer",
	"IsWriter", "IsReader", "IsPresencer", "IsDeleter", "IsZero", "IsInvalid", "IsDefined"}

func src(n ast.Node) string {
	var b bytes.Buffer
	printer.Fprint(&b, fset, n)
	return strings.Join(strings.Fields(b.String()), " ")
}

type fn struct {
	name   string
	params []string
	ret    string // "bool" or "N"
	body   string
	deps   []string
	err    string
}

var consts = map[string]uint64{}
var constOrder []string

func isAcs(e ast.Expr) bool {
	id, ok := e.(*ast.Ident)
	return ok && id.Name == "AccessMode"
}

// constant expression evaluation
func evalConst(e ast.Expr, iota uint64) (uint64, error) {
	switch x := e.(type) {
	case *ast.BasicLit:
		if x.Kind != token.INT {
			return 0, fmt.Errorf("literal %s", x.Value)
		}
		v, err := strconv.ParseUint(x.Value, 0, 64)
		return v, err
	case *ast.Ident:
		if x.Name == "iota" {
			return iota, nil
		}
		if v, ok := consts[x.Name]; ok {
			return v, nil
		}
		return 0, fmt.Errorf("unknown identifier %s", x.Name)
	case *ast.ParenExpr:
		return evalConst(x.X, iota)
	case *ast.BinaryExpr:
		a, err := evalConst(x.X, iota)
		if err != nil {
			return 0, err
		}
		b, err := evalConst(x.Y, iota)
		if err != nil {
			return 0, err
		}
		switch x.Op {
		case token.SHL:
			return a << b, nil
		case token.OR:
			return a | b, nil
		case token.AND:
			return a & b, nil
		case token.AND_NOT:
			return a &^ b, nil
		case token.XOR:
			return a ^ b, nil
		}
		return 0, fmt.Errorf("operator %s", x.Op)
	}
	return 0, fmt.Errorf("expression %s", src(e))
}

func readConsts(f *ast.File) {
	for _, d := range f.Decls {
		gd, ok := d.(*ast.GenDecl)
		if !ok || gd.Tok != token.CONST {
			continue
		}
		// the AccessMode block is the one whose first spec is typed AccessMode
		if len(gd.Specs) == 0 {
			continue
		}
		first := gd.Specs[0].(*ast.ValueSpec)
		if first.Type == nil || !isAcs(first.Type) {
			continue
		}
		var lastExpr ast.Expr
		for i, s := range gd.Specs {
			vs := s.(*ast.ValueSpec)
			if len(vs.Names) != 1 {
				continue
			}
			if len(vs.Values) == 1 {
				lastExpr = vs.Values[0]
			}
			if lastExpr == nil {
				continue
			}
			v, err := evalConst(lastExpr, uint64(i))
			if err != nil {
				fmt.Fprintf(os.Stderr, "gopure: constant %s not evaluated: %v\n", vs.Names[0].Name, err)
				continue
			}
			consts[vs.Names[0].Name] = v
			constOrder = append(constOrder, vs.Names[0].Name)
		}
	}
}

type tr struct {
	params map[string]bool
	funcs  map[string]*fn // translated so far (by Go name)
	deps   map[string]bool
}

// returns (coq term, type "bool"|"N")
func (t *tr) expr(e ast.Expr) (string, string, error) {
	switch x := e.(type) {
	case *ast.ParenExpr:
		return t.expr(x.X)
	case *ast.BasicLit:
		if x.Kind != token.INT {
			return "", "", fmt.Errorf("literal %s", x.Value)
		}
		v, err := strconv.ParseUint(x.Value, 0, 64)
		if err != nil {
			return "", "", err
		}
		return fmt.Sprintf("%d", v), "N", nil
	case *ast.Ident:
		if t.params[x.Name] {
			return x.Name, "N", nil
		}
		if _, ok := consts[x.Name]; ok {
			return "g_" + x.Name, "N", nil
		}
		if x.Name == "true" || x.Name == "false" {
			return x.Name, "bool", nil
		}
		return "", "", fmt.Errorf("identifier %s", x.Name)
	case *ast.UnaryExpr:
		if x.Op != token.NOT {
			return "", "", fmt.Errorf("unary %s", x.Op)
		}
		a, ty, err := t.expr(x.X)
		if err != nil {
			return "", "", err
		}
		if ty != "bool" {
			return "", "", fmt.Errorf("! on %s", ty)
		}
		return "(negb " + a + ")", "bool", nil
	case *ast.BinaryExpr:
		a, ta, err := t.expr(x.X)
		if err != nil {
			return "", "", err
		}
		b, tb, err := t.expr(x.Y)
		if err != nil {
			return "", "", err
		}
		if ta != tb {
			return "", "", fmt.Errorf("operand types of %s", src(e))
		}
		switch x.Op {
		case token.AND, token.OR, token.AND_NOT:
			if ta != "N" {
				return "", "", fmt.Errorf("bit operator on bool")
			}
			op := map[token.Token]string{token.AND: "N.land", token.OR: "N.lor", token.AND_NOT: "N.ldiff"}[x.Op]
			return "(" + op + " " + a + " " + b + ")", "N", nil
		case token.EQL, token.NEQ:
			var s string
			if ta == "N" {
				s = "(N.eqb " + a + " " + b + ")"
			} else {
				s = "(Bool.eqb " + a + " " + b + ")"
			}
			if x.Op == token.NEQ {
				s = "(negb " + s + ")"
			}
			return s, "bool", nil
		case token.LAND, token.LOR:
			if ta != "bool" {
				return "", "", fmt.Errorf("logical operator on N")
			}
			op := map[token.Token]string{token.LAND: "andb", token.LOR: "orb"}[x.Op]
			return "(" + op + " " + a + " " + b + ")", "bool", nil
		}
		return "", "", fmt.Errorf("operator %s", x.Op)
	case *ast.CallExpr:
		sel, ok := x.Fun.(*ast.SelectorExpr)
		if !ok {
			return "", "", fmt.Errorf("call %s", src(e))
		}
		callee, ok := t.funcs[sel.Sel.Name]
		if !ok || callee.err != "" {
			return "", "", fmt.Errorf("call of untranslated %s", sel.Sel.Name)
		}
		args := []ast.Expr{sel.X}
		args = append(args, x.Args...)
		if len(args) != len(callee.params) {
			return "", "", fmt.Errorf("arity of %s", src(e))
		}
		s := "(g_" + callee.name
		for _, a := range args {
			c, ty, err := t.expr(a)
			if err != nil {
				return "", "", err
			}
			if ty != "N" {
				return "", "", fmt.Errorf("argument type in %s", src(e))
			}
			s += " " + c
		}
		t.deps[callee.name] = true
		return s + ")", callee.ret, nil
	}
	return "", "", fmt.Errorf("expression %s", src(e))
}

// candidate: all params AccessMode (by value), one result bool|AccessMode
func signature(fd *ast.FuncDecl) ([]string, string, bool) {
	var ps []string
	add := func(fl *ast.FieldList) bool {
		if fl == nil {
			return true
		}
		for _, f := range fl.List {
			if !isAcs(f.Type) {
				return false
			}
			if len(f.Names) == 0 {
				return false
			}
			for _, n := range f.Names {
				ps = append(ps, n.Name)
			}
		}
		return true
	}
	if !add(fd.Recv) || !add(fd.Type.Params) {
		return nil, "", false
	}
	if fd.Type.Results == nil || len(fd.Type.Results.List) != 1 || len(fd.Type.Results.List[0].Names) > 1 {
		return nil, "", false
	}
	rt := fd.Type.Results.List[0].Type
	if id, ok := rt.(*ast.Ident); ok && id.Name == "bool" {
		return ps, "bool", len(ps) > 0
	}
	if isAcs(rt) {
		return ps, "N", len(ps) > 0
	}
	return nil, "", false
}

func main() {
	if len(os.Args) != 3 {
		fmt.Fprintln(os.Stderr, "usage: gopure <repo> <out.v>")
		os.Exit(2)
	}
	path := filepath.Join(os.Args[1], "server", "store", "types", "types.go")
	f, err := parser.ParseFile(fset, path, nil, 0)
	if err != nil {
		fmt.Fprintln(os.Stderr, "gopure:", err)
		os.Exit(1)
	}
	readConsts(f)
	cands := map[string]*ast.FuncDecl{}
	for _, d := range f.Decls {
		if fd, ok := d.(*ast.FuncDecl); ok && fd.Body != nil {
			if _, _, ok := signature(fd); ok {
				cands[fd.Name.Name] = fd
			}
		}
	}
	funcs := map[string]*fn{}
	var order []string
	// iterate to a fixpoint so that callees are translated before callers
	for progress := true; progress; {
		progress = false
		names := make([]string, 0, len(cands))
		for n := range cands {
			names = append(names, n)
		}
		sort.Strings(names)
		for _, n := range names {
			if _, done := funcs[n]; done {
				continue
			}
			fd := cands[n]
			ps, ret, _ := signature(fd)
			r := &fn{name: n, params: ps, ret: ret}
			if len(fd.Body.List) != 1 {
				r.err = "body is not a single return statement"
			} else if rs, ok := fd.Body.List[0].(*ast.ReturnStmt); !ok || len(rs.Results) != 1 {
				r.err = "body is not a single return statement"
			} else {
				t := &tr{params: map[string]bool{}, funcs: funcs, deps: map[string]bool{}}
				for _, p := range ps {
					t.params[p] = true
				}
				c, ty, err := t.expr(rs.Results[0])
				if err != nil {
					if strings.HasPrefix(err.Error(), "call of untranslated") {
						continue // maybe later
					}
					r.err = err.Error()
				} else if ty != ret {
					r.err = "result type"
				} else {
					r.body = c
				}
			}
			funcs[n] = r
			order = append(order, n)
			progress = true
		}
	}
	var b strings.Builder
	b.WriteString("(* GENERATED by harness/translators/gopure from server/store/types/types.go - do not edit. *)\n")
	b.WriteString("From Coq Require Import NArith Bool.\nOpen Scope N_scope.\n\n")
	for _, n := range constOrder {
		fmt.Fprintf(&b, "Definition g_%s : N := %d.\n", n, consts[n])
	}
	b.WriteString("\n")
	for _, n := range order {
		r := funcs[n]
		if r.err != "" {
			fmt.Fprintf(&b, "(* %s: not translated (%s) *)\nDefinition g_%s_untranslated : unit := tt.\n", n, r.err, n)
			continue
		}
		fmt.Fprintf(&b, "(* %s *)\nDefinition g_%s", src(cands[n].Body.List[0]), n)
		for _, p := range r.params {
			fmt.Fprintf(&b, " (%s : N)", p)
		}
		fmt.Fprintf(&b, " : %s := %s.\n", r.ret, r.body)
	}
	for _, w := range wanted {
		if r, ok := funcs[w]; !ok {
			fmt.Fprintf(&b, "(* %s: no such function with AccessMode parameters and a bool/AccessMode result, or it calls an untranslated one *)\nDefinition g_%s_untranslated : unit := tt.\n", w, w)
		} else if r.err != "" {
			fmt.Fprintf(os.Stderr, "gopure: %s not translated: %s\n", w, r.err)
		}
	}
	var list []string
	for _, n := range order {
		if funcs[n].err == "" {
			list = append(list, n)
		}
	}
	fmt.Fprintf(&b, "\n(* translated: %s *)\n", strings.Join(list, " "))
	if err := os.WriteFile(os.Args[2], []byte(b.String()), 0o644); err != nil {
		fmt.Fprintln(os.Stderr, "gopure:", err)
		os.Exit(1)
	}
}
