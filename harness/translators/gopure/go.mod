module verif/translators/gopure

go 1.21
