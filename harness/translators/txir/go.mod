module verif/txir

go 1.21
