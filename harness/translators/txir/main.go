// txir: renders every transactional function of the SQL adapters of tinode/chat
// into the transaction-skeleton IR of coq/Sys/TxIR.v.
//
//	txir -out GenTx.v -json txir.json mysql=/repo/server/db/mysql/adapter.go postgres=/repo/...
//
// The files are parsed syntactically (go/parser only; the adapters sit behind
// build tags and are not type-checked).  The translator FAILS CLOSED: whatever
// it does not recognise in a transactional function (or in a helper receiving
// the tx) becomes an [SUnknown "<source>"] node, which TxIR.wf_prog rejects.
package main

import (
	"bytes"
	"encoding/json"
	"flag"
	"fmt"
	"go/ast"
	"go/parser"
	"go/printer"
	"go/token"
	"os"
	"sort"
	"strings"
)

// ---------------------------------------------------------------- IR

type ir struct {
	op   string // skip seq begin exec pure commit rollback cancel set call if loop break continue return defer unknown
	v    int    // variable (begin, set); -1 none
	b    int    // binding (exec, pure, commit, call); -1 none
	e    string // rexpr (set, return)
	c    string // cond (if)
	kids []*ir  // seq: n; if: 2; loop: 1; call: 1
	loc  []int  // call: locals
	nm   int    // call: named result of the helper, -1 none
	d    int    // defer index
	src  string // unknown
}

func skip() *ir { return &ir{op: "skip"} }

func seq(items []*ir) *ir {
	var out []*ir
	for _, it := range items {
		if it == nil || it.op == "skip" {
			continue
		}
		if it.op == "seq" {
			out = append(out, it.kids...)
		} else {
			out = append(out, it)
		}
	}
	if len(out) == 0 {
		return skip()
	}
	if len(out) == 1 {
		return out[0]
	}
	return &ir{op: "seq", kids: out}
}

func optv(v int) string {
	if v < 0 {
		return "None"
	}
	return fmt.Sprintf("(Some %d)", v)
}

func coqStr(s string) string { return "\"" + strings.ReplaceAll(s, "\"", "\"\"") + "\"" }

func (n *ir) coq(ind string) string {
	switch n.op {
	case "skip":
		return "SSkip"
	case "seq":
		// right nested
		s := n.kids[len(n.kids)-1].coq(ind)
		for i := len(n.kids) - 2; i >= 0; i-- {
			s = "SSeq (" + n.kids[i].coq(ind) + ")\n" + ind + "(" + s + ")"
		}
		return s
	case "begin":
		return fmt.Sprintf("SBegin %d", n.v)
	case "exec":
		return "SExec " + optv(n.b)
	case "pure":
		return "SPure " + optv(n.b)
	case "commit":
		return "SCommit " + optv(n.b)
	case "rollback":
		return "SRollback"
	case "cancel":
		return "SCancel"
	case "set":
		return fmt.Sprintf("SSet %d %s", n.v, n.e)
	case "call":
		ls := make([]string, len(n.loc))
		for i, l := range n.loc {
			ls[i] = fmt.Sprint(l)
		}
		return fmt.Sprintf("SCall [%s] %s\n%s  (%s)\n%s  %s", strings.Join(ls, "; "), optv(n.nm), ind, n.kids[0].coq(ind+"  "), ind, optv(n.b))
	case "if":
		return fmt.Sprintf("SIf (%s)\n%s  (%s)\n%s  (%s)", n.c, ind, n.kids[0].coq(ind+"  "), ind, n.kids[1].coq(ind+"  "))
	case "loop":
		return fmt.Sprintf("SLoop\n%s  (%s)", ind, n.kids[0].coq(ind+"  "))
	case "break":
		return "SBreak"
	case "continue":
		return "SContinue"
	case "return":
		return "SReturn " + n.e
	case "defer":
		return fmt.Sprintf("SDefer %d", n.d)
	case "unknown":
		return "SUnknown " + coqStr(n.src)
	}
	panic("bad ir op " + n.op)
}

func (n *ir) count(op string) int {
	c := 0
	if n.op == op {
		c++
	}
	for _, k := range n.kids {
		c += k.count(op)
	}
	return c
}

func (n *ir) unknowns() []string {
	var r []string
	if n.op == "unknown" {
		r = append(r, n.src)
	}
	for _, k := range n.kids {
		r = append(r, k.unknowns()...)
	}
	return r
}

// ---------------------------------------------------------------- scopes

const (
	kOther = iota
	kErr
	kTx
	kStmt
	kRows
	kRes
	kCancel
	kCtx
)

type entry struct {
	kind int
	id   int
}

type scope map[string]*entry

type varInfo struct {
	Id   int    `json:"id"`
	Name string `json:"name"`
	Line int    `json:"line"`
	In   string `json:"in"`
}

type tr struct {
	fset    *token.FileSet
	adapter string
	funcs   map[string]*ast.FuncDecl
	// per top-level function
	scopes    []scope
	nvars     int
	vars      []varInfo
	defers    []*ir
	inlining  []string
	helpers   map[string]bool
	ctxrb     bool
	curFunc   string
	errResult []bool // stack: does the current function's last result have type error
	named     []int  // stack: named error result var or -1
	inHelper  int
	errNames  map[string]bool
}

func (t *tr) push()          { t.scopes = append(t.scopes, scope{}) }
func (t *tr) pop()           { t.scopes = t.scopes[:len(t.scopes)-1] }
func (t *tr) cur() scope     { return t.scopes[len(t.scopes)-1] }
func (t *tr) line(n ast.Node) int { return t.fset.Position(n.Pos()).Line }

func (t *tr) lookup(name string) *entry {
	for i := len(t.scopes) - 1; i >= 0; i-- {
		if e, ok := t.scopes[i][name]; ok {
			return e
		}
	}
	return nil
}

func (t *tr) newVar(name string, at ast.Node) int {
	id := t.nvars
	t.nvars++
	ln := 0
	if at != nil {
		ln = t.line(at)
	}
	t.vars = append(t.vars, varInfo{Id: id, Name: name, Line: ln, In: t.curFunc})
	return id
}

func (t *tr) declare(name string, kind int, at ast.Node) *entry {
	e := &entry{kind: kind, id: -1}
	if kind == kErr {
		e.id = t.newVar(name, at)
	}
	if name != "_" {
		t.cur()[name] = e
	}
	return e
}

func (t *tr) src(n ast.Node) string {
	var buf bytes.Buffer
	printer.Fprint(&buf, t.fset, n)
	s := strings.Join(strings.Fields(buf.String()), " ")
	if len(s) > 110 {
		s = s[:110] + "..."
	}
	return fmt.Sprintf("%s:%d: %s", t.adapter, t.line(n), s)
}

func (t *tr) unknown(n ast.Node, why string) *ir {
	return &ir{op: "unknown", src: why + " | " + t.src(n)}
}

// ---------------------------------------------------------------- expression classification

var stmtMethods = map[string]int{ // method on tx / prepared statement -> kind of the first result
	"Exec": kRes, "ExecContext": kRes, "MustExec": kRes, "NamedExec": kRes, "NamedExecContext": kRes,
	"Query": kRows, "Queryx": kRows, "QueryContext": kRows, "QueryxContext": kRows, "NamedQuery": kRows,
	"Get": kOther, "GetContext": kOther, "Select": kOther, "SelectContext": kOther,
	"Prepare": kStmt, "Preparex": kStmt, "PrepareContext": kStmt, "PreparexContext": kStmt, "PrepareNamed": kStmt,
	"SendBatch": kOther, "CopyFrom": kOther,
}

func typeKind(e ast.Expr) int {
	var buf bytes.Buffer
	printer.Fprint(&buf, token.NewFileSet(), e)
	s := buf.String()
	switch s {
	case "error":
		return kErr
	case "*sql.Tx", "*sqlx.Tx", "pgx.Tx":
		return kTx
	case "*sql.Stmt", "*sqlx.Stmt", "*sqlx.NamedStmt":
		return kStmt
	case "*sql.Rows", "*sqlx.Rows", "pgx.Rows":
		return kRows
	case "sql.Result", "pgconn.CommandTag":
		return kRes
	case "context.CancelFunc":
		return kCancel
	case "context.Context":
		return kCtx
	}
	return kOther
}

type callInfo struct {
	op     string // begin exec pure commit rollback cancel call ctx close data rowsnext
	first  int    // kind of the first result
	helper string
	call   *ast.CallExpr
}

func isAdb(e ast.Expr) bool {
	s, ok := e.(*ast.SelectorExpr)
	if !ok || s.Sel.Name != "db" {
		return false
	}
	id, ok := s.X.(*ast.Ident)
	return ok && id.Name == "a"
}

// classify a call expression.  ok=false: contains tracked objects in a way not recognised.
func (t *tr) classify(e ast.Expr) (ci callInfo, ok bool) {
	call, isCall := e.(*ast.CallExpr)
	if !isCall {
		return callInfo{op: "data"}, !t.mentions(e)
	}
	ci.call = call
	argsClean := func() bool {
		for _, a := range call.Args {
			if t.mentions(a) {
				return false
			}
		}
		return true
	}
	switch f := call.Fun.(type) {
	case *ast.Ident:
		if ent := t.lookup(f.Name); ent != nil && ent.kind == kCancel {
			return callInfo{op: "cancel", call: call}, len(call.Args) == 0
		}
		// helper function receiving the tx?
		if t.hasTxArg(call) {
			return callInfo{op: "call", helper: f.Name, call: call}, true
		}
		return callInfo{op: "data", call: call}, argsClean()
	case *ast.SelectorExpr:
		m := f.Sel.Name
		// a.db.BeginXxx
		if isAdb(f.X) {
			if strings.HasPrefix(m, "Begin") {
				return callInfo{op: "begin", first: kTx, call: call}, true
			}
			return ci, false // statement outside the transaction
		}
		if id, isId := f.X.(*ast.Ident); isId {
			ent := t.lookup(id.Name)
			if id.Name == "a" && ent != nil && ent.kind == kOther {
				if (m == "getContextForTx" || m == "getContext") && len(call.Args) == 0 {
					return callInfo{op: "ctx", call: call}, true
				}
				if t.hasTxArg(call) {
					return callInfo{op: "call", helper: m, call: call}, true
				}
				return ci, false // adapter method not receiving the tx: may touch the DB outside the tx
			}
			if ent != nil {
				switch ent.kind {
				case kTx:
					switch {
					case m == "Commit":
						return callInfo{op: "commit", call: call}, argsClean()
					case m == "Rollback":
						return callInfo{op: "rollback", call: call}, argsClean()
					case m == "Rebind" || m == "BindNamed":
						return callInfo{op: "data", call: call}, argsClean()
					}
					if k, known := stmtMethods[m]; known {
						return callInfo{op: "exec", first: k, call: call}, argsClean()
					}
					return ci, false
				case kStmt:
					if m == "Close" {
						return callInfo{op: "close", call: call}, true
					}
					if k, known := stmtMethods[m]; known {
						return callInfo{op: "exec", first: k, call: call}, argsClean()
					}
					return ci, false
				case kRows:
					switch m {
					case "Close":
						return callInfo{op: "close", call: call}, true
					case "Next":
						return callInfo{op: "rowsnext", call: call}, true
					case "Err":
						return callInfo{op: "exec", first: kOther, call: call}, true // failure of the row fetch
					case "Scan", "StructScan", "MapScan", "SliceScan", "Values":
						return callInfo{op: "pure", call: call}, argsClean()
					}
					return ci, false
				case kRes:
					return callInfo{op: "pure", call: call}, argsClean()
				case kErr:
					return callInfo{op: "data", call: call}, argsClean() // err.Error()
				}
			}
		}
		// tx.QueryRow(...).Scan(...), tx.QueryRowx(...).StructScan(...)
		if inner, isInner := f.X.(*ast.CallExpr); isInner {
			if isel, isSel := inner.Fun.(*ast.SelectorExpr); isSel {
				if id, isId := isel.X.(*ast.Ident); isId {
					if ent := t.lookup(id.Name); ent != nil && (ent.kind == kTx || ent.kind == kStmt) &&
						strings.HasPrefix(isel.Sel.Name, "QueryRow") && (m == "Scan" || m == "StructScan") {
						for _, a := range inner.Args {
							if t.mentions(a) {
								return ci, false
							}
						}
						return callInfo{op: "exec", first: kOther, call: call}, argsClean()
					}
				}
			}
		}
		if t.hasTxArg(call) {
			return ci, false // tx handed to something we cannot see
		}
		return callInfo{op: "data", call: call}, !t.mentions(f.X) && argsClean()
	}
	return ci, false
}

func (t *tr) hasTxArg(call *ast.CallExpr) bool {
	for _, a := range call.Args {
		if id, ok := a.(*ast.Ident); ok {
			if ent := t.lookup(id.Name); ent != nil && ent.kind == kTx {
				return true
			}
		}
	}
	return false
}

// mentions: does a data expression touch the transaction machinery (tx, prepared
// statements, rows, cancel, a.db, adapter methods, closures)?  Error variables,
// results and contexts may be read freely.
func (t *tr) mentions(e ast.Node) bool {
	found := false
	ast.Inspect(e, func(n ast.Node) bool {
		if found {
			return false
		}
		switch x := n.(type) {
		case *ast.FuncLit:
			found = true
		case *ast.SelectorExpr:
			if isAdb(x) {
				found = true
				return false
			}
			if id, ok := x.X.(*ast.Ident); ok && id.Name == "a" {
				if ent := t.lookup("a"); ent != nil && ent.kind == kOther {
					// field reads of the adapter are fine, method calls are caught in CallExpr below
					return false
				}
			}
		case *ast.CallExpr:
			if s, ok := x.Fun.(*ast.SelectorExpr); ok {
				if id, ok := s.X.(*ast.Ident); ok && id.Name == "a" {
					if ent := t.lookup("a"); ent != nil && ent.kind == kOther {
						found = true // adapter method called inside an expression
						return false
					}
				}
				if id, ok := s.X.(*ast.Ident); ok {
					if ent := t.lookup(id.Name); ent != nil && ent.kind == kRes {
						// res.RowsAffected() inside an expression: harmless read
						for _, a := range x.Args {
							if t.mentions(a) {
								found = true
							}
						}
						return false
					}
				}
			}
		case *ast.Ident:
			if ent := t.lookup(x.Name); ent != nil {
				switch ent.kind {
				case kTx, kStmt, kRows, kCancel:
					found = true
				}
			}
		}
		return !found
	})
	return found
}

func isNilIdent(e ast.Expr) bool {
	id, ok := e.(*ast.Ident)
	return ok && id.Name == "nil"
}

func (t *tr) errIdent(e ast.Expr) (int, bool) {
	if p, ok := e.(*ast.ParenExpr); ok {
		return t.errIdent(p.X)
	}
	id, ok := e.(*ast.Ident)
	if !ok {
		return 0, false
	}
	if ent := t.lookup(id.Name); ent != nil && ent.kind == kErr {
		return ent.id, true
	}
	return 0, false
}

func (t *tr) mentionsErr(e ast.Node) bool {
	found := false
	ast.Inspect(e, func(n ast.Node) bool {
		if id, ok := n.(*ast.Ident); ok {
			if ent := t.lookup(id.Name); ent != nil && ent.kind == kErr {
				found = true
			}
		}
		return !found
	})
	return found
}

var errPredicates = map[string]bool{"isDupe": true, "isMissingDb": true, "isMissingTable": true, "Is": true, "As": true}

// condition -> cond term; ok=false when not recognised
func (t *tr) cond(e ast.Expr) (string, bool) {
	switch x := e.(type) {
	case *ast.ParenExpr:
		return t.cond(x.X)
	case *ast.UnaryExpr:
		if x.Op == token.NOT {
			c, ok := t.cond(x.X)
			return "CNot (" + c + ")", ok
		}
	case *ast.BinaryExpr:
		switch x.Op {
		case token.LAND, token.LOR:
			a, ok1 := t.cond(x.X)
			b, ok2 := t.cond(x.Y)
			name := "CAnd"
			if x.Op == token.LOR {
				name = "COr"
			}
			return fmt.Sprintf("%s (%s) (%s)", name, a, b), ok1 && ok2
		case token.EQL, token.NEQ:
			var v int
			var other ast.Expr
			var isErr bool
			if v, isErr = t.errIdent(x.X); isErr {
				other = x.Y
			} else if v, isErr = t.errIdent(x.Y); isErr {
				other = x.X
			}
			if isErr {
				var c string
				if isNilIdent(other) {
					c = fmt.Sprintf("CNonNil %d", v)
					if x.Op == token.EQL {
						c = "CNot (" + c + ")"
					}
					return c, true
				}
				if t.mentions(other) || t.mentionsErr(other) {
					return "CTrue", false
				}
				c = fmt.Sprintf("CIsCode %d", v) // comparison with a sentinel
				if x.Op == token.NEQ {
					c = "CNot (" + c + ")"
				}
				return c, true
			}
		}
	case *ast.CallExpr:
		name := ""
		switch f := x.Fun.(type) {
		case *ast.Ident:
			name = f.Name
		case *ast.SelectorExpr:
			if id, ok := f.X.(*ast.Ident); ok && id.Name == "errors" {
				name = f.Sel.Name
			}
		}
		if errPredicates[name] && len(x.Args) >= 1 {
			if v, ok := t.errIdent(x.Args[0]); ok {
				for _, a := range x.Args[1:] {
					if t.mentions(a) || t.mentionsErr(a) {
						return "CTrue", false
					}
				}
				return fmt.Sprintf("CIsCode %d", v), true
			}
		}
	}
	if t.mentions(e) || t.mentionsErr(e) {
		return "CTrue", false
	}
	return "COpaque", true
}

// ---------------------------------------------------------------- statements

func (t *tr) block(list []ast.Stmt) *ir {
	var items []*ir
	for _, s := range list {
		items = append(items, t.stmt(s))
	}
	return seq(items)
}

func (t *tr) scoped(list []ast.Stmt) *ir {
	t.push()
	defer t.pop()
	return t.block(list)
}

func (t *tr) looksLikeErrName(name string) bool {
	return t.errNames[name] || name == "err" || strings.HasPrefix(name, "err") || strings.HasSuffix(name, "Err")
}

// bind the error result of an operation to the identifier in the error position
func (t *tr) bindTarget(lhs ast.Expr, define bool, at ast.Node) (int, bool) {
	id, ok := lhs.(*ast.Ident)
	if !ok {
		return -1, false
	}
	if id.Name == "_" {
		return -1, true
	}
	if define {
		if e, here := t.cur()[id.Name]; here {
			if e.kind != kErr {
				return -1, false
			}
			return e.id, true
		}
		return t.declare(id.Name, kErr, at).id, true
	}
	e := t.lookup(id.Name)
	if e == nil || e.kind != kErr {
		return -1, false
	}
	return e.id, true
}

// other (non-error) left-hand sides of an operation
func (t *tr) bindOthers(lhs []ast.Expr, define bool, firstKind int, at ast.Node) bool {
	for i, l := range lhs {
		id, ok := l.(*ast.Ident)
		if !ok {
			if t.mentions(l) {
				return false
			}
			continue
		}
		if id.Name == "_" {
			continue
		}
		k := kOther
		if i == 0 {
			k = firstKind
		}
		if define {
			if e, here := t.cur()[id.Name]; here {
				if e.kind == kErr {
					return false
				}
				e.kind = k
			} else {
				t.declare(id.Name, k, at)
			}
		} else {
			e := t.lookup(id.Name)
			if e == nil {
				continue // package-level or field: not tracked
			}
			if e.kind == kErr {
				return false
			}
			e.kind = k
		}
	}
	return true
}

func (t *tr) rexpr(e ast.Expr) (pre *ir, r string, ok bool) {
	if isNilIdent(e) {
		return nil, "ENil", true
	}
	if v, isErr := t.errIdent(e); isErr {
		return nil, fmt.Sprintf("(EVar %d)", v), true
	}
	if call, isCall := e.(*ast.CallExpr); isCall {
		ci, cok := t.classify(call)
		if !cok {
			return nil, "", false
		}
		switch ci.op {
		case "commit", "exec", "call", "pure":
			tmp := t.newVar("$ret", e)
			st := t.opStmt(ci, tmp, e)
			return st, fmt.Sprintf("(EVar %d)", tmp), true
		case "data":
			if isErrCtor(call) {
				return nil, "ENew", true
			}
			return nil, "EOpaque", true
		}
		return nil, "", false
	}
	if t.mentions(e) {
		return nil, "", false
	}
	if sel, isSel := e.(*ast.SelectorExpr); isSel && strings.HasPrefix(sel.Sel.Name, "Err") {
		return nil, "ENew", true
	}
	return nil, "EOpaque", true
}

func isErrCtor(call *ast.CallExpr) bool {
	if s, ok := call.Fun.(*ast.SelectorExpr); ok {
		if id, ok := s.X.(*ast.Ident); ok {
			return (id.Name == "errors" && s.Sel.Name == "New") || (id.Name == "fmt" && s.Sel.Name == "Errorf")
		}
	}
	return false
}

// IR of one classified operation with its error bound to b
func (t *tr) opStmt(ci callInfo, b int, at ast.Node) *ir {
	switch ci.op {
	case "exec":
		return &ir{op: "exec", b: b}
	case "pure":
		return &ir{op: "pure", b: b}
	case "commit":
		return &ir{op: "commit", b: b}
	case "call":
		return t.inline(ci, b, at)
	}
	return t.unknown(at, "operation")
}

func (t *tr) inline(ci callInfo, b int, at ast.Node) *ir {
	fd := t.funcs[ci.helper]
	if fd == nil || fd.Body == nil {
		return t.unknown(at, "helper not found")
	}
	for _, n := range t.inlining {
		if n == ci.helper {
			return t.unknown(at, "recursive helper")
		}
	}
	if len(t.inlining) > 6 {
		return t.unknown(at, "helper nesting")
	}
	t.helpers[ci.helper] = true
	// argument expressions other than the tx must be data
	for _, a := range ci.call.Args {
		if id, ok := a.(*ast.Ident); ok {
			if ent := t.lookup(id.Name); ent != nil && (ent.kind == kTx || ent.kind == kCtx) {
				continue
			}
		}
		if t.mentions(a) {
			return t.unknown(at, "helper argument")
		}
	}
	// fresh scope stack: only the helper's own parameters are visible
	saved := t.scopes
	savedFunc := t.curFunc
	t.scopes = nil
	t.curFunc = ci.helper
	t.inlining = append(t.inlining, ci.helper)
	t.inHelper++
	first := t.nvars
	body, nm := t.function(fd)
	var locals []int
	for i := first; i < t.nvars; i++ {
		locals = append(locals, i)
	}
	t.inHelper--
	t.inlining = t.inlining[:len(t.inlining)-1]
	t.scopes = saved
	t.curFunc = savedFunc
	return &ir{op: "call", loc: locals, nm: nm, kids: []*ir{body}, b: b}
}

// translate a function body in a fresh scope holding its parameters and results
func (t *tr) function(fd *ast.FuncDecl) (*ir, int) {
	t.push()
	defer t.pop()
	if fd.Recv != nil {
		for _, f := range fd.Recv.List {
			for _, n := range f.Names {
				t.declare(n.Name, kOther, n)
			}
		}
	}
	for _, f := range fd.Type.Params.List {
		k := typeKind(f.Type)
		if k == kErr {
			k = kOther // an error passed in is plain data
		}
		for _, n := range f.Names {
			t.declare(n.Name, k, n)
		}
	}
	nm := -1
	lastErr := false
	if fd.Type.Results != nil && len(fd.Type.Results.List) > 0 {
		rl := fd.Type.Results.List
		lastErr = typeKind(rl[len(rl)-1].Type) == kErr
		for i, f := range rl {
			k := typeKind(f.Type)
			for j, n := range f.Names {
				if k == kErr && i == len(rl)-1 && j == len(f.Names)-1 {
					nm = t.declare(n.Name, kErr, n).id
				} else if k == kErr {
					t.declare(n.Name, kErr, n)
				} else {
					t.declare(n.Name, kOther, n)
				}
			}
		}
	}
	t.errResult = append(t.errResult, lastErr)
	t.named = append(t.named, nm)
	body := t.block(fd.Body.List) // parameters and the body share one block in Go
	t.errResult = t.errResult[:len(t.errResult)-1]
	t.named = t.named[:len(t.named)-1]
	return body, nm
}

func (t *tr) addDefer(body *ir) *ir {
	t.defers = append(t.defers, body)
	return &ir{op: "defer", d: len(t.defers) - 1}
}

func (t *tr) assign(s *ast.AssignStmt) *ir {
	define := s.Tok == token.DEFINE
	if s.Tok != token.ASSIGN && s.Tok != token.DEFINE {
		// op-assignment (+=, ...): data only
		if t.mentions(s) || t.mentionsErr(s) {
			return t.unknown(s, "op-assignment")
		}
		return skip()
	}
	if len(s.Rhs) == 1 {
		rhs := s.Rhs[0]
		ci, ok := t.classify(rhs)
		if !ok {
			return t.unknown(s, "assignment")
		}
		last := s.Lhs[len(s.Lhs)-1]
		switch ci.op {
		case "begin":
			if len(s.Lhs) != 2 {
				return t.unknown(s, "begin")
			}
			if !t.bindOthers(s.Lhs[:1], define, kTx, s) {
				return t.unknown(s, "begin")
			}
			v, ok := t.bindTarget(last, define, s)
			if !ok || v < 0 {
				return t.unknown(s, "begin error dropped")
			}
			m := ci.call.Fun.(*ast.SelectorExpr).Sel.Name
			if t.adapter == "mysql" && (m == "BeginTxx" || m == "BeginTx") && len(ci.call.Args) > 0 {
				if id, isId := ci.call.Args[0].(*ast.Ident); isId {
					if ent := t.lookup(id.Name); ent != nil && ent.kind == kCtx {
						t.ctxrb = true // database/sql rolls the tx back when this context is cancelled
					}
				}
			}
			return &ir{op: "begin", v: v}
		case "ctx":
			if len(s.Lhs) != 2 || !define {
				return t.unknown(s, "context")
			}
			for i, l := range s.Lhs {
				id, isId := l.(*ast.Ident)
				if !isId {
					return t.unknown(s, "context")
				}
				k := kCtx
				if i == 1 {
					k = kCancel
				}
				t.declare(id.Name, k, s)
			}
			return skip()
		case "exec", "commit", "call":
			// the error is the last result
			if ci.op == "exec" && len(s.Lhs) == 1 && ci.first != kOther {
				// single result: e.g. pgx tag := ... cannot be; be strict
				return t.unknown(s, "statement result count")
			}
			if !t.bindOthers(s.Lhs[:len(s.Lhs)-1], define, ci.first, s) {
				return t.unknown(s, "statement results")
			}
			v, ok := t.bindTarget(last, define, s)
			if !ok {
				return t.unknown(s, "error position")
			}
			return t.opStmt(ci, v, s)
		case "pure":
			// res.RowsAffected(): (n, err) in database/sql, n alone in pgx
			if len(s.Lhs) == 1 {
				if v, isErr := t.errIdent(last); isErr && !define {
					return &ir{op: "pure", b: v} // err = rows.Scan(..)
				}
				if id, isId := last.(*ast.Ident); isId && define && t.looksLikeErrName(id.Name) {
					if _, here := t.cur()[id.Name]; !here {
						return &ir{op: "pure", b: t.declare(id.Name, kErr, s).id}
					}
				}
				if !t.bindOthers(s.Lhs, define, kOther, s) {
					return t.unknown(s, "pure result")
				}
				return skip()
			}
			if !t.bindOthers(s.Lhs[:len(s.Lhs)-1], define, kOther, s) {
				return t.unknown(s, "pure results")
			}
			v, ok := t.bindTarget(last, define, s)
			if !ok {
				return t.unknown(s, "error position")
			}
			if v < 0 {
				return skip()
			}
			return &ir{op: "pure", b: v}
		case "data":
			// does the assignment write a tracked error variable?
			if _, isCall := rhs.(*ast.CallExpr); isCall {
				lid, isId := last.(*ast.Ident)
				if isId && lid.Name != "_" {
					ent := t.lookup(lid.Name)
					reuse := ent != nil && ent.kind == kErr
					if define {
						e2, here := t.cur()[lid.Name]
						reuse = here && e2.kind == kErr
					}
					fresh := define && !reuse && t.looksLikeErrName(lid.Name)
					if _, here := t.cur()[lid.Name]; here && define {
						fresh = false
					}
					if reuse || fresh {
						if !t.bindOthers(s.Lhs[:len(s.Lhs)-1], define, kOther, s) {
							return t.unknown(s, "results")
						}
						v, ok := t.bindTarget(last, define, s)
						if !ok {
							return t.unknown(s, "error position")
						}
						if isErrCtor(rhs.(*ast.CallExpr)) {
							return &ir{op: "set", v: v, e: "ENew"}
						}
						return &ir{op: "pure", b: v}
					}
				}
				if !t.bindOthers(s.Lhs, define, kOther, s) {
					return t.unknown(s, "assignment to an error variable")
				}
				return skip()
			}
			// non-call right-hand side
			if len(s.Lhs) == 1 {
				if v, isErr := t.errIdent(last); isErr && !define {
					_, r, ok := t.rexpr(rhs)
					if !ok {
						return t.unknown(s, "error expression")
					}
					return &ir{op: "set", v: v, e: r}
				}
				if w, isErr := t.errIdent(rhs); isErr {
					// e2 := err
					v, ok := t.bindTarget(last, define, s)
					if !ok || v < 0 {
						return t.unknown(s, "copy of an error variable")
					}
					return &ir{op: "set", v: v, e: fmt.Sprintf("(EVar %d)", w)}
				}
			}
			if !t.bindOthers(s.Lhs, define, kOther, s) {
				return t.unknown(s, "assignment to an error variable")
			}
			return skip()
		}
		return t.unknown(s, "assignment of "+ci.op)
	}
	// several right-hand sides: all data, no error variable written
	for _, r := range s.Rhs {
		if ci, ok := t.classify(r); !ok || ci.op != "data" {
			return t.unknown(s, "multi-assignment")
		}
	}
	if !t.bindOthers(s.Lhs, define, kOther, s) {
		return t.unknown(s, "multi-assignment to an error variable")
	}
	return skip()
}

func (t *tr) stmt(s ast.Stmt) *ir {
	switch x := s.(type) {
	case *ast.EmptyStmt:
		return skip()
	case *ast.BlockStmt:
		return t.scoped(x.List)
	case *ast.AssignStmt:
		return t.assign(x)
	case *ast.IncDecStmt:
		if t.mentions(x) || t.mentionsErr(x) {
			return t.unknown(x, "incdec")
		}
		return skip()
	case *ast.DeclStmt:
		gd, ok := x.Decl.(*ast.GenDecl)
		if !ok || gd.Tok != token.VAR {
			if gd != nil && (gd.Tok == token.CONST || gd.Tok == token.TYPE) {
				return skip()
			}
			return t.unknown(x, "declaration")
		}
		var items []*ir
		for _, sp := range gd.Specs {
			vs := sp.(*ast.ValueSpec)
			k := kOther
			if vs.Type != nil {
				k = typeKind(vs.Type)
			}
			if len(vs.Values) > 0 {
				if k == kErr || k == kTx {
					return t.unknown(x, "initialised declaration")
				}
				for _, v := range vs.Values {
					if ci, ok := t.classify(v); !ok || ci.op != "data" {
						return t.unknown(x, "initialised declaration")
					}
				}
			}
			for _, n := range vs.Names {
				e := t.declare(n.Name, k, n)
				if k == kErr {
					items = append(items, &ir{op: "set", v: e.id, e: "ENil"})
				}
			}
		}
		return seq(items)
	case *ast.ExprStmt:
		ci, ok := t.classify(x.X)
		if !ok {
			return t.unknown(x, "expression statement")
		}
		switch ci.op {
		case "exec", "commit", "call":
			return t.opStmt(ci, -1, x)
		case "rollback":
			return &ir{op: "rollback"}
		case "cancel":
			return &ir{op: "cancel"}
		case "close", "data", "pure", "rowsnext":
			return skip()
		}
		return t.unknown(x, "expression statement")
	case *ast.IfStmt:
		// idiom: if cancel != nil { defer cancel() }
		if be, ok := x.Cond.(*ast.BinaryExpr); ok && x.Init == nil && x.Else == nil && be.Op == token.NEQ && isNilIdent(be.Y) {
			if id, ok := be.X.(*ast.Ident); ok {
				if ent := t.lookup(id.Name); ent != nil && ent.kind == kCancel && len(x.Body.List) == 1 {
					if ds, ok := x.Body.List[0].(*ast.DeferStmt); ok {
						if fid, ok := ds.Call.Fun.(*ast.Ident); ok && fid.Name == id.Name && len(ds.Call.Args) == 0 {
							if t.inHelper > 0 {
								return t.unknown(x, "defer in helper")
							}
							return t.addDefer(&ir{op: "cancel"})
						}
					}
				}
			}
		}
		t.push()
		defer t.pop()
		var items []*ir
		if x.Init != nil {
			items = append(items, t.stmt(x.Init))
		}
		c, ok := t.cond(x.Cond)
		if !ok {
			items = append(items, t.unknown(x.Cond, "condition"))
		}
		th := t.scoped(x.Body.List)
		el := skip()
		if x.Else != nil {
			el = t.stmt(x.Else)
		}
		if ok && !strings.Contains(c, "CNonNil") && !strings.Contains(c, "CIsCode") && th.op == "skip" && el.op == "skip" {
			return seq(items)
		}
		items = append(items, &ir{op: "if", c: c, kids: []*ir{th, el}})
		return seq(items)
	case *ast.ForStmt:
		t.push()
		defer t.pop()
		var items []*ir
		if x.Init != nil {
			items = append(items, t.stmt(x.Init))
		}
		if x.Cond != nil {
			ci, ok := t.classify(x.Cond)
			if !(ok && ci.op == "rowsnext") {
				if c, ok := t.cond(x.Cond); !ok || c != "COpaque" {
					items = append(items, t.unknown(x.Cond, "loop condition"))
				}
			}
		}
		body := t.scoped(x.Body.List)
		if x.Post != nil {
			body = seq([]*ir{body, t.stmt(x.Post)})
		}
		if body.op != "skip" {
			items = append(items, &ir{op: "loop", kids: []*ir{body}})
		}
		return seq(items)
	case *ast.RangeStmt:
		if t.mentions(x.X) || t.mentionsErr(x.X) {
			return t.unknown(x.X, "range expression")
		}
		t.push()
		defer t.pop()
		for _, kv := range []ast.Expr{x.Key, x.Value} {
			if id, ok := kv.(*ast.Ident); ok && x.Tok == token.DEFINE {
				t.declare(id.Name, kOther, id)
			} else if kv != nil && (t.mentions(kv) || t.mentionsErr(kv)) {
				return t.unknown(x, "range variables")
			}
		}
		body := t.scoped(x.Body.List)
		if body.op == "skip" {
			return skip()
		}
		return &ir{op: "loop", kids: []*ir{body}}
	case *ast.BranchStmt:
		if x.Label != nil {
			return t.unknown(x, "labelled branch")
		}
		switch x.Tok {
		case token.BREAK:
			return &ir{op: "break"}
		case token.CONTINUE:
			return &ir{op: "continue"}
		}
		return t.unknown(x, "branch")
	case *ast.ReturnStmt:
		lastErr := t.errResult[len(t.errResult)-1]
		nm := t.named[len(t.named)-1]
		if len(x.Results) == 0 {
			if nm >= 0 {
				return &ir{op: "return", e: fmt.Sprintf("(EVar %d)", nm)}
			}
			if lastErr {
				return t.unknown(x, "bare return")
			}
			return &ir{op: "return", e: "ENil"}
		}
		n := len(x.Results)
		others := x.Results
		if lastErr {
			others = x.Results[:n-1]
		}
		for _, r := range others {
			if t.mentions(r) {
				return t.unknown(x, "returned value")
			}
		}
		if !lastErr {
			return &ir{op: "return", e: "ENil"}
		}
		pre, r, ok := t.rexpr(x.Results[n-1])
		if !ok {
			return t.unknown(x, "returned error")
		}
		return seq([]*ir{pre, {op: "return", e: r}})
	case *ast.DeferStmt:
		ci, ok := t.classify(x.Call)
		if ok && ci.op == "close" {
			return skip() // rows.Close(), stmt.Close()
		}
		if t.inHelper > 0 {
			return t.unknown(x, "defer in helper")
		}
		if ok && ci.op == "cancel" {
			return t.addDefer(&ir{op: "cancel"})
		}
		if ok && ci.op == "rollback" {
			return t.addDefer(&ir{op: "rollback"})
		}
		if fl, isLit := x.Call.Fun.(*ast.FuncLit); isLit && len(x.Call.Args) == 0 && len(fl.Type.Params.List) == 0 {
			// closure: translated in the scope of the defer statement (reads variables when it runs)
			t.errResult = append(t.errResult, false)
			t.named = append(t.named, -1)
			body := t.scoped(fl.Body.List)
			t.errResult = t.errResult[:len(t.errResult)-1]
			t.named = t.named[:len(t.named)-1]
			if body.count("defer") > 0 || body.count("begin") > 0 {
				return t.unknown(x, "deferred closure")
			}
			return t.addDefer(body)
		}
		return t.unknown(x, "defer")
	case *ast.SwitchStmt:
		t.push()
		defer t.pop()
		var items []*ir
		if x.Init != nil {
			items = append(items, t.stmt(x.Init))
		}
		if x.Tag != nil && (t.mentions(x.Tag) || t.mentionsErr(x.Tag)) {
			return t.unknown(x, "switch tag")
		}
		chain := skip()
		for i := len(x.Body.List) - 1; i >= 0; i-- {
			cc := x.Body.List[i].(*ast.CaseClause)
			for _, e := range cc.List {
				if t.mentions(e) || t.mentionsErr(e) {
					return t.unknown(x, "switch case")
				}
			}
			hasBreak := false
			for _, bs := range cc.Body {
				ast.Inspect(bs, func(n ast.Node) bool {
					if b, ok := n.(*ast.BranchStmt); ok && (b.Tok == token.BREAK || b.Tok == token.FALLTHROUGH) {
						hasBreak = true
					}
					return true
				})
			}
			if hasBreak {
				return t.unknown(x, "break/fallthrough in switch")
			}
			body := t.scoped(cc.Body)
			if body.op == "skip" && chain.op == "skip" {
				continue
			}
			chain = &ir{op: "if", c: "COpaque", kids: []*ir{body, chain}}
		}
		items = append(items, chain)
		return seq(items)
	}
	return t.unknown(s, fmt.Sprintf("statement %T", s))
}

// ---------------------------------------------------------------- driver

type funcOut struct {
	Adapter  string    `json:"adapter"`
	Func     string    `json:"func"`
	Coq      string    `json:"coq"`
	Line     int       `json:"line"`
	EndLine  int       `json:"end_line"`
	Vars     []varInfo `json:"vars"`
	Helpers  []string  `json:"helpers"`
	Unknown  []string  `json:"unknown"`
	Stmts    int       `json:"stmts"`
	Loops    int       `json:"loops"`
	Branches int       `json:"branches"`
	Defers   int       `json:"defers"`
	Named    int       `json:"named"`
	CtxRb    bool      `json:"ctx_cancel_rolls_back"`
	IR       string    `json:"ir"`
}

var outOfScope = map[string]string{
	"CreateDb":  "schema creation tool (DDL; MySQL auto-commits every CREATE TABLE, the source says so); not a store operation of the property",
	"UpgradeDb": "schema migration tool; its single transactional step uses an explicit Rollback-then-return, not the deferred idiom; not a store operation of the property",
}

func beginsTx(fd *ast.FuncDecl) bool {
	found := false
	ast.Inspect(fd.Body, func(n ast.Node) bool {
		if c, ok := n.(*ast.CallExpr); ok {
			if s, ok := c.Fun.(*ast.SelectorExpr); ok && isAdb(s.X) && strings.HasPrefix(s.Sel.Name, "Begin") {
				found = true
			}
		}
		return !found
	})
	return found
}

func main() {
	out := flag.String("out", "GenTx.v", "Coq output")
	js := flag.String("json", "", "JSON summary output")
	flag.Parse()
	var results []funcOut
	skipped := map[string]string{}
	var coq bytes.Buffer
	coq.WriteString("(* GENERATED by harness/translators/txir from the SQL adapters of tinode/chat. Do not edit. *)\n")
	coq.WriteString("From Coq Require Import List String.\nFrom Tinode Require Import Sys.TxIR.\nImport ListNotations.\nOpen Scope string_scope.\n\n")
	for _, arg := range flag.Args() {
		parts := strings.SplitN(arg, "=", 2)
		adapter, path := parts[0], parts[1]
		fset := token.NewFileSet()
		file, err := parser.ParseFile(fset, path, nil, 0)
		if err != nil {
			fmt.Fprintln(os.Stderr, "parse:", err)
			os.Exit(2)
		}
		funcs := map[string]*ast.FuncDecl{}
		var order []*ast.FuncDecl
		for _, d := range file.Decls {
			if fd, ok := d.(*ast.FuncDecl); ok && fd.Body != nil {
				funcs[fd.Name.Name] = fd
				order = append(order, fd)
			}
		}
		for _, fd := range order {
			if !beginsTx(fd) {
				continue
			}
			if why, skip := outOfScope[fd.Name.Name]; skip {
				skipped[adapter+"."+fd.Name.Name] = why
				continue
			}
			t := &tr{fset: fset, adapter: adapter, funcs: funcs, helpers: map[string]bool{}, curFunc: fd.Name.Name,
				errNames: map[string]bool{}}
			body, nm := t.function(fd)
			name := fmt.Sprintf("tx_%s_%s", adapter, fd.Name.Name)
			var ds []string
			for _, d := range t.defers {
				ds = append(ds, "    ("+d.coq("      ")+")")
			}
			var unk []string
			unk = append(unk, body.unknowns()...)
			for _, d := range t.defers {
				unk = append(unk, d.unknowns()...)
			}
			irText := fmt.Sprintf("{| p_name := %s;\n  p_named := %s;\n  p_ctxrb := %v;\n  p_sticky := %v;\n  p_defers := [\n%s];\n  p_body :=\n    %s |}",
				coqStr(adapter+"."+fd.Name.Name), optv(nm), t.ctxrb, adapter == "postgres", strings.Join(ds, ";\n"), body.coq("    "))
			fmt.Fprintf(&coq, "(* %s:%d-%d *)\nDefinition %s : prog :=\n%s.\n\n", path, fset.Position(fd.Pos()).Line, fset.Position(fd.End()).Line, name, irText)
			var hs []string
			for h := range t.helpers {
				hs = append(hs, h)
			}
			sort.Strings(hs)
			fo := funcOut{Adapter: adapter, Func: fd.Name.Name, Coq: name, Line: fset.Position(fd.Pos()).Line,
				EndLine: fset.Position(fd.End()).Line, Vars: t.vars, Helpers: hs, Unknown: unk,
				Stmts: body.count("exec"), Loops: body.count("loop"), Branches: body.count("if"), Defers: len(t.defers),
				Named: nm, CtxRb: t.ctxrb, IR: irText}
			results = append(results, fo)
		}
	}
	coq.WriteString("Definition all_progs : list prog := [\n")
	for i, r := range results {
		sep := ";"
		if i == len(results)-1 {
			sep = ""
		}
		fmt.Fprintf(&coq, "  %s%s\n", r.Coq, sep)
	}
	coq.WriteString("].\n")
	if err := os.WriteFile(*out, coq.Bytes(), 0o644); err != nil {
		fmt.Fprintln(os.Stderr, err)
		os.Exit(2)
	}
	if *js != "" {
		b, _ := json.MarshalIndent(map[string]any{"functions": results, "out_of_scope": skipped}, "", " ")
		os.WriteFile(*js, b, 0o644)
	}
}
