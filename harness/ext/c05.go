package main

import (
	"strconv"

	"github.com/tinode/chat/server/store/types"
)

func init() { handlers["c05"] = c05 }

func c05(w []string) string {
	switch w[0] {
	case "M":
		m := types.AccessMode(atou(w[1]))
		b, err := m.MarshalText()
		if err != nil {
			return "M err"
		}
		return "M ok " + tohex(b)
	case "P":
		m, err := types.ParseAcs(unhex(w[1]))
		if err != nil {
			return "P err"
		}
		return "P " + strconv.FormatUint(uint64(m), 10)
	case "U":
		m := types.AccessMode(atou(w[1]))
		err := m.UnmarshalText(unhex(w[2]))
		return "U " + strconv.FormatUint(uint64(m), 10) + " " + b2s(err == nil)
	case "D":
		o, n := types.AccessMode(atou(w[1])), types.AccessMode(atou(w[2]))
		return "D " + tohex([]byte(o.Delta(n)))
	case "A":
		m := types.AccessMode(atou(w[1]))
		err := m.ApplyDelta(string(unhex(w[2])))
		return "A " + strconv.FormatUint(uint64(m), 10) + " " + b2s(err == nil)
	case "RT":
		m := types.AccessMode(atou(w[1]))
		cur := types.AccessMode(atou(w[2]))
		b, err := m.MarshalText()
		if err != nil {
			return "RT err"
		}
		err = cur.UnmarshalText(b)
		return "RT " + tohex(b) + " " + strconv.FormatUint(uint64(cur), 10) + " " + b2s(err == nil)
	case "DA":
		o, n := types.AccessMode(atou(w[1])), types.AccessMode(atou(w[2]))
		d := o.Delta(n)
		err := o.ApplyDelta(d)
		return "DA " + tohex([]byte(d)) + " " + strconv.FormatUint(uint64(o), 10) + " " + b2s(err == nil)
	case "X":
		m := types.AccessMode(atou(w[1]))
		err := m.ApplyMutation(string(unhex(w[2])))
		return "X " + strconv.FormatUint(uint64(m), 10) + " " + b2s(err == nil)
	case "PR":
		// the AccessMode predicates and comparisons (server/store/types/types.go:693-838)
		m, x := types.AccessMode(atou(w[1])), types.AccessMode(atou(w[2]))
		bs := []bool{m.IsJoiner(), m.IsReader(), m.IsWriter(), m.IsPresencer(), m.IsApprover(), m.IsSharer(), m.IsDeleter(),
			m.IsOwner(), m.IsAdmin(), m.IsZero(), m.IsInvalid(), m.IsDefined(), m.BetterThan(x), m.BetterEqual(x),
			(m & x).IsWriter(), (m & x).IsReader(), (m & x).IsOwner()}
		r := "PR "
		for _, b := range bs {
			r += b2s(b)
		}
		return r
	}
	return "?"
}
