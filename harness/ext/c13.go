// C13: hostile Drafty documents through drafty.PlainText and drafty.Preview, the two functions which
// render client-controlled message content into push-notification previews
// (server/push/fcm/payload.go).
//
// Request: "D <preview length> <hex of the JSON content>".
// Answer:  "jsonerr" | "HANG" | "R <decoded> <plain> <preview>" where
//
//	decoded = what decodeAsDrafty makes of the content, computed by this driver (JSON decoding is
//	          outside the Coq model coq/Pure/Drafty.v, which starts from the decoded document):
//	          "nil" | "derr:I" | "derr:U" | "doc:<txt>;<fmt>;<ent>"
//	          txt = "n" (no txt: nil grapheme container) | "t" + hex of the grapheme clusters joined by "."
//	          fmt = "-" | entries "<tp hex>/<at>/<len>/<key>" joined by ","
//	          ent = "-" | entries "<tp hex>/n" or "<tp hex>/d/<url>/<name>" (x = no string value, s<hex>)
//	plain   = outcome of drafty.PlainText: "ok:<hex>" | "err:I" | "err:U" | "err:?" | "PANIC:<hex of the message>"
//	preview = outcome of drafty.Preview:   "ok:<txt hex>;<fmt>;<ent types hex joined by ,>" | "empty" | "err:.." |
//	          "PANIC:.." | "bad" (output is not a JSON document)
//
// Each of the two calls runs under its own recover: a panic is an answer (in production the push
// goroutines have no recover and the process dies).
package main

import (
	"encoding/hex"
	"encoding/json"
	"fmt"
	"strconv"
	"strings"
	"time"

	"github.com/rivo/uniseg"
	"github.com/tinode/chat/server/drafty"
)

func c13hex(s string) string {
	return hex.EncodeToString([]byte(s))
}

func c13hexd(s string) string {
	if s == "" {
		return "-"
	}
	return hex.EncodeToString([]byte(s))
}

// c13int is intFromNumeric for the types encoding/json produces.
func c13int(v any) (int, bool) {
	if v == nil {
		return 0, true
	}
	f, ok := v.(float64)
	if !ok {
		return 0, false
	}
	return int(f), true
}

// c13decode mirrors decodeAsDrafty / decodeAsStyle / decodeAsEntity on a value produced by json.Unmarshal.
func c13decode(content any) string {
	if content == nil {
		return "nil"
	}
	var txt = "n"
	clusters := func(s string) string {
		var cl []string
		for state, remaining, cluster := -1, s, ""; len(remaining) > 0; {
			cluster, remaining, _, state = uniseg.StepString(remaining, state)
			cl = append(cl, c13hex(cluster))
		}
		return "t" + strings.Join(cl, ".")
	}
	var fmts, ents []string
	switch tmp := content.(type) {
	case string:
		txt = clusters(tmp)
	case map[string]any:
		correct := 0
		if t, ok := tmp["txt"].(string); ok {
			txt = clusters(t)
			correct++
		}
		if ifmt, ok := tmp["fmt"].([]any); ok {
			for _, x := range ifmt {
				if x != nil {
					m, ok := x.(map[string]any)
					if !ok {
						return "derr:U"
					}
					tp, _ := m["tp"].(string)
					at, ok := c13int(m["at"])
					if !ok {
						return "derr:I"
					}
					ln, ok := c13int(m["len"])
					if !ok {
						return "derr:I"
					}
					key := 0
					if tp == "" {
						key, ok = c13int(m["key"])
						if !ok || key < 0 {
							return "derr:I"
						}
					}
					fmts = append(fmts, fmt.Sprintf("%s/%d/%d/%d", c13hex(tp), at, ln, key))
				}
				correct++
			}
		}
		if ient, ok := tmp["ent"].([]any); ok {
			for _, x := range ient {
				if x != nil {
					m, ok := x.(map[string]any)
					if !ok {
						return "derr:U"
					}
					tp, _ := m["tp"].(string)
					if tp == "" {
						return "derr:I"
					}
					data, _ := m["data"].(map[string]any)
					if data == nil {
						ents = append(ents, c13hex(tp)+"/n")
					} else {
						get := func(k string) string {
							if s, ok := data[k].(string); ok {
								return "s" + c13hex(s)
							}
							return "x"
						}
						ents = append(ents, c13hex(tp)+"/d/"+get("url")+"/"+get("name"))
					}
				}
				correct++
			}
		}
		if correct == 0 {
			return "derr:U"
		}
	default:
		return "derr:U"
	}
	j := func(l []string) string {
		if len(l) == 0 {
			return "-"
		}
		return strings.Join(l, ",")
	}
	return "doc:" + txt + ";" + j(fmts) + ";" + j(ents)
}

func c13err(err error) string {
	switch err.Error() {
	case "invalid format":
		return "err:I"
	case "content unrecognized":
		return "err:U"
	}
	return "err:?"
}

// c13guard runs f under recover.
func c13guard(f func() string) (res string) {
	defer func() {
		if r := recover(); r != nil {
			res = "PANIC:" + c13hex(strings.ReplaceAll(fmt.Sprint(r), "\n", " "))
		}
	}()
	return f()
}

func init() {
	handlers["c13"] = func(w []string) string {
		var content any
		if err := json.Unmarshal(unhex(w[2]), &content); err != nil {
			return "jsonerr"
		}
		n := int(atoi(w[1]))
		ch := make(chan string, 1)
		go func() {
			dec := c13guard(func() string { return c13decode(content) })
			a := c13guard(func() string {
				s, err := drafty.PlainText(content)
				if err != nil {
					return c13err(err)
				}
				return "ok:" + c13hexd(s)
			})
			b := c13guard(func() string {
				s, err := drafty.Preview(content, n)
				if err != nil {
					return c13err(err)
				}
				if s == "" {
					return "empty"
				}
				var out struct {
					Txt string `json:"txt"`
					Fmt []struct {
						Tp  string `json:"tp"`
						At  int    `json:"at"`
						Len int    `json:"len"`
						Key int    `json:"key"`
					} `json:"fmt"`
					Ent []struct {
						Tp string `json:"tp"`
					} `json:"ent"`
				}
				if err := json.Unmarshal([]byte(s), &out); err != nil {
					return "bad"
				}
				var fmts, ents []string
				for _, f := range out.Fmt {
					fmts = append(fmts, c13hex(f.Tp)+"/"+strconv.Itoa(f.At)+"/"+strconv.Itoa(f.Len)+"/"+strconv.Itoa(f.Key))
				}
				for _, e := range out.Ent {
					ents = append(ents, c13hexd(e.Tp))
				}
				j := func(l []string) string {
					if len(l) == 0 {
						return "-"
					}
					return strings.Join(l, ",")
				}
				return "ok:" + c13hexd(out.Txt) + ";" + j(fmts) + ";" + j(ents)
			})
			ch <- "R " + dec + " " + a + " " + b
		}()
		select {
		case r := <-ch:
			return r
		case <-time.After(10 * time.Second):
			return "HANG"
		}
	}
}
