// C13 (testing in support): hostile Drafty documents through drafty.PlainText and drafty.Preview,
// the two functions which render client-controlled message content into push-notification previews
// (server/push/fcm/payload.go).  Request: "D <preview length> <hex of the JSON content>".
// Answer: "ok <plain status> <preview status>" | "jsonerr" | "HANG"; a panic is turned into
// "PANIC ..." by main.go's safe().
package main

import (
	"encoding/json"
	"fmt"
	"time"

	"github.com/tinode/chat/server/drafty"
)

func init() {
	handlers["c13"] = func(w []string) string {
		var content any
		if err := json.Unmarshal(unhex(w[2]), &content); err != nil {
			return "jsonerr"
		}
		n := int(atoi(w[1]))
		type res struct {
			s string
			p any
		}
		ch := make(chan res, 1)
		go func() {
			defer func() {
				if r := recover(); r != nil {
					ch <- res{p: r}
				}
			}()
			st := func(s string, err error) string {
				if err != nil {
					return "err"
				}
				return fmt.Sprintf("len%d", len(s))
			}
			a := st(drafty.PlainText(content))
			b := st(drafty.Preview(content, n))
			ch <- res{s: "ok " + a + " " + b}
		}()
		select {
		case r := <-ch:
			if r.p != nil {
				panic(r.p)
			}
			return r.s
		case <-time.After(10 * time.Second):
			return "HANG"
		}
	}
}
