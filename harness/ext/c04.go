package main

import (
	"sort"
	"strconv"
	"strings"

	"github.com/tinode/chat/server/store/types"
)

func init() { handlers["c04"] = c04 }

// A range is written low:hi, a list is comma-separated, "-" = empty list.
func c04ParseList(s string) []types.Range {
	if s == "-" {
		return nil
	}
	var out []types.Range
	for _, p := range strings.Split(s, ",") {
		lh := strings.Split(p, ":")
		if len(lh) != 2 {
			panic("driver: bad range " + p)
		}
		out = append(out, types.Range{Low: int(atoi(lh[0])), Hi: int(atoi(lh[1]))})
	}
	return out
}

func c04ShowList(rs []types.Range) string {
	if len(rs) == 0 {
		return "-"
	}
	parts := make([]string, len(rs))
	for i, r := range rs {
		parts[i] = strconv.Itoa(r.Low) + ":" + strconv.Itoa(r.Hi)
	}
	return strings.Join(parts, ",")
}

// N list: the real sort.Sort(types.RangeSorter(rs)) followed by the real
// RangeSorter.Normalize on the same slice, as replyDelMsg and
// store.Messages.GetDeleted do.  Answer: the sorted slice (copied before
// Normalize mutates it) and the slice Normalize returns.
func c04(w []string) string {
	switch w[0] {
	case "N":
		rs := c04ParseList(w[1])
		sort.Sort(types.RangeSorter(rs))
		sorted := append([]types.Range(nil), rs...)
		out := types.RangeSorter(rs).Normalize()
		return "N " + c04ShowList(sorted) + " | " + c04ShowList(out)
	}
	return "?"
}
