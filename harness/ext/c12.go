// C12 driver: the REAL token, code and basic authenticators of tinode/chat.
//
// Answer format:  <result> | <aux>
// <result> is what the model must reproduce.  <aux> carries what the model
// cannot know by itself and what the driver measured: wall-clock readings,
// the token actually presented, and the values of the keyed hash (computed
// by the driver with crypto/hmac under the configured key) for exactly the
// data the authenticator has to sign or verify, so that model and
// implementation are compared on the same MAC function.
package main

import (
	"crypto/hmac"
	"crypto/sha256"
	"encoding/base64"
	"encoding/binary"
	"encoding/hex"
	"fmt"
	"math/big"
	"reflect"
	"strconv"
	"strings"
	"time"

	"github.com/tinode/chat/server/auth"
	_ "github.com/tinode/chat/server/auth/token"
	"github.com/tinode/chat/server/store"
	"github.com/tinode/chat/server/store/types"
)

func init() { handlers["c12"] = c12 }

// fresh, uninitialised instance of a registered authenticator type (the types
// are unexported; the registered singletons can be initialised only once)
func newAuthHandler(name string) auth.AuthHandler {
	h := store.Store.GetAuthHandler(name)
	if h == nil {
		panic("driver: no auth handler " + name)
	}
	return reflect.New(reflect.TypeOf(h).Elem()).Interface().(auth.AuthHandler)
}

func errName(err error) string {
	switch err {
	case nil:
		return "nil"
	case types.ErrMalformed:
		return "malformed"
	case types.ErrFailed:
		return "failed"
	case types.ErrExpired:
		return "expired"
	case types.ErrInternal:
		return "internal"
	case types.ErrDuplicate:
		return "duplicate"
	case types.ErrPolicy:
		return "policy"
	case types.ErrNotFound:
		return "notfound"
	case types.ErrUnsupported:
		return "unsupported"
	}
	return "other:" + strings.ReplaceAll(err.Error(), " ", "_")
}

func hmac256(key, data []byte) []byte {
	h := hmac.New(sha256.New, key)
	h.Write(data)
	return h.Sum(nil)
}

func tokenConfig(key []byte, serial, expireIn int64) []byte {
	return []byte(fmt.Sprintf(`{"key":"%s","serial_num":%d,"expire_in":%d}`,
		base64.StdEncoding.EncodeToString(key), serial, expireIn))
}

func c12(w []string) string {
	switch w[0] {
	case "T":
		return c12Token(w)
	case "C":
		return c12Code(w)
	case "B":
		return c12Basic(w)
	case "LOWER":
		return c12Lower(w)
	}
	return "?"
}

// T key serial expire_in uid level features ltspec vkey vserial mut
func c12Token(w []string) string {
	key := unhex(w[1])
	serial, expireIn := atoi(w[2]), atoi(w[3])
	uid, level, features := atou(w[4]), atoi(w[5]), atou(w[6])
	var aux []string
	macs := map[string]bool{}
	addMac := func(k, tok []byte) {
		if len(tok) < 18 {
			return
		}
		e := tohex(k) + ":" + tohex(tok[:18]) + ":" + tohex(hmac256(k, tok[:18]))
		if !macs[e] {
			macs[e] = true
			aux = append(aux, "mac="+e)
		}
	}
	a := newAuthHandler("token")
	if err := a.Init(tokenConfig(key, serial, expireIn), "token"); err != nil {
		return "initerr |"
	}
	// lifetime
	var lifetime int64
	lt := strings.Split(w[7], ":")
	switch lt[0] {
	case "n":
		lifetime = atoi(lt[1])
	case "w": // lands delta seconds after "now" once the uint32 expiry has wrapped k times
		lifetime = ((atoi(lt[1]) << 32) - time.Now().Unix() + atoi(lt[2])) * 1000000000
	default:
		panic("driver: bad lifetime spec")
	}
	aux = append(aux, "L="+strconv.FormatInt(lifetime, 10))
	rec := &auth.Rec{Uid: types.Uid(uid), AuthLevel: auth.Level(level), Lifetime: auth.Duration(lifetime),
		Features: auth.Feature(features)}
	t0 := time.Now().UnixNano()
	issued, expires, gerr := a.GenSecret(rec)
	t1 := time.Now().UnixNano()
	res := ""
	if gerr != nil {
		res = "gen:err"
		issued = nil
	} else {
		res = "gen:ok " + tohex(issued) + " expok"
		// UnixNano() overflows beyond the years 1678..2262
		expNs := new(big.Int).Mul(big.NewInt(expires.Unix()), big.NewInt(1000000000))
		expNs.Add(expNs, big.NewInt(int64(expires.Nanosecond())))
		aux = append(aux, fmt.Sprintf("t0=%d t1=%d exp=%s", t0, t1, expNs.String()))
		addMac(key, issued)
	}
	// verifying authenticator
	vkey, vserial := key, serial
	b := a
	if w[8] != "=" || w[9] != "=" {
		if w[8] != "=" {
			vkey = unhex(w[8])
		}
		if w[9] != "=" {
			vserial = atoi(w[9])
		}
		b = newAuthHandler("token")
		if err := b.Init(tokenConfig(vkey, vserial, expireIn), "token"); err != nil {
			return res + " vinit:err | " + strings.Join(aux, " ")
		}
	}
	// token presented
	var ptok []byte
	mut := strings.Split(w[10], ":")
	needIssued := true
	switch mut[0] {
	case "set":
		ptok = unhex(mut[1])
		needIssued = false
	case "craft": // craft:uid:relexp_s:level:serial16:features:signkey
		var buf [18]byte
		binary.LittleEndian.PutUint64(buf[0:], atou(mut[1]))
		binary.LittleEndian.PutUint32(buf[8:], uint32(time.Now().Unix()+atoi(mut[2])))
		binary.LittleEndian.PutUint16(buf[12:], uint16(atou(mut[3])))
		binary.LittleEndian.PutUint16(buf[14:], uint16(atou(mut[4])))
		binary.LittleEndian.PutUint16(buf[16:], uint16(atou(mut[5])))
		skey := key
		if mut[6] != "=" {
			skey = unhex(mut[6])
		}
		ptok = append(buf[:], hmac256(skey, buf[:])...)
		needIssued = false
	}
	if needIssued {
		if issued == nil {
			return res + " | " + strings.Join(aux, " ")
		}
		ptok = append([]byte{}, issued...)
		switch mut[0] {
		case "none":
		case "flip":
			i := atoi(mut[1])
			ptok[i/8] ^= 1 << uint(i%8)
		case "xor":
			m := unhex(mut[1])
			for i := range m {
				if i < len(ptok) {
					ptok[i] ^= m[i]
				}
			}
		case "trunc":
			ptok = ptok[:atoi(mut[1])]
		case "ext":
			ptok = append(ptok, unhex(mut[1])...)
		default:
			panic("driver: bad mutation")
		}
	}
	addMac(vkey, ptok)
	aux = append(aux, "ptok="+tohex(ptok))
	nowv := time.Now().UnixNano()
	got, _, aerr := b.Authenticate(ptok, "127.0.0.1")
	aux = append(aux, fmt.Sprintf("nowv=%d", nowv))
	if aerr != nil {
		res += " auth:err " + errName(aerr)
	} else {
		res += fmt.Sprintf(" auth:ok %d %d %d", uint64(got.Uid), int(got.AuthLevel), uint16(got.Features))
		aux = append(aux, fmt.Sprintf("rl=%d", int64(got.Lifetime)))
	}
	return res + " | " + strings.Join(aux, " ")
}

var _ = hex.EncodeToString
