module verifext

go 1.23.0

require (
	github.com/rivo/uniseg v0.4.7
	github.com/tinode/chat v0.0.0
	golang.org/x/crypto v0.37.0
)

require (
	cel.dev/expr v0.23.1 // indirect
	cloud.google.com/go v0.120.1 // indirect
	cloud.google.com/go/auth v0.16.0 // indirect
	cloud.google.com/go/auth/oauth2adapt v0.2.8 // indirect
	cloud.google.com/go/compute/metadata v0.6.0 // indirect
	cloud.google.com/go/firestore v1.18.0 // indirect
	cloud.google.com/go/iam v1.5.0 // indirect
	cloud.google.com/go/longrunning v0.6.6 // indirect
	cloud.google.com/go/monitoring v1.24.1 // indirect
	cloud.google.com/go/storage v1.51.0 // indirect
	firebase.google.com/go v3.13.0+incompatible // indirect
	github.com/GoogleCloudPlatform/opentelemetry-operations-go/detectors/gcp v1.27.0 // indirect
	github.com/GoogleCloudPlatform/opentelemetry-operations-go/exporter/metric v0.51.0 // indirect
	github.com/GoogleCloudPlatform/opentelemetry-operations-go/internal/resourcemapping v0.51.0 // indirect
	github.com/cespare/xxhash/v2 v2.3.0 // indirect
	github.com/cncf/xds/go v0.0.0-20250326154945-ae57f3c0d45f // indirect
	github.com/envoyproxy/go-control-plane/envoy v1.32.4 // indirect
	github.com/envoyproxy/protoc-gen-validate v1.2.1 // indirect
	github.com/felixge/httpsnoop v1.0.4 // indirect
	github.com/go-logr/logr v1.4.2 // indirect
	github.com/go-logr/stdr v1.2.2 // indirect
	github.com/google/s2a-go v0.1.9 // indirect
	github.com/google/uuid v1.6.0 // indirect
	github.com/googleapis/enterprise-certificate-proxy v0.3.6 // indirect
	github.com/googleapis/gax-go/v2 v2.14.1 // indirect
	github.com/tinode/snowflake v1.0.0 // indirect
	go.opentelemetry.io/auto/sdk v1.1.0 // indirect
	go.opentelemetry.io/contrib/detectors/gcp v1.35.0 // indirect
	go.opentelemetry.io/contrib/instrumentation/google.golang.org/grpc/otelgrpc v0.60.0 // indirect
	go.opentelemetry.io/contrib/instrumentation/net/http/otelhttp v0.60.0 // indirect
	go.opentelemetry.io/otel v1.35.0 // indirect
	go.opentelemetry.io/otel/metric v1.35.0 // indirect
	go.opentelemetry.io/otel/sdk v1.35.0 // indirect
	go.opentelemetry.io/otel/sdk/metric v1.35.0 // indirect
	go.opentelemetry.io/otel/trace v1.35.0 // indirect
	golang.org/x/net v0.39.0 // indirect
	golang.org/x/oauth2 v0.29.0 // indirect
	golang.org/x/sync v0.13.0 // indirect
	golang.org/x/sys v0.32.0 // indirect
	golang.org/x/text v0.24.0 // indirect
	golang.org/x/time v0.11.0 // indirect
	google.golang.org/api v0.229.0 // indirect
	google.golang.org/genproto v0.0.0-20250414145226-207652e42e2e // indirect
	google.golang.org/genproto/googleapis/api v0.0.0-20250414145226-207652e42e2e // indirect
	google.golang.org/genproto/googleapis/rpc v0.0.0-20250414145226-207652e42e2e // indirect
	google.golang.org/grpc v1.71.1 // indirect
	google.golang.org/protobuf v1.36.6 // indirect
)

replace github.com/tinode/chat => /repo
