module verifext

go 1.23.0

require (
	github.com/rivo/uniseg v0.4.7
	github.com/tinode/chat v0.0.0
	golang.org/x/crypto v0.37.0
)

require github.com/tinode/snowflake v1.0.0 // indirect

replace github.com/tinode/chat => /repo
