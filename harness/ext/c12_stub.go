package main

func c12Code(w []string) string  { return "?" }
func c12Basic(w []string) string { return "?" }
func c12Lower(w []string) string { return "?" }
