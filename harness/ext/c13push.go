// C13: push receipts whose payload carries client-controlled message content through the code shared by
// the fcm and the tnpg push adapters: fcm.PrepareV1Notifications (payloadToData: drafty.PlainText, the
// 128-rune trimming of the plain-text preview, drafty.Preview, webrtc / replace / silent flags;
// clonePayload; the per-device and per-channel message construction). The tnpg adapter calls
// PrepareV1Notifications(rcpt, nil): exactly the call made here. In production the call is made in the
// adapter's goroutine, which has no recover: a panic terminates the server process.
//
// Request: "P <hex of a JSON spec>":
//
//	{"content": any, "raw": "<hex>" (if present the content is this byte string, not passed through JSON),
//	 "what": s, "silent": b, "topic": s, "from": s, "seq": n, "mime": s, "webrtc": s, "aonly": b, "replace": s,
//	 "channel": s, "to": [{"uid": n, "delivered": n, "unread": n, "devices": [s..], "store": [[deviceId, platform]..]}]}
//
// "store" is what the fake store.Devices returns for the user.
// Answer: "jsonerr" | "HANG" | "R plain=<ok:hex|err|PANIC:hex> units=<units> res=<ok|PANIC:hex> n=<messages>
//
//	content=<none | ok:hex | DIFF> rc=<none|hex> keys=<data keys of the first message joined by ,>"
//
// units = the plain text as the list of units []rune(s) walks over ("v<code point>" for a well-formed
// UTF-8 sequence, "b<byte>" for a stray byte), "-" if empty: the input of the Coq model
// coq/Pure/PushPreviewC13.v (harness/runner/r_c13p.ml).
package main

import (
	"encoding/hex"
	"encoding/json"
	"io"
	"sort"
	"strconv"
	"strings"
	"time"
	"unicode/utf8"

	"github.com/tinode/chat/server/drafty"
	"github.com/tinode/chat/server/logs"
	"github.com/tinode/chat/server/push"
	"github.com/tinode/chat/server/push/fcm"
	"github.com/tinode/chat/server/store"
	t "github.com/tinode/chat/server/store/types"
)

type c13pushTo struct {
	Uid       uint64     `json:"uid"`
	Delivered int        `json:"delivered"`
	Unread    int        `json:"unread"`
	Devices   []string   `json:"devices"`
	Store     [][]string `json:"store"`
}

type c13pushSpec struct {
	Content  any         `json:"content"`
	Raw      *string     `json:"raw"`
	What     string      `json:"what"`
	Silent   bool        `json:"silent"`
	Topic    string      `json:"topic"`
	From     string      `json:"from"`
	Seq      int         `json:"seq"`
	Mime     string      `json:"mime"`
	Webrtc   string      `json:"webrtc"`
	Aonly    bool        `json:"aonly"`
	Replace  string      `json:"replace"`
	Channel  string      `json:"channel"`
	ModeWant string      `json:"want"`
	To       []c13pushTo `json:"to"`
}

// c13pushDevices is the fake of store.Devices: GetAll answers from the table of the current request.
type c13pushDevices struct {
	store.DevicePersistenceInterface
	table map[t.Uid][]t.DeviceDef
}

func (d *c13pushDevices) GetAll(uids ...t.Uid) (map[t.Uid][]t.DeviceDef, int, error) {
	res := map[t.Uid][]t.DeviceDef{}
	n := 0
	for _, u := range uids {
		if l, ok := d.table[u]; ok && len(l) > 0 {
			res[u] = l
			n += len(l)
		}
	}
	return res, n, nil
}

func c13pushUnits(s string) string {
	if s == "" {
		return "-"
	}
	var us []string
	for i := 0; i < len(s); {
		r, sz := utf8.DecodeRuneInString(s[i:])
		if r == utf8.RuneError && sz == 1 {
			us = append(us, "b"+strconv.Itoa(int(s[i])))
		} else {
			us = append(us, "v"+strconv.Itoa(int(r)))
		}
		i += sz
	}
	return strings.Join(us, ",")
}

func c13pushRun(spec *c13pushSpec) string {
	var content any = spec.Content
	if spec.Raw != nil {
		b, _ := hex.DecodeString(*spec.Raw)
		content = string(b)
	}
	// the plain text the trimming starts from (the model's input)
	units := "-"
	plain := c13guard(func() string {
		s, err := drafty.PlainText(content)
		if err != nil {
			return "err"
		}
		units = c13pushUnits(s)
		return "ok:" + c13hexd(s)
	})
	fake := &c13pushDevices{table: map[t.Uid][]t.DeviceDef{}}
	rcpt := &push.Receipt{Channel: spec.Channel, Payload: push.Payload{
		What: spec.What, Silent: spec.Silent, Topic: spec.Topic, Timestamp: time.Unix(1700000000, 0).UTC(), From: spec.From,
		SeqId: spec.Seq, ContentType: spec.Mime, Content: content, Webrtc: spec.Webrtc, AudioOnly: spec.Aonly, Replace: spec.Replace}}
	if spec.ModeWant != "" {
		rcpt.Payload.ModeWant.UnmarshalText([]byte(spec.ModeWant))
		rcpt.Payload.ModeGiven.UnmarshalText([]byte(spec.ModeWant))
	}
	if spec.To != nil {
		rcpt.To = map[t.Uid]push.Recipient{}
		for _, to := range spec.To {
			uid := t.Uid(to.Uid)
			rcpt.To[uid] = push.Recipient{Delivered: to.Delivered, Unread: to.Unread, Devices: to.Devices}
			for _, d := range to.Store {
				if len(d) == 2 {
					fake.table[uid] = append(fake.table[uid], t.DeviceDef{DeviceId: d[0], Platform: d[1]})
				}
			}
		}
	}
	store.Devices = fake
	n := 0
	cont, rc, keys := "none", "none", "-"
	res := c13guard(func() string {
		msgs, uids := fcm.PrepareV1Notifications(rcpt, nil)
		if len(msgs) != len(uids) {
			return "PANIC:" + c13hex("driver: messages and uids differ in length")
		}
		n = len(msgs)
		for i, m := range msgs {
			c, ok := m.Data["content"]
			cur := "none"
			if ok {
				cur = "ok:" + c13hexd(c)
			}
			if i == 0 {
				cont = cur
				if r, ok := m.Data["rc"]; ok {
					rc = c13hexd(r)
				}
				var ks []string
				for k := range m.Data {
					ks = append(ks, k)
				}
				sort.Strings(ks)
				keys = strings.Join(ks, ",")
			} else if cur != cont {
				cont = "DIFF"
			}
		}
		return "ok"
	})
	return "R plain=" + plain + " units=" + units + " res=" + res + " n=" + strconv.Itoa(n) + " content=" + cont + " rc=" + rc + " keys=" + keys
}

func init() {
	handlers["c13push"] = func(w []string) string {
		if logs.Warn == nil {
			logs.Init(io.Discard, "stdFlags")
		}
		var spec c13pushSpec
		if len(w) < 2 || w[0] != "P" {
			return "?"
		}
		if err := json.Unmarshal(unhex(w[1]), &spec); err != nil {
			return "jsonerr"
		}
		ch := make(chan string, 1)
		go func() { ch <- c13pushRun(&spec) }()
		select {
		case r := <-ch:
			return r
		case <-time.After(10 * time.Second):
			return "HANG"
		}
	}
}
