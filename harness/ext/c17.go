package main

// C17 ring: drives the real server/ringhash package.
//
// request:  G <replicas> <hashmod> <adds> <keys>
//   replicas  Go int handed to ringhash.New
//   hashmod   0: the package's default hash (crc32 IEEE); m > 0: crc32 % m (a weak
//             hash that forces equal hashes, to exercise the tie order)
//   adds      "_" = Add is never called; otherwise groups separated by ';', one
//             Add(names...) call per group; a group is "." (no names) or hex names
//             separated by ',' ("-" = the empty name)
//   keys      "." or hex lookup keys separated by ','
// answer:   G <signature hex> <Get results> T <hex of hashed bytes>:<hash>,...
// The table after T is every call the ring made to its hash function, in first-call
// order; the model runner evaluates the model with exactly this table as `hash`.

import (
	"hash/crc32"
	"strconv"
	"strings"

	"github.com/tinode/chat/server/ringhash"
)

func init() { handlers["c17"] = c17 }

func c17list(s string) []string {
	if s == "." {
		return nil
	}
	var res []string
	for _, h := range strings.Split(s, ",") {
		res = append(res, string(unhex(h)))
	}
	return res
}

func c17(w []string) string {
	if w[0] != "G" || len(w) < 5 {
		return "?"
	}
	replicas := int(atoi(w[1]))
	mod := uint32(atou(w[2]))
	seen := map[string]uint32{}
	var order []string
	fn := func(data []byte) uint32 {
		h := crc32.ChecksumIEEE(data)
		if mod > 0 {
			h %= mod
		}
		k := string(data)
		if _, ok := seen[k]; !ok {
			seen[k] = h
			order = append(order, k)
		}
		return h
	}
	ring := ringhash.New(replicas, fn)
	var def *ringhash.Ring
	if mod == 0 {
		// the same ring with the package's own default hash function
		def = ringhash.New(replicas, nil)
	}
	if w[3] != "_" {
		for _, g := range strings.Split(w[3], ";") {
			names := c17list(g)
			ring.Add(names...)
			if def != nil {
				def.Add(names...)
			}
		}
	}
	sig := ring.Signature()
	var gets []string
	for _, k := range c17list(w[4]) {
		g := ring.Get(k)
		if def != nil && def.Get(k) != g {
			return "DEFAULT-HASH-DIFFERS get " + tohex([]byte(k))
		}
		gets = append(gets, tohex([]byte(g)))
	}
	if def != nil && def.Signature() != sig {
		return "DEFAULT-HASH-DIFFERS signature"
	}
	var tbl []string
	for _, k := range order {
		tbl = append(tbl, tohex([]byte(k))+":"+strconv.FormatUint(uint64(seen[k]), 10))
	}
	gs, ts := ".", "."
	if len(gets) > 0 {
		gs = strings.Join(gets, ",")
	}
	if len(tbl) > 0 {
		ts = strings.Join(tbl, ",")
	}
	return "G " + tohex([]byte(sig)) + " " + gs + " T " + ts
}
