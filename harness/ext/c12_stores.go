// C12 driver, part 2: the real code and basic authenticators over in-memory
// fakes of store.PCache and store.Users (the authenticators reach the store
// only through these two package-level interface variables).
package main

import (
	"errors"
	"fmt"
	"regexp"
	"sort"
	"strconv"
	"strings"
	"time"
	"unicode/utf8"

	"golang.org/x/crypto/bcrypt"

	"github.com/tinode/chat/server/auth"
	_ "github.com/tinode/chat/server/auth/basic"
	_ "github.com/tinode/chat/server/auth/code"
	"github.com/tinode/chat/server/store"
	"github.com/tinode/chat/server/store/types"
)

// ---------------- persistent cache (contract of db/mysql PCache*) ----------------
type pcEntry struct {
	value   string
	created time.Time
}
type fakePCache struct {
	m    map[string]pcEntry
	skew time.Duration // logical time added to the wall clock
}

func (p *fakePCache) Get(key string) (string, error) {
	e, ok := p.m[key]
	if !ok {
		return "", types.ErrNotFound
	}
	return e.value, nil
}
func (p *fakePCache) Upsert(key, value string, failOnDuplicate bool) error {
	if strings.Contains(key, "%") {
		return types.ErrMalformed
	}
	if _, ok := p.m[key]; ok && failOnDuplicate {
		return types.ErrDuplicate
	}
	p.m[key] = pcEntry{value, time.Now().Add(p.skew)} // INSERT / REPLACE set createdat = now
	return nil
}
func (p *fakePCache) Delete(key string) error {
	delete(p.m, key)
	return nil
}
func (p *fakePCache) Expire(prefix string, olderThan time.Time) error {
	if prefix == "" {
		return types.ErrMalformed
	}
	lim := olderThan.Add(p.skew)
	for k, e := range p.m {
		if strings.HasPrefix(k, prefix) && e.created.Before(lim) {
			delete(p.m, k)
		}
	}
	return nil
}

func (p *fakePCache) dump() string {
	var rows []string
	for k, e := range p.m {
		parts := strings.Split(e.value, ":")
		if len(parts) == 3 {
			rows = append(rows, tohex([]byte(k))+"="+tohex([]byte(parts[0]))+"/"+parts[1]+"/"+
				strconv.FormatUint(uint64(types.ParseUid(parts[2])), 10))
		} else {
			rows = append(rows, tohex([]byte(k))+"=RAW/"+tohex([]byte(e.value)))
		}
	}
	if len(rows) == 0 {
		return "st:-"
	}
	sort.Strings(rows)
	return "st:" + strings.Join(rows, ";")
}

// C code_length expire_in max_retries op...
func c12Code(w []string) string {
	pc := &fakePCache{m: map[string]pcEntry{}}
	store.PCache = pc
	a := newAuthHandler("code")
	if err := a.Init([]byte(fmt.Sprintf(`{"code_length":%s,"expire_in":%s,"max_retries":%s}`, w[1], w[2], w[3])), "code"); err != nil {
		return "initerr |"
	}
	codeLen := int(atoi(w[1]))
	var res, aux []string
	for i, op := range w[4:] {
		f := strings.Split(op, ":")
		switch f[0] {
		case "G":
			cred := string(unhex(f[1]))
			rec := &auth.Rec{Uid: types.Uid(atou(f[2])), Lifetime: auth.Duration(atoi(f[3])), Credential: cred}
			code, _, err := a.GenSecret(rec)
			if err != nil {
				res = append(res, "G:err:"+errName(err))
				break
			}
			digits := len(code) == codeLen
			for _, c := range code {
				digits = digits && c >= '0' && c <= '9'
			}
			stored, _ := pc.Get(strings.ReplaceAll("code_"+cred, "%", "/"))
			res = append(res, fmt.Sprintf("G:ok:%d:%s:%s", len(code), b2s(digits), b2s(strings.HasPrefix(stored, string(code)+":0:"))))
			aux = append(aux, fmt.Sprintf("g%d=%s", i, tohex(code)))
		case "A", "S":
			var secret []byte
			if f[0] == "S" {
				secret = unhex(f[1])
			} else {
				cred := string(unhex(f[2]))
				right := strings.Repeat("0", codeLen)
				if v, err := pc.Get(strings.ReplaceAll("code_"+cred, "%", "/")); err == nil {
					right = strings.Split(v, ":")[0]
				}
				guess := right
				switch {
				case f[1] == "w":
					b := []byte(right)
					b[len(b)-1] = '0' + (b[len(b)-1]-'0'+1+byte(i%9))%10
					guess = string(b)
				case strings.HasPrefix(f[1], "x"):
					guess = string(unhex(f[1][1:]))
				}
				secret = []byte(guess + ":" + cred)
			}
			aux = append(aux, fmt.Sprintf("s%d=%s", i, tohex(secret)))
			rec, _, err := a.Authenticate(secret, "127.0.0.1")
			if err != nil {
				res = append(res, "A:err:"+errName(err))
			} else {
				res = append(res, fmt.Sprintf("A:ok:%d:%d:%d:%s", uint64(rec.Uid), int(rec.AuthLevel), uint16(rec.Features), tohex([]byte(rec.Credential))))
			}
		case "ADV":
			pc.skew += time.Duration(atoi(f[1])) * time.Second
			res = append(res, "ADV")
		default:
			panic("driver: bad code op " + op)
		}
	}
	return "C " + strings.Join(res, " ") + " " + pc.dump() + " | " + strings.Join(aux, " ")
}

// ---------------- auth table (contract of db/mysql Auth*) ----------------
type authRow struct {
	uid     types.Uid
	lvl     auth.Level
	secret  []byte
	expires time.Time
}
type fakeUsers struct {
	store.UsersPersistenceInterface // every other method: nil -> panic if the authenticator ever calls it
	rows                            map[string]*authRow // "scheme:login"
}

func (u *fakeUsers) GetAuthUniqueRecord(scheme, unique string) (types.Uid, auth.Level, []byte, time.Time, error) {
	r, ok := u.rows[scheme+":"+unique]
	if !ok {
		return types.ZeroUid, 0, nil, time.Time{}, nil
	}
	return r.uid, r.lvl, r.secret, r.expires, nil
}
func (u *fakeUsers) find(uid types.Uid, scheme string) (string, *authRow) {
	for k, r := range u.rows {
		if r.uid == uid && strings.HasPrefix(k, scheme+":") {
			return k, r
		}
	}
	return "", nil
}
func (u *fakeUsers) GetAuthRecord(uid types.Uid, scheme string) (string, auth.Level, []byte, time.Time, error) {
	k, r := u.find(uid, scheme)
	if r == nil {
		return "", 0, nil, time.Time{}, types.ErrNotFound
	}
	return strings.SplitN(k, ":", 2)[1], r.lvl, r.secret, r.expires, nil
}
func (u *fakeUsers) AddAuthRecord(uid types.Uid, lvl auth.Level, scheme, unique string, secret []byte, expires time.Time) error {
	if _, ok := u.rows[scheme+":"+unique]; ok {
		return types.ErrDuplicate
	}
	if _, r := u.find(uid, scheme); r != nil {
		return types.ErrDuplicate
	}
	u.rows[scheme+":"+unique] = &authRow{uid, lvl, secret, expires}
	return nil
}
func (u *fakeUsers) UpdateAuthRecord(uid types.Uid, lvl auth.Level, scheme, unique string, secret []byte, expires time.Time) error {
	k, r := u.find(uid, scheme)
	if r == nil {
		return nil // UPDATE of no rows
	}
	nk := scheme + ":" + unique
	if nk != k {
		if _, ok := u.rows[nk]; ok {
			return types.ErrDuplicate
		}
		delete(u.rows, k)
	}
	u.rows[nk] = &authRow{uid, lvl, secret, expires}
	return nil
}
func (u *fakeUsers) dump() string {
	var rows []string
	for k, r := range u.rows {
		rows = append(rows, fmt.Sprintf("%s=%d/%d/%s", tohex([]byte(strings.SplitN(k, ":", 2)[1])), uint64(r.uid), int(r.lvl), b2s(!r.expires.IsZero())))
	}
	if len(rows) == 0 {
		return "st:-"
	}
	sort.Strings(rows)
	return "st:" + strings.Join(rows, ";")
}

// copy of the policy of auth_basic.go (the model takes the policy verdict as a given)
var c12LoginPattern = regexp.MustCompile(`^[\pL\pN][_.\pL\pN]*[\pL\pN]+$`)

// c12BcryptClassE names a bcrypt error the way coq/Pure/Basic.v (bcerr) does.
func c12BcryptClassE(err error) string {
	var pe bcrypt.InvalidHashPrefixError
	var ve bcrypt.HashVersionTooNewError
	var ce bcrypt.InvalidCostError
	var ne *strconv.NumError
	switch {
	case err == nil:
		return "none"
	case errors.Is(err, bcrypt.ErrHashTooShort):
		return "short"
	case errors.As(err, &pe):
		return "prefix"
	case errors.As(err, &ve):
		return "version"
	case errors.As(err, &ne):
		return "costsyntax"
	case errors.As(err, &ce):
		return "costrange"
	}
	return "other"
}

// c12BcryptRefE is the driver's own reference for "the stored bytes match the password":
// golang.org/x/crypto/bcrypt called directly, three-valued: m (nil) / x (mismatch) / e-<class>.
var c12BcryptCacheE = map[string]string{}

func c12BcryptRefE(stored, pw []byte) string {
	k := tohex(stored) + ":" + tohex(pw)
	if v, ok := c12BcryptCacheE[k]; ok {
		return v
	}
	err := bcrypt.CompareHashAndPassword(stored, pw)
	v := "e-" + c12BcryptClassE(err)
	if err == nil {
		v = "m"
	} else if errors.Is(err, bcrypt.ErrMismatchedHashAndPassword) {
		v = "x"
	}
	c12BcryptCacheE[k] = v
	return v
}

// B min_login_length min_password_length op...
func c12Basic(w []string) string {
	us := &fakeUsers{rows: map[string]*authRow{}}
	store.Users = us
	a := newAuthHandler("basic")
	if err := a.Init([]byte(fmt.Sprintf(`{"add_to_tags":true,"min_login_length":%s,"min_password_length":%s}`, w[1], w[2])), "basic"); err != nil {
		return "initerr |"
	}
	minLogin, minPw := int(atoi(w[1])), int(atoi(w[2]))
	if minLogin <= 0 {
		minLogin = 2
	}
	if minPw <= 0 {
		minPw = 3
	}
	var res, aux []string
	seen := map[string]bool{}
	note := func(secret []byte) {
		s := string(secret)
		i := strings.Index(s, ":")
		if i < 0 || seen[s] {
			return
		}
		seen[s] = true
		low := strings.ToLower(s[:i])
		n := utf8.RuneCountInString(low)
		lok := n >= minLogin && n <= 32 && c12LoginPattern.MatchString(low)
		pok := utf8.RuneCountInString(s[i+1:]) >= minPw
		aux = append(aux, fmt.Sprintf("lo=%s:%s:%s:%s", tohex(secret), tohex([]byte(low)), b2s(lok), b2s(pok)))
	}
	bcSeen := map[string]bool{}
	storedOf := func(i int, uid types.Uid) {
		if _, r := us.find(uid, "basic"); r != nil {
			aux = append(aux, fmt.Sprintf("h%d=%s", i, tohex(r.secret)))
		}
	}
	for i, op := range w[3:] {
		f := strings.Split(op, ":")
		switch f[0] {
		case "ADD":
			secret := unhex(f[3])
			note(secret)
			rec, err := a.AddRecord(&auth.Rec{Uid: types.Uid(atou(f[1])), AuthLevel: auth.Level(atoi(f[2])), Lifetime: auth.Duration(atoi(f[4]))}, secret, "")
			if err != nil {
				res = append(res, "ADD:err:"+errName(err))
			} else {
				res = append(res, fmt.Sprintf("ADD:ok:%d", int(rec.AuthLevel)))
				storedOf(i, types.Uid(atou(f[1])))
			}
		case "RAW": // RAW:uid:hex|-|nil  the store anomaly: the secret column of the user's row holds these bytes
			var raw []byte
			if f[2] != "nil" {
				raw = unhex(f[2])
			}
			if _, r := us.find(types.Uid(atou(f[1])), "basic"); r == nil {
				res = append(res, "RAW:err:notfound")
			} else {
				r.secret = raw
				_, herr := bcrypt.Cost(raw) // newFromHash alone
				res = append(res, "RAW:ok:"+c12BcryptClassE(herr))
			}
		case "AUTH":
			secret := unhex(f[1])
			note(secret)
			// the reference, computed before and independently of the authenticator under test
			ref := "norow"
			if k := strings.Index(string(secret), ":"); k >= 0 {
				if r, ok := us.rows["basic:"+strings.ToLower(string(secret[:k]))]; ok {
					ref = c12BcryptRefE(r.secret, secret[k+1:])
					e := tohex(r.secret) + ":" + tohex(secret[k+1:]) + ":" + ref
					if !bcSeen[e] {
						bcSeen[e] = true
						aux = append(aux, "bc="+e)
					}
				}
			}
			aux = append(aux, fmt.Sprintf("ref%d=%s", i, ref))
			rec, _, err := a.Authenticate(secret, "")
			if err != nil {
				res = append(res, "AUTH:err:"+errName(err))
			} else {
				res = append(res, fmt.Sprintf("AUTH:ok:%d:%d", uint64(rec.Uid), int(rec.AuthLevel)))
			}
		case "UPD":
			secret := unhex(f[2])
			note(secret)
			_, err := a.UpdateRecord(&auth.Rec{Uid: types.Uid(atou(f[1])), Lifetime: auth.Duration(atoi(f[3]))}, secret, "")
			if err != nil {
				res = append(res, "UPD:err:"+errName(err))
			} else {
				res = append(res, "UPD:ok")
				storedOf(i, types.Uid(atou(f[1])))
			}
		case "ADV":
			d := time.Duration(atoi(f[1])) * time.Second
			for _, r := range us.rows {
				if !r.expires.IsZero() {
					r.expires = r.expires.Add(-d)
				}
			}
			res = append(res, "ADV")
		default:
			panic("driver: bad basic op " + op)
		}
	}
	return "B " + strings.Join(res, " ") + " " + us.dump() + " | " + strings.Join(aux, " ")
}

// LOWER lo hi: number of code points r in [lo,hi) (and of single bytes) on which
// strings.ToLower is not idempotent - the hypothesis of the login uniqueness theorem
func c12Lower(w []string) string {
	bad := 0
	first := ""
	for r := rune(atoi(w[1])); r < rune(atoi(w[2])); r++ {
		for _, s := range []string{string(r), "a" + string(r) + "B", string([]byte{byte(r & 0xff)})} {
			l := strings.ToLower(s)
			if strings.ToLower(l) != l {
				bad++
				if first == "" {
					first = tohex([]byte(s))
				}
			}
		}
	}
	return fmt.Sprintf("LOWER %d %s |", bad, first)
}
