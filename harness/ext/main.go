// Driver for the importable packages of tinode/chat (types, ringhash, auth, ...).
// ext <property>: reads requests on stdin, one per line, prints the
// implementation's answers, one per line, in the same format as the model runner.
package main

import (
	"bufio"
	"fmt"
	"os"
	"strings"
)

type handler func(w []string) string

var handlers = map[string]handler{}

func main() {
	if len(os.Args) < 2 {
		fmt.Fprintln(os.Stderr, "usage: ext <property>")
		os.Exit(2)
	}
	h, ok := handlers[os.Args[1]]
	if !ok {
		fmt.Fprintln(os.Stderr, "unknown property", os.Args[1])
		os.Exit(2)
	}
	in := bufio.NewScanner(os.Stdin)
	in.Buffer(make([]byte, 1<<20), 1<<26)
	out := bufio.NewWriterSize(os.Stdout, 1<<20)
	defer out.Flush()
	for in.Scan() {
		w := strings.Fields(in.Text())
		out.WriteString(safe(h, w))
		out.WriteByte('\n')
	}
}

// safe runs the handler; a panic in the code under test is an answer, not a crash of the driver.
func safe(h handler, w []string) (res string) {
	defer func() {
		if r := recover(); r != nil {
			res = fmt.Sprintf("PANIC %v", r)
			res = strings.ReplaceAll(res, "\n", " ")
		}
	}()
	return h(w)
}
