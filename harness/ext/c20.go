package main

import (
	"sync"
	"encoding/binary"
	"strconv"

	"github.com/tinode/chat/server/store/types"
	"golang.org/x/crypto/xtea"
)

// C20: Uid codecs, prefixed forms, group/channel names, p2p names, database form.
// Numbers travel as decimal strings, byte strings as hex ("-" = empty).

var c20key = []byte("la6YsO+bNX/+XIkO")
var c20ug types.UidGenerator
var c20cipher *xtea.Cipher

func init() {
	handlers["c20"] = c20
	if err := c20ug.Init(1, c20key); err != nil {
		panic(err)
	}
	c20cipher, _ = xtea.NewCipher(c20key)
}

func u2s(u types.Uid) string { return strconv.FormatUint(uint64(u), 10) }

func c20(w []string) string {
	switch w[0] {
	case "S": // every spelling of one id
		u := types.Uid(atou(w[1]))
		js, _ := u.MarshalJSON()
		bin, _ := u.MarshalBinary()
		txt, _ := u.MarshalText()
		return "S " + tohex([]byte(u.String())) + " " + tohex(txt) + " " + tohex([]byte(u.String32())) + " " +
			tohex([]byte(u.UserId())) + " " + tohex([]byte(u.FndName())) + " " + tohex(js) + " " + tohex(bin) +
			" " + tohex([]byte(u.PrefixId("grp")))
	case "RT": // round trips computed by the implementation alone
		u := types.Uid(atou(w[1]))
		var j types.Uid
		js, _ := u.MarshalJSON()
		jerr := j.UnmarshalJSON(js)
		var b types.Uid
		bin, _ := u.MarshalBinary()
		berr := b.UnmarshalBinary(bin)
		return "RT " + u2s(types.ParseUid(u.String())) + " " + u2s(types.ParseUserId(u.UserId())) + " " +
			u2s(j) + " " + b2s(jerr == nil) + " " + u2s(types.ParseUid32(u.String32())) + " " +
			u2s(b) + " " + b2s(berr == nil)
	case "PU":
		return "PU " + u2s(types.ParseUid(string(unhex(w[1]))))
	case "PI":
		return "PI " + u2s(types.ParseUserId(string(unhex(w[1]))))
	case "UT":
		u := types.Uid(atou(w[1]))
		err := u.UnmarshalText(unhex(w[2]))
		return "UT " + u2s(u) + " " + b2s(err == nil)
	case "UJ":
		u := types.Uid(atou(w[1]))
		err := u.UnmarshalJSON(unhex(w[2]))
		return "UJ " + u2s(u) + " " + b2s(err == nil)
	case "UB":
		u := types.Uid(atou(w[1]))
		err := u.UnmarshalBinary(unhex(w[2]))
		return "UB " + u2s(u) + " " + b2s(err == nil)
	case "P32":
		return "P32 " + u2s(types.ParseUid32(string(unhex(w[1]))))
	case "GC":
		s := string(unhex(w[1]))
		return "GC " + tohex([]byte(types.GrpToChn(s))) + " " + tohex([]byte(types.ChnToGrp(s))) + " " + b2s(types.IsChannel(s)) +
			" " + tohex([]byte(types.ChnToGrp(types.GrpToChn(s)))) + " " + tohex([]byte(types.GrpToChn(types.ChnToGrp(s)))) +
			" " + b2s(types.IsChannel(types.GrpToChn(s)))
	case "P2": // name of the pair, parsed back, and as seen by each of the two
		a, b := types.Uid(atou(w[1])), types.Uid(atou(w[2]))
		name := a.P2PName(b)
		u1, u2, err := types.ParseP2P(name)
		fa, erra := types.P2PNameForUser(a, name)
		fb, errb := types.P2PNameForUser(b, name)
		return "P2 " + tohex([]byte(name)) + " " + u2s(u1) + " " + u2s(u2) + " " + b2s(err == nil) + " " +
			b2s(erra == nil) + " " + tohex([]byte(fa)) + " " + b2s(errb == nil) + " " + tohex([]byte(fb)) +
			" " + tohex([]byte(a.UserId())) + " " + tohex([]byte(b.UserId()))
	case "PP":
		u1, u2, err := types.ParseP2P(string(unhex(w[1])))
		return "PP " + u2s(u1) + " " + u2s(u2) + " " + b2s(err == nil)
	case "PF":
		s, err := types.P2PNameForUser(types.Uid(atou(w[1])), string(unhex(w[2])))
		return "PF " + b2s(err == nil) + " " + tohex([]byte(s))
	case "DBR": // DecodeUid then EncodeInt64 (the hex words are the cipher's answers, for the model)
		u := types.Uid(atou(w[1]))
		z := c20ug.DecodeUid(u)
		return "DBR " + strconv.FormatInt(z, 10) + " " + u2s(c20ug.EncodeInt64(z))
	case "EIR": // EncodeInt64 then DecodeUid
		z := atoi(w[1])
		u := c20ug.EncodeInt64(z)
		return "EIR " + u2s(u) + " " + strconv.FormatInt(c20ug.DecodeUid(u), 10)
	case "DBC": // database-form round trips from several goroutines at once (the generator is one shared value in the server)
		n, base := int(atou(w[1])), atou(w[2])
		bad := make(chan uint64, 64)
		var wg sync.WaitGroup
		for g := 0; g < 8; g++ {
			wg.Add(1)
			go func(g int) {
				defer wg.Done()
				for i := 0; i < n; i++ {
					u := types.Uid(base + uint64(g)*0x9e3779b97f4a7c15 + uint64(i)*0x100000001b3)
					if c20ug.EncodeInt64(c20ug.DecodeUid(u)) != u {
						select {
						case bad <- uint64(u):
						default:
						}
						return
					}
				}
			}(g)
		}
		wg.Wait()
		close(bad)
		if u, ok := <-bad; ok {
			return "DBC bad " + strconv.FormatUint(u, 10)
		}
		return "DBC ok"
	case "XE", "XD": // the external cipher on one 8-byte block (oracle for the model's section variable)
		src := unhex(w[1])
		dst := make([]byte, 8)
		if w[0] == "XE" {
			c20cipher.Encrypt(dst, src)
		} else {
			c20cipher.Decrypt(dst, src)
		}
		return w[0] + " " + tohex(dst)
	case "LE": // little-endian layout alone
		b := make([]byte, 8)
		binary.LittleEndian.PutUint64(b, atou(w[1]))
		return "LE " + tohex(b)
	}
	return "?"
}
