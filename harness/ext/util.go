package main

import (
	"encoding/hex"
	"strconv"
)

func unhex(h string) []byte {
	if h == "-" {
		return []byte{}
	}
	b, err := hex.DecodeString(h)
	if err != nil {
		panic("driver: bad hex " + h)
	}
	return b
}

func tohex(b []byte) string {
	if len(b) == 0 {
		return "-"
	}
	return hex.EncodeToString(b)
}

func atou(s string) uint64 {
	v, err := strconv.ParseUint(s, 10, 64)
	if err != nil {
		panic("driver: bad uint " + s)
	}
	return v
}

func atoi(s string) int64 {
	v, err := strconv.ParseInt(s, 10, 64)
	if err != nil {
		panic("driver: bad int " + s)
	}
	return v
}

func b2s(b bool) string {
	if b {
		return "1"
	}
	return "0"
}
