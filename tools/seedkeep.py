#!/usr/bin/env python3
"""Keep a confirmed seeded change: tools/seedkeep.py <candidate dir> <seeded id>
Runs tools/seedverify.py; on success copies patch.diff + the demonstration into
/verif/seeded/<id>/ and writes meta.json (property, what it needs to manifest, what was run)."""
import json, os, shutil, subprocess, sys
ROOT = os.path.dirname(os.path.dirname(os.path.abspath(__file__)))
src, sid = os.path.abspath(sys.argv[1]), sys.argv[2]
p = subprocess.run(["python3", os.path.join(ROOT, "tools", "seedverify.py"), src], stdout=subprocess.PIPE, text=True)
res = json.loads(p.stdout)
if not res.get("confirmed"):
    print("NOT CONFIRMED", json.dumps(res, indent=1)); sys.exit(1)
notes = json.load(open(os.path.join(src, "notes.json")))
dst = os.path.join(ROOT, "seeded", sid)
os.makedirs(dst, exist_ok=True)
shutil.copy(os.path.join(src, "patch.diff"), dst)
demos = [f for f in os.listdir(src) if f.endswith(".go")]
for f in demos:
    shutil.copy(os.path.join(src, f), os.path.join(dst, f + ".txt"))   # .txt: never compiled by accident
meta = {"id": sid, "property": notes.get("property"), "summary": notes.get("summary"),
        "clause_broken": notes.get("clause_broken"), "needs_to_manifest": notes.get("needs_to_manifest"),
        "files_touched": notes.get("files_touched"),
        "demo_files": [f + ".txt" for f in demos],
        "demo_path_in_tree": (notes.get("demo_path_in_tree") or "").split(" ")[0],
        "demo_cmd": notes.get("demo_cmd"),
        "origin": "independent sub-agent given only the property text and a scratch worktree of /repo",
        "confirmed_by": "tools/seedverify.py in a scratch worktree: demo passes on HEAD; patch applies; go build ok; existing tests pass; demo fails with the patch",
        "verify_result": {k: res[k] for k in ("demo_without_patch", "existing_tests_with_patch", "demo_with_patch", "demo_with_patch_tail") if k in res},
        "detected_by": []}
old = os.path.join(dst, "meta.json")
if os.path.exists(old):
    meta["detected_by"] = json.load(open(old)).get("detected_by", [])
json.dump(meta, open(old, "w"), indent=1)
print("kept", dst)
