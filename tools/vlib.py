"""Shared machinery of the checks: building the Coq development, the model
runner and the Go drivers from /repo's current tree, running them, recording
violations, matching known findings, writing evidence."""
import glob
import hashlib
import json
import os
import random
import re
import subprocess
import sys
import time

ROOT = os.path.dirname(os.path.dirname(os.path.abspath(__file__)))
REPO = os.environ.get("VERIF_REPO", "/repo")
BUILD = os.path.join(ROOT, "build")
COQ = os.path.join(ROOT, "coq")

GOENV = dict(os.environ, GOFLAGS="-mod=mod", GOPROXY="off", GOSUMDB="off",
             GOTOOLCHAIN="local", CGO_ENABLED="0")

KERNEL_TB = [
    "Coq 8.16.1 kernel (coqc); vm_compute used in finite sweeps and per-run obligations; native_compute not used",
    "no Axiom/Parameter/Admitted in /verif/coq (grep in every run); Print Assumptions output of every property theorem recorded below",
    "extraction: Require Extraction + ExtrOcamlBasic only (bool, option, unit, list, prod, sumbool); N/Z/positive/nat stay extracted inductives; OCaml 4.13.1; harness/runner/*.ml glue",
]


def sh(cmd, cwd=None, env=None, timeout=None, input=None):
    p = subprocess.run(cmd, shell=isinstance(cmd, str), cwd=cwd, env=env, timeout=timeout,
                       input=input, stdout=subprocess.PIPE, stderr=subprocess.STDOUT, text=True)
    return p.returncode, p.stdout


def newest(patterns):
    t = 0
    for pat in patterns:
        for f in glob.glob(pat, recursive=True):
            t = max(t, os.path.getmtime(f))
    return t


# Per-run obligations over models REGENERATED from the tree under test by a translator of
# tools/pregen.d/ (coq/Gen/*.v).  They are re-checked, together with Props/Prop<id>.v, by the check of
# every property listed here (the slice models of these properties use the AccessMode predicates).
GEN_OBLIGATIONS = {p: ["Gen/ObAcsPred.v"] for p in
                   ("C01", "C02", "C03", "C04", "C05", "C06", "C07", "C08", "C09", "C10", "C16")}


class Ctx:
    def __init__(self, pid, tier, seed):
        self.pid = pid
        self.tier = tier
        self.seed = seed
        self.rng = random.Random(seed)
        self.t0 = time.time()
        self.violations = []      # dicts: kind, key, what, replay(obj)
        self.known_hits = []
        self.notes = []
        self.proof = None
        self.coverage = {}
        self.assumptions = []
        self.work = os.path.join(BUILD, "run", pid)
        os.makedirs(self.work, exist_ok=True)
        os.makedirs(os.path.join(ROOT, "evidence"), exist_ok=True)

    # ---------------- Coq ----------------
    def coq_build(self):
        """Incremental full .vo build of the development (no-op when up to date)."""
        sh("python3 %s" % os.path.join(ROOT, "tools", "gen_shared.py"))
        if not os.path.exists(os.path.join(COQ, "Makefile")):
            sh("coq_makefile -f _CoqProject -o Makefile", cwd=COQ)
        # a regenerated Gen/*.v invalidates the compiled files of Gen/ (so that a file which no longer
        # compiles cannot be satisfied by its stale .vo); -k: one property's broken obligation must not
        # stop the files of the other properties from being built
        gen = os.path.join(COQ, "Gen")
        stale = [f for f in glob.glob(os.path.join(gen, "*.v"))
                 if not os.path.exists(f + "o") or os.path.getmtime(f) > os.path.getmtime(f + "o")]
        if stale:
            for f in glob.glob(os.path.join(gen, "*.vo")) + glob.glob(os.path.join(gen, "*.vos")) + glob.glob(os.path.join(gen, "*.vok")):
                os.remove(f)
        rc, out = sh("timeout 3000 make -k -j16", cwd=COQ)
        open(os.path.join(self.work, "coq_build.log"), "w").write(out)
        return rc == 0, out

    def forbidden_scan(self):
        pat = re.compile(r"\b(Admitted|admit|Axiom|Axioms|Parameter|Parameters|Conjecture|Abort All)\b|Unset Guard|bypass_check|Admit Obligations|-type-in-type")
        bad = []
        for f in glob.glob(os.path.join(COQ, "**", "*.v"), recursive=True):
            txt = open(f).read()
            txt = re.sub(r"\(\*.*?\*\)", "", txt, flags=re.S)
            for i, line in enumerate(txt.split("\n")):
                if pat.search(line):
                    bad.append("%s:%d:%s" % (os.path.relpath(f, ROOT), i + 1, line.strip()))
        return bad

    def coq_props(self, extra_files=()):
        """Compile the development, then re-check Props/Prop<id>.v alone and read the
        Print Assumptions block under every theorem.  Returns a dict."""
        ok, out = self.coq_build()
        res = {"build_ok": ok, "theorems": [], "closed": [], "axioms": {}, "failed": None, "forbidden": self.forbidden_scan()}
        files = [os.path.join("Props", "Prop%s.v" % self.pid)] + list(extra_files)
        for g in GEN_OBLIGATIONS.get(self.pid, []):
            if g not in files:
                # a missing file (translator failed) is reported by coqc below
                files.append(g)
                self.coverage.setdefault("regenerated_models", []).append(
                    {"obligation": "coq/" + g, "translator": "harness/translators/gopure (tools/pregen.d/acspred.sh)",
                     "source": "server/store/types/types.go (AccessMode constants, predicates, BetterThan/BetterEqual)"})
        thm_re = re.compile(r"^\s*(Theorem|Lemma|Corollary)\s+([A-Za-z0-9_']+)", re.M)
        for f in files:
            if not os.path.exists(os.path.join(COQ, f)):
                continue        # reported by coqc below
            src = open(os.path.join(COQ, f)).read()
            names = thm_re.findall(re.sub(r"\(\*.*?\*\)", "", src, flags=re.S))
            res["theorems"] += [n for _, n in names]
        if not ok:
            # some file of the development does not compile.  It concerns THIS property only if one of its own
            # files (or something they import) is affected: that shows when they are re-checked below.
            m = re.search(r"File \"([^\"]+)\", line (\d+).*?\nError:(.*?)(?:\n\n|\Z)", out, re.S)
            res["other_failures"] = (m.group(0)[:1200] if m else out[-1200:])
        for f in files:
            rc, o = sh("timeout 1200 coqc -Q . Tinode %s" % f, cwd=COQ)
            open(os.path.join(self.work, os.path.basename(f) + ".log"), "w").write(o)
            if rc != 0:
                res["failed"] = o[-2000:] + ("\n(full build: " + res["other_failures"] + ")" if res.get("other_failures") else "")
                break
            # Print Assumptions output blocks appear in theorem order
            blocks = re.split(r"(?=Closed under the global context|Axioms:)", o)
            blocks = [b for b in blocks if b.startswith("Closed under") or b.startswith("Axioms:")]
            src = open(os.path.join(COQ, f)).read()
            printed = re.findall(r"Print Assumptions\s+([A-Za-z0-9_']+)", src)
            for name, b in zip(printed, blocks):
                if b.startswith("Closed under"):
                    res["closed"].append(name)
                else:
                    res["axioms"][name] = b.strip().split("\n")[1:]
            res["printed"] = res.get("printed", []) + printed
        if not ok and not res["failed"]:
            res["build_ok"] = True      # the failure is in files this property does not depend on
        if not res["failed"]:
            err = self.consts_obligation()
            if err:
                res["failed"] = "constants obligation: " + err
            else:
                if self.coverage.get("consts_tie"):
                    res["theorems"].append("consts_%s_ok" % self.pid.lower())
                    res["closed"].append("consts_%s_ok" % self.pid.lower())
        if self.tier == "thorough" and not res["failed"]:
            res["coqchk"] = self.coqchk(files)
            if not res["coqchk"]["ok"]:
                res["failed"] = "coqchk rejects the compiled development: " + res["coqchk"]["summary"][-1500:]
        self.proof = res
        return res

    def coqchk(self, files):
        """Thorough tier: re-check the compiled property files and everything they depend on with
        the independent checker coqchk (-o prints the axioms).  One run per state of the .vo files."""
        h = hashlib.md5()
        for f in sorted(glob.glob(os.path.join(COQ, "**", "*.vo"), recursive=True)):
            h.update(f.encode())
            h.update(hashlib.md5(open(f, "rb").read()).digest())
        mods = ["Tinode." + f[:-2].replace("/", ".") for f in files]
        cdir = os.path.join(BUILD, "coqchk")
        os.makedirs(cdir, exist_ok=True)
        cache = os.path.join(cdir, "%s-%s.txt" % (self.pid, h.hexdigest()[:16]))
        cmd = "coqchk -silent -o -Q . Tinode " + " ".join(mods)
        t0 = time.time()
        if os.path.exists(cache):
            out, cached = open(cache).read(), True
        else:
            rc, out = sh("timeout 5400 " + cmd, cwd=COQ)
            out = "exit=%d\n" % rc + out
            cached = False
            if rc == 0:
                open(cache, "w").write(out)
        ok = out.startswith("exit=0")
        m = re.search(r"\* Axioms:(.*?)\n\s*\n\* Constants/Inductives relying on type-in-type", out, re.S)
        axioms = " ".join(m.group(1).split()) if m else "?"
        bad = ok and not ("type-in-type: <none>" in out and "unsafe (co)fixpoints: <none>" in out and "positivity is assumed: <none>" in out)
        return {"ok": ok and not bad, "cmd": cmd, "axioms": axioms, "cached": cached, "wall_s": round(time.time() - t0, 1),
                "summary": out[-1200:]}

    def consts_obligation(self):
        """Constants tie (translator-style, regenerated on every run): the numeric constants this property's
        models copy from the Go code (tools/consts_map.json) are read from the tree under test through the
        package-main driver and compared INSIDE Coq with the model's definitions (a generated file with one
        theorem, compiled with coqc against the built development).  Returns None or an error text."""
        mp = os.path.join(ROOT, "tools", "consts_map.json")
        if not os.path.exists(mp):
            return None
        ents = json.load(open(mp)).get(self.pid)
        if not ents:
            return None
        ok, out = self.build_main()
        if not ok:
            return None          # the plugin reports the broken harness build itself
        rc, ans, log = self.run_main_lines("consts", ["K " + e[2] for e in ents])
        if rc != 0 or len(ans) != len(ents):
            return "constants driver failed: " + log[-600:]
        vals = {}
        for a in ans:
            w = a.split()
            if len(w) == 3 and w[2] != "?":
                vals[w[1]] = int(w[2])
        lines = ["(* GENERATED by tools/vlib.py consts_obligation from the tree under test *)",
                 "From Coq Require Import NArith ZArith Bool.", ""]
        conj = []
        for q, ty, g in ents:
            if g not in vals:
                return "Go constant %s is not reported by the driver (zz_verif_consts_test.go)" % g
            mod = q.rsplit(".", 1)[0]
            lines.append("Require %s." % mod)
            conj.append("(%s.eqb (%s : %s) %d%%%s)" % (ty, q, ty, vals[g], ty))
        lines.append("Theorem consts_%s_ok : %s = true." % (self.pid.lower(), " && ".join(conj)))
        lines.append("Proof. vm_compute. reflexivity. Qed.")
        f = os.path.join(self.work, "ObConsts%s.v" % self.pid)
        open(f, "w").write("\n".join(lines) + "\n")
        rc, o = sh("timeout 600 coqc -Q %s Tinode -o %s %s" % (COQ, f + "o", f), cwd=self.work)
        self.coverage["consts_tie"] = {"constants": [[q, g, vals[g]] for q, _, g in ents], "ok": rc == 0}
        if rc != 0:
            bad = []
            for q, ty, g in ents:
                bad.append("%s vs %s=%d" % (q, g, vals[g]))
            return "a Go constant no longer has the value the model assumes (%s): %s" % ("; ".join(bad)[:900], o[-500:])
        return None

    def proof_ok(self):
        p = self.proof
        if p is None:
            return True
        if not p["build_ok"] or p["failed"] or p["forbidden"]:
            return False
        # every theorem must have its Print Assumptions and be closed or rely on stdlib axioms only
        for name, ax in p["axioms"].items():
            for a in ax:
                if "Tinode." in a:
                    return False
        return True

    # ---------------- builds ----------------
    def build_runner(self):
        runner = os.path.join(BUILD, "runner")
        src_t = newest([os.path.join(COQ, "**", "*.v"), os.path.join(ROOT, "harness", "runner", "*.ml")])
        if os.path.exists(runner) and os.path.getmtime(runner) >= src_t:
            return True, ""
        rc, out = sh(os.path.join(ROOT, "tools", "build_runner.sh"))
        return rc == 0, out

    def build_ext(self):
        d = os.path.join(ROOT, "harness", "ext")
        sh("cp %s/go.sum %s/go.sum" % (REPO, d))
        if REPO != "/repo":
            sh("go mod edit -replace github.com/tinode/chat=%s" % REPO, cwd=d, env=GOENV)
        rc, out = sh("timeout 900 go build -o %s ." % os.path.join(BUILD, "ext"), cwd=d, env=GOENV)
        open(os.path.join(self.work, "ext_build.log"), "w").write(out)
        return rc == 0, out

    def build_main(self, tags="verif"):
        """Build the package-main test binary from /repo's working tree with the overlay
        files of harness/overlay added virtually (nothing is written to /repo)."""
        ov = {}
        base = os.path.join(ROOT, "harness", "overlay")
        for dp, _, fs in os.walk(base):
            for f in fs:
                if f.endswith(".go"):
                    src = os.path.join(dp, f)
                    ov[os.path.join(REPO, os.path.relpath(src, base))] = src
        os.makedirs(BUILD, exist_ok=True)
        ovp = os.path.join(BUILD, "overlay.json")
        json.dump({"Replace": ov}, open(ovp, "w"), indent=1)
        out_bin = os.path.join(BUILD, "maindrv.test")
        rc, out = sh("timeout 1500 go test -c -o %s -vet=off -tags '%s' -overlay %s ." % (out_bin, tags, ovp),
                     cwd=os.path.join(REPO, "server"), env=GOENV)
        open(os.path.join(self.work, "main_build.log"), "w").write(out)
        return rc == 0, out

    def run_main_lines(self, prop, lines, timeout=3000):
        fin = os.path.join(self.work, "main_in.txt")
        fout = os.path.join(self.work, "main_out.txt")
        open(fin, "w").write("\n".join(lines) + "\n")
        if os.path.exists(fout):
            os.remove(fout)
        env = dict(GOENV, VERIF_PROP=prop, VERIF_IN=fin, VERIF_OUT=fout)
        p = subprocess.run([os.path.join(BUILD, "maindrv.test"), "-test.run", "^TestVerifLines$", "-test.count=1"],
                           stdout=subprocess.PIPE, stderr=subprocess.STDOUT, text=True, timeout=timeout, env=env,
                           cwd=os.path.join(REPO, "server"))
        out = open(fout).read().split("\n") if os.path.exists(fout) else []
        if out and out[-1] == "":
            out.pop()
        return p.returncode, out, p.stdout

    def run_lines(self, cmd, lines, timeout=3000, env=None, cwd=None):
        inp = "\n".join(lines) + "\n"
        p = subprocess.run(cmd, input=inp, stdout=subprocess.PIPE, stderr=subprocess.PIPE, text=True,
                           timeout=timeout, env=env, cwd=cwd)
        out = p.stdout.split("\n")
        if out and out[-1] == "":
            out.pop()
        return p.returncode, out, p.stderr

    def run_ext(self, prop, lines):
        return self.run_lines([os.path.join(BUILD, "ext"), prop], lines)

    def run_model(self, prop, lines):
        return self.run_lines([os.path.join(BUILD, "runner"), prop], lines)

    # ---------------- verdicts ----------------
    def violation(self, kind, key, what, replay):
        self.violations.append({"kind": kind, "key": key, "what": what, "replay": replay})

    def load_findings(self):
        res = []
        p = os.path.join(ROOT, "KNOWN_FINDINGS.txt")
        if os.path.exists(p):
            for line in open(p):
                m = re.match(r"finding:\s+property=(\S+)\s+key=(\S+)\s+(.*)", line.strip())
                if m:
                    res.append({"property": m.group(1), "key": m.group(2), "what": m.group(3)})
        return res

    def finish(self, level="proof", extra_assumptions=()):
        findings = [f for f in self.load_findings() if f["property"] == self.pid]
        fkeys = {f["key"]: f for f in findings}
        real = []
        hit = {}
        for v in self.violations:
            if v["key"] in fkeys:
                hit.setdefault(v["key"], []).append(v)
            else:
                real.append(v)
        wall = time.time() - self.t0
        cov = dict(self.coverage)
        p = self.proof
        if p is not None:
            obligations = len(p["theorems"]) + cov.pop("extra_obligations", 0)
            discharged = (len([t for t in p["theorems"] if t in p["closed"] or t in p["axioms"]]) if self.proof_ok() else 0)
            discharged += cov.pop("extra_discharged", 0)
            cov.update({
                "obligations": obligations, "discharged": discharged,
                "checker_cmd": "make -C coq (full .vo build) && coqc -Q . Tinode Props/Prop%s.v" % self.pid,
                "theorems": p["theorems"],
                "print_assumptions": {"closed_under_global_context": p["closed"], "axioms": p["axioms"]},
            })
            if p.get("coqchk"):
                cov["coqchk"] = {k: p["coqchk"][k] for k in ("ok", "cmd", "axioms", "cached", "wall_s")}
        cov.setdefault("trusted_base", [])
        cov["trusted_base"] = KERNEL_TB + cov["trusted_base"]
        if cov.get("regenerated_models"):
            cov["trusted_base"] = cov["trusted_base"] + [
                "translator harness/translators/gopure (go/parser AST -> Gallina for the AccessMode constants and expression-bodied "
                "predicates of server/store/types/types.go; Go's uint &, |, &^, ==, != read as N.land, N.lor, N.ldiff, N.eqb; fails closed: "
                "a function outside its grammar is emitted as *_untranslated and coq/Gen/ObAcsPred.v stops compiling)"]
        cov["known_findings_hit"] = sorted(hit.keys())
        ev = {
            "property_id": self.pid, "tier": self.tier, "seed": self.seed, "level": level,
            "coverage": cov, "assumptions": list(extra_assumptions) + self.assumptions,
            "wall_s": round(wall, 2), "violations": len(real),
        }
        if self.notes:
            ev["coverage"]["notes"] = self.notes
        json.dump(ev, open(os.path.join(ROOT, "evidence", "%s.json" % self.pid), "w"), indent=1, default=str)
        for k, vs in hit.items():
            print("KNOWN-FINDING: property=%s %s (%d failing cases this run, e.g. %s)" %
                  (self.pid, fkeys[k]["what"], len(vs), json.dumps(vs[0]["replay"], default=str)[:300]))
        if real:
            os.makedirs(os.path.join(ROOT, "replays", self.pid), exist_ok=True)
            # one replay file per distinct key; monitor failures (with a concrete input) first
            real.sort(key=lambda v: 0 if v["kind"] == "monitor" else 1)
            seen = set()
            for v in real:
                if v["key"] in seen:
                    continue
                seen.add(v["key"])
                path = os.path.join(ROOT, "replays", self.pid, "%s_%s.json" % (self.tier, re.sub(r"[^A-Za-z0-9_.-]", "_", v["key"])[:80]))
                same = [x for x in real if x["key"] == v["key"]]
                json.dump({"property": self.pid, "seed": self.seed, "kind": v["kind"], "key": v["key"], "what": v["what"],
                           "replay": v["replay"], "more_cases": [x["replay"] for x in same[1:20]], "count": len(same)},
                          open(path, "w"), indent=1, default=str)
                tail = "" if v["kind"] == "monitor" else " no-failing-input-found"
                print("%s: %s" % (v["kind"], v["what"][:500]))
                print("VIOLATION property=%s replay=%s%s" % (self.pid, path, tail))
            sys.exit(1)
        print("OK property=%s tier=%s wall=%.1fs" % (self.pid, self.tier, wall))
        sys.exit(0)


def proof_violation(ctx):
    """Turn a broken build / theorem / forbidden command into a violation record."""
    p = ctx.proof
    if p is None or ctx.proof_ok():
        return
    if p["forbidden"]:
        what = "forbidden command in development: " + "; ".join(p["forbidden"][:5])
    elif p["failed"]:
        what = "Coq development no longer checks: " + p["failed"]
    else:
        what = "property theorem depends on a project-declared axiom: %s" % p["axioms"]
    ctx.violation("proof", "proof-broken", what, {"theorem_or_obligation": what})


def distinct(items):
    return len(set(hashlib.md5(repr(i).encode()).hexdigest() for i in items))
