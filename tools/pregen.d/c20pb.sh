#!/bin/bash
# C20 part B: regenerate coq/Gen/GenPb.v and coq/Gen/ObC20pb.v from the tree under test ($VERIF_REPO or
# /repo): builds the package-main test binary with the overlay (as vlib.Ctx.build_main does), runs the
# reflection prober, evaluates the tables with coqc.  Skipped when the inputs are unchanged.  Never fails.
cd "$(dirname "$0")/../.." || exit 0
python3 tools/props/c20pblib.py regen || true
exit 0
