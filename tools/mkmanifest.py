#!/usr/bin/env python3
"""Regenerates MANIFEST.json from the table below (kept in one place so it is always valid)."""
import json, os
ROOT = os.path.dirname(os.path.dirname(os.path.abspath(__file__)))
BASE_TB = "Coq 8.16.1 kernel + vm_compute; no axioms declared; ExtrOcamlBasic extraction + OCaml runner; Go drivers and python comparator/monitors; see DESIGN.md section 3"
import glob
CHECKS = {}
for f in sorted(glob.glob(os.path.join(ROOT, "tools", "props", "*.manifest.json"))):
    CHECKS[os.path.basename(f).split(".")[0].upper()] = json.load(open(f))
def main():
    checks = []
    for pid in sorted(CHECKS):
        c = CHECKS[pid]
        checks.append({
            "property_id": pid,
            "quick_cmd": "python3 tools/check.py %s --tier quick" % pid,
            "thorough_cmd": "python3 tools/check.py %s --tier thorough" % pid,
            "evidence_file": "/verif/evidence/%s.json" % pid,
            "replay_cmd_template": "python3 tools/check.py %s --replay {path}" % pid,
            "engine": "coq+corr",
            "level_claimed": {"category": "proof", "text": c["text"], "design_ref": "DESIGN.md " + c["design"]},
            "level_note": c["note"].replace("{BASE}", BASE_TB),
            "technique": c["technique"],
        })
    allp = ["C%02d" % i for i in range(1, 21)]
    na = [{"property_id": p, "reason": "not yet built in this round; planned (DESIGN.md section 9), not a limit of the technique"} for p in allp if p not in CHECKS]
    m = {
        "version": 1,
        "setup_cmd": "make -C /verif setup",
        "hooks": {"guard": "verif", "enable": "go test -vet=off -tags verif -overlay /verif/build/overlay.json (overlay adds files virtually; nothing is committed to /repo)",
                  "baseline_off_cmd": "cd /repo && go test -mod=mod -json -vet=off -count=1 -timeout 25m ./...",
                  "source_commits": [], "add_only": True},
        "engines": [{"name": "coq+corr", "path": "/verif/tools/check.py", "serves_properties": sorted(CHECKS),
                     "kind_free_text": "Coq 8.16 theorems about executable Gallina models + extraction-based correspondence check against the Go code built from /repo"}],
        "checks": checks,
        "not_applicable": na,
        "notes": "fix: commits in /repo are listed in KNOWN_FINDINGS.txt (fixed: lines).",
    }
    json.dump(m, open(os.path.join(ROOT, "MANIFEST.json"), "w"), indent=1)
if __name__ == "__main__":
    main()
