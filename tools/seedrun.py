#!/usr/bin/env python3
"""Run checks of THIS copy of the framework against a patched scratch copy of tinode/chat.

  python3 tools/seedrun.py <patch.diff | seeded/<id> dir> <PID> [<PID> ...] [--tier quick]

A scratch `git worktree` of /repo is created under /tmp, the patch is applied there, every
listed check runs with VERIF_REPO pointing at it, and the worktree is removed again.  /repo
itself is never touched.  Prints one line per check: `<PID> exit=<rc> <last verdict lines>`
and writes the full output to build/seedrun/<name>/<PID>.log.  Exit status 0 iff at least
one check reported a VIOLATION (i.e. the seeded change was caught)."""
import os
import subprocess
import sys

ROOT = os.path.dirname(os.path.dirname(os.path.abspath(__file__)))


def main():
    args = [a for a in sys.argv[1:] if not a.startswith("--")]
    tier = "quick"
    if "--tier" in sys.argv:
        tier = sys.argv[sys.argv.index("--tier") + 1]
        args = [a for a in args if a != tier]
    src, pids = args[0], args[1:]
    patch = os.path.join(src, "patch.diff") if os.path.isdir(src) else src
    patch = os.path.abspath(patch)
    name = os.path.basename(os.path.dirname(patch)) + "_" + os.path.basename(os.path.dirname(os.path.dirname(patch)))
    name = name.replace("/", "_") + "_%d" % os.getpid()
    wt = "/tmp/seed_" + name
    subprocess.run(["git", "-C", "/repo", "worktree", "add", "-f", "--detach", wt, "HEAD"], stdout=subprocess.DEVNULL, stderr=subprocess.DEVNULL)
    caught = False
    try:
        r = subprocess.run(["git", "-C", wt, "apply", patch], stdout=subprocess.PIPE, stderr=subprocess.STDOUT, text=True)
        if r.returncode != 0:
            print("PATCH DOES NOT APPLY: " + r.stdout.strip())
            return 2
        logd = os.path.join(ROOT, "build", "seedrun", name)
        os.makedirs(logd, exist_ok=True)
        for pid in pids:
            env = dict(os.environ, VERIF_REPO=wt, GOFLAGS="-mod=mod", GOPROXY="off", GOSUMDB="off", GOTOOLCHAIN="local")
            p = subprocess.run(["python3", os.path.join(ROOT, "tools", "check.py"), pid, "--tier", tier],
                               cwd=ROOT, env=env, stdout=subprocess.PIPE, stderr=subprocess.STDOUT, text=True)
            open(os.path.join(logd, pid + ".log"), "w").write(p.stdout)
            lines = [l for l in p.stdout.split("\n") if l.startswith("VIOLATION") or l.startswith("OK ")]
            if any(l.startswith("VIOLATION") for l in lines):
                caught = True
            # the line before each VIOLATION says what failed
            out = p.stdout.split("\n")
            what = [out[i - 1][:260] for i, l in enumerate(out) if l.startswith("VIOLATION") and i > 0]
            print("%s exit=%d %s" % (pid, p.returncode, " | ".join(lines)[:600]))
            for w in what[:4]:
                print("    " + w)
    finally:
        subprocess.run(["git", "-C", ROOT, "checkout", "--", "harness/ext/go.mod"], stdout=subprocess.DEVNULL, stderr=subprocess.DEVNULL)
        subprocess.run(["git", "-C", "/repo", "worktree", "remove", "--force", wt], stdout=subprocess.DEVNULL, stderr=subprocess.DEVNULL)
        subprocess.run(["git", "-C", "/repo", "worktree", "prune"], stdout=subprocess.DEVNULL, stderr=subprocess.DEVNULL)
    return 0 if caught else 1


if __name__ == "__main__":
    sys.exit(main())
