#!/usr/bin/env python3
"""Evaluate every kept seeded change against the check of its property.

  python3 tools/seedall.py --root <copy of the framework to run in> --label <text> [--shard i/n] [--only C01-1,...] [--extra C09-2:C02]

The checks run in <root> (an up-to-date worktree of /verif with its own build/), against a scratch
worktree of /repo with the patch applied (tools/seedrun.py); the verdict is appended to
/verif/seeded/<id>/meta.json under "detected_by"."""
import json, os, re, subprocess, sys
HERE = os.path.dirname(os.path.dirname(os.path.abspath(__file__)))
def arg(n, d=None):
    return sys.argv[sys.argv.index(n) + 1] if n in sys.argv else d
root = arg("--root", HERE)
label = arg("--label", "evaluation")
shard = arg("--shard", "0/1")
only = arg("--only")
extra = dict(x.split(":") for x in (arg("--extra", "") or "").split(",") if x)
i, n = map(int, shard.split("/"))
ids = sorted(d for d in os.listdir(os.path.join(HERE, "seeded")) if os.path.isdir(os.path.join(HERE, "seeded", d)))
if only:
    ids = [x for x in ids if x in only.split(",")]
for k, sid in enumerate(ids):
    if k % n != i:
        continue
    mp = os.path.join(HERE, "seeded", sid, "meta.json")
    meta = json.load(open(mp))
    pids = [meta["property"]] + ([extra[sid]] if sid in extra else []) + meta.get("also_check", [])
    p = subprocess.run(["python3", os.path.join(root, "tools", "seedrun.py"), os.path.join(HERE, "seeded", sid, "patch.diff")] + pids,
                       cwd=root, stdout=subprocess.PIPE, stderr=subprocess.STDOUT, text=True)
    out = p.stdout.strip().split("\n")
    laws = []
    for l in out:
        m = re.search(r"replay=\S+/(?:quick|thorough)_([^ .]+)\.json( no-failing-input-found)?", l)
        for m in re.finditer(r"replay=\S+/(?:quick|thorough)_([^ ]+?)\.json( no-failing-input-found)?", l):
            laws.append(m.group(1) + (" (no-failing-input-found)" if m.group(2) else ""))
    caught = p.returncode == 0
    res = ("caught by %s: %s" % ("+".join(pids), ", ".join(sorted(set(laws))))) if caught else "MISSED by the quick check of " + "+".join(pids)
    meta.setdefault("detected_by", []).append({"round": label, "result": res})
    json.dump(meta, open(mp, "w"), indent=1)
    print(sid, res[:200], flush=True)
