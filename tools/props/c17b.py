"""C17 part D: directed election scripts, client requests on the nodes of the election driver,
and the laws of the health-check branch / the partition guard evaluated on the IMPLEMENTATION's
trace (theorems: coq/Props/PropC17.v part D; model: coq/Sys/Election.v + ElectionC17b.v).

Script language: see harness/overlay/server/zz_verif_c17_test.go; new here:
  R<i>:<kind>:<session>:<obo>:<shape>   client request dispatched by the real Session.dispatch on node i
and the suffixes '#H:..', '#Q:..', '#R:..' of the observations."""
import os
from collections import Counter

KINDS = ["hi", "acc", "login", "sub", "leave", "pub", "get", "set", "del", "note"]
SESS = ["f", "h", "u", "a", "r"]
PROTO = ["w", "l", "g"]


class Mirror:
    """Python mirror of the election model (Election.step), used ONLY to aim the generator at
    enabled events: which calls exist, who is electing, which checks are in flight, who follows whom."""

    def __init__(self, n, limit):
        self.n, self.limit = n, limit
        self.term = [0] * n
        self.leader = [None] * n
        self.el = [None] * n
        self.calls = {}
        self.hnet = []                        # (to, term, leader)
        self.fc = [[0] * n for _ in range(n)]
        self.active = [n] * n                 # number of active nodes as the node sees it

    def expect(self):
        return (self.n - 1 + 1) // 2 + 1

    def loop(self, c, vc, i):
        if i < self.n - 1 and vc < self.expect():
            self.el[c] = [vc, i]
        else:
            self.el[c] = None
            if vc >= self.expect():
                self.leader[c] = c

    def self_leader(self, i):
        return self.leader[i] == i and not self.el[i]

    def partitioned(self, i):
        return 2 * self.active[i] <= self.n

    def apply(self, ev):
        k, a = ev[0], ev[1:]
        if k == "R":
            return
        if k == "T":
            i, d, ok = a.split(":")
            i = int(i)
            if self.el[i]:
                return
            if self.leader[i] == i:
                rehash = False
                for p in range(self.n):
                    if p == i:
                        continue
                    if str(p) in d:
                        self.hnet.append((p, self.term[i], i))
                    if str(p) in ok:
                        if self.fc[i][p] >= self.limit:
                            rehash = True
                        self.fc[i][p] = 0
                    else:
                        self.fc[i][p] += 1
                        if self.fc[i][p] == self.limit:
                            rehash = True
                if rehash:
                    self.active[i] = 1 + sum(1 for p in range(self.n) if p != i and self.fc[i][p] < self.limit)
            else:
                self.term[i] += 1
                self.leader[i] = None
                for p in range(self.n):
                    if p != i:
                        self.calls[(i, self.term[i], p)] = ["req", None]
                self.loop(i, 1, 0)
        elif k in "QPXE":
            c, t, m = [int(x) for x in a.split(",")]
            call = self.calls.get((c, t, m))
            if not call:
                return
            if k == "Q" and call[0] == "req" and not self.el[m]:
                if self.term[m] < t:
                    self.term[m] = t
                    self.leader[m] = None
                    call[:] = ["rep", ("y", t)]
                else:
                    call[:] = ["rep", ("n", self.term[m])]
            elif k == "P" and call[0] == "rep":
                r = call[1]
                call[0] = "fin"
                if self.el[c] and self.term[c] == t:
                    vc, i = self.el[c]
                    if r[0] == "y":
                        vc += 1
                    elif r[0] == "n" and self.term[c] < r[1]:
                        vc, i = 0, self.n - 1
                    self.loop(c, vc, i + 1)
            elif k == "X" and call[0] in ("req", "rep"):
                call[0] = "fin"
            elif k == "E" and call[0] in ("req", "rep"):
                call[:] = ["rep", ("e", 0)]
        elif k in "HD":
            j = int(a)
            if j < len(self.hnet):
                to, t, ld = self.hnet[j]
                if k == "H" and self.el[to]:
                    return
                del self.hnet[j]
                if k == "H" and t >= self.term[to]:
                    self.term[to] = t
                    self.leader[to] = ld


def digits(ps):
    return "".join(str(p) for p in sorted(ps)) or "-"


def rand_request(rng, i, kind=None, sess=None):
    kind = kind or (rng.choice(KINDS) if rng.random() < 0.93 else "none")
    sess = sess or (rng.choice(SESS) if rng.random() < 0.5 else rng.choice("ar"))
    r = rng.random()
    obo = "-" if r < 0.8 else ("v" if r < 0.9 else "x")
    return "R%d:%s:%s%s:%s:%d" % (i, kind, sess, rng.choice(PROTO), obo, rng.randrange(4))


class Camp:
    """A script under construction: events are applied to the mirror as they are emitted."""

    def __init__(self, rng, n, limit):
        self.rng, self.n, self.limit = rng, n, limit
        self.m = Mirror(n, limit)
        self.evs = []

    def emit(self, ev):
        self.m.apply(ev)
        self.evs.append(ev)

    def script(self):
        return "%d %d %s" % (self.n, self.limit, " ".join(self.evs))

    def others(self, i):
        return [p for p in range(self.n) if p != i]

    def can_stand(self, c):
        return not self.m.el[c] and self.m.leader[c] != c

    def elect(self, c, voters, deaf=(), rest="mix"):
        """c stands (it must be neither electing nor a self-leader); the voters get the request and
        their replies are delivered while c is still electing; requests to the deaf nodes stay in
        flight (delayed); what is left over is lost / failed / stays in flight."""
        m = self.m
        if not self.can_stand(c):
            return None
        self.emit("T%d:-:-" % c)
        t = m.term[c]
        for v in voters:
            if v == c or v in deaf or m.el[v]:
                continue
            self.emit("Q%d,%d,%d" % (c, t, v))
            if self.rng.random() < 0.9:
                self.emit("P%d,%d,%d" % (c, t, v))
        for p in self.others(c):
            call = m.calls.get((c, t, p))
            if not call or call[0] == "fin" or p in deaf:
                continue
            x = self.rng.random()
            if rest == "keep" or (rest == "mix" and x < 0.35):
                continue
            if x < 0.7:
                self.emit("X%d,%d,%d" % (c, t, p))
            elif m.el[c]:
                self.emit("E%d,%d,%d" % (c, t, p))
                self.emit("P%d,%d,%d" % (c, t, p))
        return t

    def leader_tick(self, L, deliver, ok=None):
        """heartbeat of leader L: the peers in [deliver] get the check (it stays in flight)"""
        ok = self.others(L) if ok is None else ok
        self.emit("T%d:%s:%s" % (L, digits(deliver), digits(ok)))

    def deliver_checks_to(self, to, order="random", drop=0.0):
        """deliver (or drop) every check in flight addressed to [to]"""
        m = self.m
        while True:
            idx = [j for j, h in enumerate(m.hnet) if h[0] == to]
            if not idx or m.el[to]:
                return
            if order == "random":
                j = self.rng.choice(idx)
            elif order == "newest":
                j = idx[-1]
            else:
                j = idx[0]
            self.emit(("D%d" if self.rng.random() < drop else "H%d") % j)

    def requests_to(self, f, deliver_reply=0.5):
        """deliver the vote requests in flight addressed to f, in random order"""
        m = self.m
        live = [c for c in m.calls if c[2] == f and m.calls[c][0] == "req"]
        self.rng.shuffle(live)
        for c in live:
            if m.el[f]:
                return
            self.emit("Q%d,%d,%d" % c)
            if self.rng.random() < deliver_reply:
                self.emit("P%d,%d,%d" % c)

    def some_requests(self, k):
        for _ in range(k):
            self.emit(rand_request(self.rng, self.rng.randrange(self.n)))


def random_event(rng, m, n):
    """one event of the undirected stream (what gen_scripts of c17.py did before, plus client requests)"""
    live = [c for c in m.calls if m.calls[c][0] in ("req", "rep")]
    r = rng.random()
    if r < 0.06:
        part = [i for i in range(n) if m.partitioned(i)]
        return rand_request(rng, rng.choice(part) if part and rng.random() < 0.6 else rng.randrange(n))
    if r < 0.3 or not (live or m.hnet):
        i = rng.randrange(n)
        leaders = [x for x in range(n) if m.leader[x] == x and not m.el[x]]
        if leaders and rng.random() < 0.6:
            i = rng.choice(leaders)
        others = [str(p) for p in range(n) if p != i]
        mode = rng.random()
        if mode < 0.5:
            d = ok = "".join(others)
        else:
            d = "".join(p for p in others if rng.random() < 0.7)
            ok = "".join(p for p in others if rng.random() < 0.7)
        return "T%d:%s:%s" % (i, d or "-", ok or "-")
    if live and (r < 0.85 or not m.hnet):
        c = rng.choice(live)
        st = m.calls[c][0]
        x = rng.random()
        kind = ("Q" if st == "req" else "P") if x < 0.8 else ("X" if x < 0.9 else "E")
        if rng.random() < 0.05:
            kind = rng.choice("QPXE")
        if (kind == "P" and st == "rep" and m.calls[c][1] and m.calls[c][1][0] == "e"
                and m.el[c[0]] and m.term[c[0]] != c[1]):
            # ClusterNode.handleRpcResponse closes the endpoint on a failed call, which also fails the
            # candidate's CURRENT call to the same peer; the model treats calls as independent (manifest
            # note), so the error reply of an older call is lost instead while the candidate is electing
            kind = "X"
        return "%s%d,%d,%d" % (kind, c[0], c[1], c[2])
    j = rng.randrange(len(m.hnet) + (1 if rng.random() < 0.05 else 0))
    return ("H%d" if rng.random() < 0.85 else "D%d") % j


def safe_error_reply(m, ev):
    """see the comment in random_event: the same restriction for directed scripts"""
    return ev


def follower_campaign(rng, n, limit, same=False):
    """A follower f hears nothing for a while - neither the elections (its vote requests are delayed
    or lost) nor part of the health checks (delayed) - and then gets everything that is in flight:
    checks of earlier terms, of its own term and of later terms, from the leader it follows, from
    another one, or while it follows nobody; then the delayed vote requests of the elections it missed."""
    # [same]: aimed at 'the node f follows is deposed and elected again in a later term, f hears of neither'
    c = Camp(rng, n, limit)
    m = c.m
    f = rng.randrange(n)
    # round 0: somebody other than f is elected; f votes or not
    L = rng.choice(c.others(f))
    voters = c.others(L)
    rng.shuffle(voters)
    deaf0 = (f,) if rng.random() < 0.4 else ()
    c.elect(L, voters, deaf=deaf0, rest="mix")
    if m.self_leader(L):
        to = c.others(L)
        c.leader_tick(L, to)
        r = rng.random()
        for p in to:
            if p == f and r < 0.25 and not same:
                continue                      # f's first check is delayed too
            c.deliver_checks_to(p)
    last_leader = L
    # elections that f does not hear of
    for rnd in range(rng.randrange(2, 5) if same else rng.randrange(1, 5)):
        cands = [x for x in range(n) if x != f and c.can_stand(x)]
        if not cands:
            # only a self-leader and electing nodes are left
            break
        followed = m.leader[f]
        if followed in cands and (same or rng.random() < 0.65):
            cand = followed                   # the node f follows leads again in a later term
        elif last_leader in cands and rng.random() < 0.4:
            cand = last_leader
        else:
            cand = rng.choice(cands)
        voters = [v for v in c.others(cand) if v != f]
        rng.shuffle(voters)
        if same:
            # the node f follows hears the candidate first (and steps down); nobody is left out
            voters.sort(key=lambda v: 0 if v == followed else 1)
        elif rng.random() < 0.3:
            voters = voters[:rng.randrange(0, len(voters) + 1)]
        c.elect(cand, voters, deaf=(f,) if same or rng.random() < 0.8 else (), rest="mix")
        if m.self_leader(cand):
            last_leader = cand
            # the new leader's ring may change before f hears of it (signature / node list differ)
            if rng.random() < 0.5:
                down = rng.sample(c.others(cand), rng.randrange(1, max(2, n - 2)))
                okl = [p for p in c.others(cand) if p not in down]
                for _ in range(limit if rng.random() < 0.8 else max(1, limit - 1)):
                    c.leader_tick(cand, [p for p in okl if p != f] + ([f] if rng.random() < 0.5 else []), ok=okl)
            else:
                c.leader_tick(cand, c.others(cand))
            for p in c.others(cand):
                if p != f:
                    c.deliver_checks_to(p, drop=0.1)
        if rng.random() < 0.3:
            c.some_requests(1)
    # the current leader (if any) checks f once, twice or three times
    leaders = [x for x in range(n) if m.self_leader(x)]
    if leaders:
        Lc = max(leaders, key=lambda x: m.term[x])
        for _ in range(rng.randrange(1, 4)):
            c.leader_tick(Lc, [f] + [p for p in c.others(Lc) if p != f and rng.random() < 0.3])
    # f gets what is in flight: checks first (any order), then the delayed vote requests, or interleaved
    if rng.random() < 0.7:
        c.deliver_checks_to(f, order=rng.choice(["random", "newest", "oldest"]))
        c.requests_to(f)
    else:
        for _ in range(12):
            if rng.random() < 0.5:
                idx = [j for j, h in enumerate(m.hnet) if h[0] == f]
                if idx and not m.el[f]:
                    c.emit("H%d" % rng.choice(idx))
            else:
                live = [k for k in m.calls if k[2] == f and m.calls[k][0] == "req"]
                if live and not m.el[f]:
                    c.emit("Q%d,%d,%d" % rng.choice(live))
    c.deliver_checks_to(f)
    c.requests_to(f)
    # random tail
    for _ in range(rng.randrange(0, 10)):
        c.emit(random_event(rng, m, n))
    return c.script()


def partition_campaign(rng, n, limit):
    """A leader loses peers: its checks of some of them fail for limit-1, limit, limit+1 heartbeats;
    after every heartbeat client requests of every kind are dispatched on it (and some on the others)."""
    c = Camp(rng, n, limit)
    m = c.m
    L = rng.randrange(n)
    voters = c.others(L)
    rng.shuffle(voters)
    c.elect(L, voters, rest="lose")
    if not m.self_leader(L):
        return None
    if rng.random() < 0.6:
        c.leader_tick(L, c.others(L))
        for p in c.others(L):
            c.deliver_checks_to(p, drop=0.2)
    # how many peers become unreachable: aim at the boundary of "no more than half"
    half = n // 2                     # partitioned iff 1 + reachable <= n/2, i.e. reachable <= n//2 - 1 ... or = for even n
    lost_cnt = rng.choice([n - 1, n - 1 - max(0, half - 1), max(1, n - 1 - half), rng.randrange(1, n)])
    lost = rng.sample(c.others(L), max(1, min(n - 1, lost_cnt)))
    rounds = rng.choice([limit, limit, limit + 1, max(1, limit - 1), limit + 2])
    kinds = KINDS + ["none"]
    for rd in range(rounds):
        okl = [p for p in c.others(L) if p not in lost]
        # a flaky peer: sometimes one of the lost answers once, which restarts its count
        if rng.random() < 0.15:
            okl = okl + [rng.choice(lost)]
        c.leader_tick(L, [p for p in c.others(L) if rng.random() < 0.5], ok=okl)
        ks = list(kinds)
        rng.shuffle(ks)
        last = rd == rounds - 1
        for k in (ks if last or m.partitioned(L) else ks[:3]):
            c.emit(rand_request(rng, L, kind=k))
        if rng.random() < 0.3:
            c.emit(rand_request(rng, rng.choice(c.others(L))))
    # recovery: the peers answer again
    if rng.random() < 0.5:
        c.leader_tick(L, c.others(L))
        for k in rng.sample(kinds, 4):
            c.emit(rand_request(rng, L, kind=k))
    for _ in range(rng.randrange(0, 6)):
        c.emit(random_event(rng, m, n))
    return c.script()


# fixed scenarios
# the example of PropC17.v (c17_el_same_leader_later_term): node 1 follows leader 0 of term 1, misses the
# elections of terms 2 and 3, accepts 0's check of term 3, then gets the delayed request of term 2
SAME_LEADER = ("5 2 T0:-:- Q0,1,1 P0,1,1 Q0,1,2 P0,1,2 T0:1234:1234 H0 H0 H0 H0 T4:-:- Q4,2,0 T0:-:- "
               "Q0,3,2 P0,3,2 Q0,3,3 P0,3,3 T0:1:1234 H0 Q4,2,1 R1:note:aw:-:0")
# three nodes, node_fail_after = 2: the leader loses both followers; every kind of request before and after
LONELY = ("3 2 T0:-:- Q0,1,1 P0,1,1 T0:12:12 H0 H0 " + " ".join("R0:%s:aw:-:0" % k for k in KINDS) + " T0:-:- "
          + " ".join("R0:%s:aw:-:0" % k for k in KINDS[:4]) + " T0:-:- "
          + " ".join("R0:%s:%s:-:%d" % (k, s, v) for k in KINDS + ["none"] for s, v in (("aw", 0), ("ug", 1), ("fl", 2), ("rw", 3)))
          + " R0:pub:rw:v:0 R0:pub:aw:v:0 R0:note:rw:x:0 T0:12:12 R0:note:aw:-:0 R0:pub:aw:-:0 R1:note:aw:-:0")


def extra_scripts(ctx):
    rng = ctx.rng
    quick = ctx.tier == "quick"
    # VERIF_C17B_NOFIXED=1: evaluation of the generator alone (own regressions must be found without the fixed scenarios)
    res = [] if os.environ.get("VERIF_C17B_NOFIXED") else [SAME_LEADER, LONELY]
    for k in range(36 if quick else 500):
        res.append(follower_campaign(rng, rng.choice([3, 3, 4, 5, 5]), rng.choice([1, 2, 2, 3]), same=(k % 3 == 0)))
    for _ in range(14 if quick else 200):
        s = partition_campaign(rng, rng.choice([3, 3, 4, 5]), rng.choice([1, 2, 3]))
        if s:
            res.append(s)
    return res


# ---------------------------------------------------------------------------
# observations

class Obs(list):
    """per-node tuples (term, leader, ring class, partitioned, active) + the suffix of the event"""
    sfx = None


def parse_obs(ans):
    res = []
    for ev in ans.split("|"):
        if ev.startswith("PANIC") or ev.startswith("HANG") or ev.startswith("bad event"):
            res.append(ev)
        elif ev:
            body, _, sfx = ev.partition("#")
            nodes = Obs()
            for nd in body.split(";"):
                t, l, cls, part, act = nd.split(",")
                nodes.append((int(t), l, cls, part, act))
            nodes.sfx = sfx or None
            res.append(nodes)
    return res


def request_fields(ev):
    """R<i>:<kind>:<sess>:<obo>:<shape> -> (i, kind, sess, obo)"""
    f = ev[1:].split(":")
    return int(f[0]), f[1], f[2], f[3]


def well_formed(kind, sess, obo):
    return kind != "none" and (obo == "-" or (obo == "v" and sess[0] == "r"))


def reached(sfx):
    """did the request get past the guard?  '#R:init,codes,queues,changed' of the implementation"""
    init, codes, queues, chg = sfx[2:].split(",")
    return init == "1" or queues != "-" or chg == "1"


def normalise(script, ans):
    """projection of the implementation's answer that is compared with the model: for a client request
    only 'handler reached' and, if it was not, the reply codes ({note} is never acknowledged by the
    handlers, so a refusal of a {note} with or without a {ctrl 502} is the same projection)"""
    evs = script.split()[2:]
    out = []
    for ev, o in zip(evs, ans.split("|")):
        if ev[0] == "R" and "#R:" in o:
            body, _, sfx = o.partition("#")
            try:
                _, kind, sess, obo = request_fields(ev)
                init, codes, queues, chg = sfx[2:].split(",")
                if reached(sfx):
                    o = body + "#R:1,*"
                else:
                    if kind == "note" and well_formed(kind, sess, obo) and codes == "-":
                        codes = "502"
                    o = body + "#R:0," + codes
            except ValueError:
                pass
        out.append(o)
    rest = ans.split("|")[len(evs):]
    return "|".join(out + rest)


def monitors(scripts, table):
    """laws of part D on the implementation's trace -> list of (law, script, detail)"""
    fails = []
    for sc in scripts:
        a = table.get(sc)
        if a is None:
            continue
        w = sc.split()
        n, limit, evs = int(w[0]), int(w[1]), w[2:]
        obs = parse_obs(a)
        prev = [(0, "-", "s0", "0", "".join(str(i) for i in range(n)))] * n
        consec = [[0] * n for _ in range(n)]       # consecutive failed checks of p by i (script + who led)
        pending = [False] * n                      # last accepted mismatching check did not change the ring
        calls = {}                                 # (c,t,m) -> [state, granted]
        got = {}                                   # (c,t) -> set of peers whose yes reached c
        voted = {}                                 # (m,t) -> set of candidates m gave its vote of term t to
        for k, (ev, o) in enumerate(zip(evs, obs)):
            if isinstance(o, str):
                break
            kind, arg = ev[0], ev[1:]
            sfx = o.sfx
            if kind == "T":
                i = int(arg.split(":")[0])
                okd = arg.split(":")[2]
                if prev[i][1] == str(i):
                    for p in range(n):
                        if p != i:
                            consec[i][p] = 0 if str(p) in okd else consec[i][p] + 1
                elif o[i][0] == prev[i][0] + 1:
                    # an election started: the candidate votes for itself
                    t = o[i][0]
                    voted.setdefault((i, t), set()).add(i)
                    for p in range(n):
                        if p != i:
                            calls[(i, t, p)] = ["req", False]
            elif kind in "QPXE":
                c, t, m = [int(x) for x in arg.split(",")]
                call = calls.get((c, t, m))
                if kind == "Q" and sfx and sfx != "Q:-":
                    g, rt = sfx[2:].split(",")
                    pt = prev[m][0]
                    if g == "1":
                        voted.setdefault((m, t), set()).add(c)
                        if not pt < t:
                            fails.append(("el-vote-grant", sc, "event %d: node %d at term %d granted its vote for term %d (not above its own)" % (k, m, pt, t)))
                        elif o[m][0] != t:
                            fails.append(("el-vote-grant", sc, "event %d: node %d granted its vote for term %d but is at term %d afterwards" % (k, m, t, o[m][0])))
                    if call:
                        call[:] = ["rep", g == "1"]
                elif kind == "P" and call and call[0] == "rep":
                    call[0] = "fin"
                    if call[1]:
                        got.setdefault((c, t), set()).add(m)
                elif kind == "X" and call and call[0] in ("req", "rep"):
                    call[0] = "fin"
                elif kind == "E" and call and call[0] in ("req", "rep"):
                    call[:] = ["rep", False]
            elif kind == "H" and sfx and sfx != "H:-":
                to, ld, ht, sigeq, nodes, adopted = sfx[2:].split(",")
                to, ht = int(to), int(ht)
                pt, pl = prev[to][0], prev[to][1]
                if ht < pt:
                    if (o[to][0], o[to][1]) != (pt, pl):
                        fails.append(("el-stale-ignored", sc, "event %d: node %d (term %d, leader %s) got a check of the stale term %d from %s and is at (term %d, leader %s) afterwards"
                                      % (k, to, pt, pl, ht, ld, o[to][0], o[to][1])))
                else:
                    if o[to][0] != ht or o[to][1] != ld:
                        fails.append(("el-health-adopts", sc, "event %d: node %d (term %d, leader %s) accepted the check (leader %s, term %d) and is at (term %d, leader %s) afterwards"
                                      % (k, to, pt, pl, ld, ht, o[to][0], o[to][1])))
                    if sigeq == "0":
                        if pending[to] and adopted != "1":
                            fails.append(("el-health-adopts-ring", sc, "event %d: node %d accepted a second check in a row whose signature differs from its ring and still has not the ring of the check's node list %s"
                                          % (k, to, nodes)))
                        pending[to] = adopted != "1"
            # ---- after every event ----
            for (m_, t_), cs in voted.items():
                if len(cs) > 1:
                    fails.append(("el-one-vote-per-term", sc, "event %d: node %d gave its vote of term %d to %s" % (k, m_, t_, sorted(cs))))
                    voted[(m_, t_)] = set(list(cs)[:1])
            for i in range(n):
                t, l, cls, part, act = o[i]
                if l == str(i) and (prev[i][1] != str(i) or prev[i][0] != t):
                    have = 1 + len(got.get((i, t), ()))
                    if 2 * have <= n:
                        fails.append(("el-leader-majority", sc, "event %d: node %d considers itself leader of term %d with %d of %d votes" % (k, i, t, have, n)))
                reach = 1 + sum(1 for p in range(n) if p != i and consec[i][p] < limit)
                if 2 * reach <= n and part != "1":
                    fails.append(("part-after-failed-checks", sc,
                                  "event %d: node %d has failed %d or more health checks in a row of all but %d of its %d peers (it reaches %d of %d nodes) and does not consider itself partitioned"
                                  % (k, i, limit, reach - 1, n - 1, reach, n)))
            if kind == "R" and sfx and sfx.startswith("R:") and sfx != "R:bad":
                i, rk, sess, obo = request_fields(ev)
                init, codes, queues, chg = sfx[2:].split(",")
                t, l, cls, part, act = o[i]
                reach = 1 + sum(1 for p in range(n) if p != i and consec[i][p] < limit)
                if part == "1" or 2 * len(act) <= n or 2 * reach <= n:
                    why = "node %d reaches %d of %d nodes (active %s, isPartitioned=%s)" % (i, min(reach, len(act)), n, act, part)
                    if reached(sfx):
                        fails.append(("part-stops-serving", sc, "event %d: %s and still serves {%s}: handler called=%s, queues reached: %s, session changed=%s, replies %s"
                                      % (k, why, rk, init, queues, chg, codes)))
                    elif well_formed(rk, sess, obo):
                        cl = [] if codes == "-" else codes.split(".")
                        if any(x != "502" for x in cl) or len(cl) > 1 or (len(cl) == 0 and rk != "note"):
                            fails.append(("part-refusal-502", sc, "event %d: %s; {%s} must be refused with exactly one {ctrl 502}, replies: %s"
                                          % (k, why, rk, codes)))
            prev = o
    return fails


def coverage(scripts, table):
    """what the scripts exercised, measured on the implementation's trace"""
    guards = Counter()
    reqs = Counter()
    votes = Counter()
    for sc in scripts:
        a = table.get(sc)
        if a is None:
            continue
        w = sc.split()
        n = int(w[0])
        prev = [(0, "-", "s0", "0", "")] * n
        accepted_term = {}
        for ev, o in zip(w[2:], parse_obs(a)):
            if isinstance(o, str):
                break
            sfx = o.sfx
            if ev[0] == "H" and sfx and sfx != "H:-":
                to, ld, ht, sigeq, nodes, adopted = sfx[2:].split(",")
                to, ht = int(to), int(ht)
                pt, pl = prev[to][0], prev[to][1]
                tc = "term<" if ht < pt else ("term=" if ht == pt else "term>")
                lc = "no-leader" if pl == "-" else ("same-leader" if pl == ld else "other-leader")
                guards["%s %s %s" % (tc, lc, "sig=" if sigeq == "1" else "sig!=")] += 1
                if ht >= pt:
                    accepted_term[to] = (pt, ht)
            elif ev[0] == "Q" and sfx and sfx != "Q:-":
                c, t, m = [int(x) for x in ev[1:].split(",")]
                g = sfx[2:].split(",")[0]
                if m in accepted_term and accepted_term[m][0] < t <= accepted_term[m][1]:
                    votes["request of a term between the follower's old term and an accepted check's term: " + ("granted" if g == "1" else "refused")] += 1
                else:
                    votes["other: " + ("granted" if g == "1" else "refused")] += 1
            elif ev[0] == "R" and sfx and sfx.startswith("R:") and sfx != "R:bad":
                i, rk, sess, obo = request_fields(ev)
                reqs["%s on a %s node" % (rk, "partitioned" if o[i][3] == "1" else "healthy")] += 1
            prev = o
    return {"health_checks_delivered_by_guard": dict(sorted(guards.items())),
            "vote_requests_delivered": dict(sorted(votes.items())),
            "client_requests": dict(sorted(reqs.items()))}
