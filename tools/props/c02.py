"""C02 each accepted message reaches exactly the attached readers, once, unaltered.
Theorems in coq/Props/PropC02.v over Sys/Fanout.v; correspondence + monitors through the fan-out
driver (TestVerifFanout: real hub / group, channel-enabled and p2p topics / sessions above memverif)
against the extracted model (runner c02)."""
import json
import os
import subprocess
import time
import vlib

J, R, W, P, A, S, D, O = 1, 2, 4, 8, 16, 32, 64, 128
HEAD_KEYS = ["mime", "x1", "x2", "x3"]


def kvs(text):
    return dict(p.split("=", 1) for p in text.split() if "=" in p)


class Scn:
    def __init__(self, sid, kind="grp", users=4, defacs=47):
        self.id = sid
        self.kind = kind
        self.users = users
        self.defacs = defacs
        self.rows = []        # (user, want, given, chan)
        self.sessions = {}    # sid -> (user, root)
        self.ops = []

    @property
    def head(self):
        h = ["scn %s kind=%s users=%d defacs=%d" % (self.id, self.kind, self.users, self.defacs)]
        h += ["subrow %d want=%d given=%d%s" % (u, w, g, " chan=1" if c else "") for u, w, g, c in self.rows]
        h.append("mk")
        h += ["sess %d %d%s" % (s, u, " r" if r else "") for s, (u, r) in sorted(self.sessions.items())]
        return h

    def lines(self):
        return self.head + ["op %s %s" % (k, " ".join(str(a) for a in args)) for k, args in self.ops] + ["end"]

    def clone(self, ops, sid=None):
        s = Scn(sid or self.id, self.kind, self.users, self.defacs)
        s.rows = list(self.rows)
        s.sessions = dict(self.sessions)
        s.ops = [(k, list(a)) for k, a in ops]
        return s

    def replay(self):
        return {"kind": self.kind, "users": self.users, "defacs": self.defacs, "rows": [list(r) for r in self.rows],
                "sessions": {str(s): list(v) for s, v in self.sessions.items()}, "ops": [[k, list(a)] for k, a in self.ops],
                "lines": self.lines()}

    @staticmethod
    def from_replay(rp, sid):
        s = Scn(sid, rp["kind"], rp["users"], rp["defacs"])
        s.rows = [tuple(r) for r in rp["rows"]]
        s.sessions = {int(k): tuple(v) for k, v in rp["sessions"].items()}
        s.ops = [(k, list(a)) for k, a in rp["ops"]]
        return s

    def acting(self, args):
        """the user a request acts for: extra.obo (args[1]) or the connection's own user"""
        return int(args[1]) if int(args[1]) != 0 else self.sessions[int(args[0])][0]


class View:
    """one op block of the driver (or of the model runner)"""
    def __init__(self, lines):
        self.data = []      # (sid, dict)
        self.ctrl = []      # (sid, code, mine, seq)
        self.info = []      # (sid, dict(what, frm, seq, topic, src))
        self.permitted = None
        self.other = []
        self.push = []      # dict(seq, frm, to=frozenset, chan)
        self.loaded = 0
        self.lastid = 0
        self.users = {}     # u -> dict(want, given, deleted, chan)
        self.att = {}       # sid -> (uid, chan)
        self.oos = False
        self.skipped = False
        self.hang = None
        self.overflow = []
        self.leak = False
        for ln in lines:
            w = ln.split(" ", 1)
            t = w[0]
            if t[0] == "S" and t[1:].isdigit():
                s = int(t[1:])
                if w[1].startswith("data "):
                    d = kvs(w[1])
                    self.data.append((s, dict(seq=int(d["seq"]), frm=int(d["from"]), topic=d["topic"], content=d["content"], head=d["head"])))
                elif w[1].startswith("info what="):
                    d = kvs(w[1])
                    self.info.append((s, dict(what=d["what"], frm=int(d["from"]), seq=int(d["seq"]), topic=d["topic"], src=d["src"])))
                elif w[1].startswith("ctrl "):
                    d = kvs(w[1])
                    self.ctrl.append((s, int(w[1].split()[1]), d.get("mine") == "1", int(d["seq"]) if "seq" in d else None))
                else:
                    self.other.append((s, w[1]))
            elif t == "push":
                d = kvs(w[1])
                to = frozenset(int(x) for x in d["to"].split(",")) if d["to"] != "-" else frozenset()
                self.push.append(dict(seq=int(d["seq"]), frm=int(d["from"]), to=to, chan=d["chan"], topic=d["topic"]))
            elif t == "loaded":
                self.loaded = int(w[1])
            elif t == "lastid":
                self.lastid = int(w[1])
            elif t == "U":
                d = kvs(w[1])
                self.users[int(w[1].split()[0])] = dict(want=d["want"], given=d["given"], deleted=d["del"] == "1", chan=d["chan"] == "1")
            elif t == "A":
                d = kvs(w[1])
                self.att[int(w[1].split()[0])] = (int(d["uid"]), d["chan"] == "1")
            elif t == "permitted":
                self.permitted = w[1] == "1"
            elif t == "oos":
                self.oos = True
            elif t == "skipped":
                self.skipped = True
            elif t == "HANG":
                self.hang = ln
            elif t == "overflow":
                self.overflow.append(int(w[1]))
            elif t == "CLOGLEAK":
                self.leak = True

    def eff(self, u):
        p = self.users.get(u)
        if p is None or not p["want"].isdigit() or not p["given"].isdigit():
            return 0
        return int(p["want"]) & int(p["given"])

    def state_key(self):
        return (self.lastid, tuple(sorted((u, tuple(sorted(p.items()))) for u, p in self.users.items())), tuple(sorted(self.att.items())))


def parse_blocks(lines):
    res, cur, blk = {}, None, None
    for ln in lines:
        if not ln:
            continue
        w = ln.split(" ", 1)
        if w[0] == "scn":
            cur = []
            res[w[1]] = cur
            blk = None
        elif w[0] == "op":
            blk = []
            cur.append(blk)
        elif w[0] == "end":
            cur, blk = None, None
        elif blk is not None:
            blk.append(ln)
    return {k: [View(b) for b in v] for k, v in res.items()}


class ModelProc:
    """the extracted model stepped interactively (model-guided generation)"""
    def __init__(self):
        self.p = subprocess.Popen([os.path.join(vlib.BUILD, "runner"), "c02"], stdin=subprocess.PIPE, stdout=subprocess.PIPE,
                                  text=True, bufsize=1)

    def start(self, sc):
        for l in sc.head:
            self.p.stdin.write(l + "\n")
            self.p.stdin.flush()
            self.p.stdout.readline()

    def op(self, kind, args):
        self.p.stdin.write(("op %s %s" % (kind, " ".join(str(a) for a in args))).rstrip() + "\n\n")
        self.p.stdin.flush()
        out = []
        while True:
            l = self.p.stdout.readline()
            if l == "" or l == "\n":
                break
            out.append(l.rstrip("\n"))
        return View(out[1:])

    def close(self):
        try:
            self.p.stdin.close()
            self.p.wait(timeout=5)
        except Exception:
            self.p.kill()


def wchoice(rng, pairs):
    tot = sum(w for _, w in pairs)
    r = rng.random() * tot
    for x, w in pairs:
        r -= w
        if r <= 0:
            return x
    return pairs[-1][0]


# ---------------------------------------------------------------------------
# generation

GRP_MEMBER = [((47, 47), 30), ((63, 63), 10), ((39, 47), 8), ((47, 39), 5), ((45, 47), 7), ((47, 45), 5), ((43, 47), 5), ((47, 43), 3),
              ((47, 46), 5), ((46, 47), 3), ((0, 47), 3), ((35, 47), 3), ((127, 127), 3), ((41, 47), 2)]
P2P_MODES = [(31, 40), (23, 10), (29, 10), (27, 8), (30, 4), (21, 4), (19, 3)]
OWNER_WANT = [(255, 70), (247, 12), (253, 10), (251, 8)]
GIVEN_CHOICES = [47, 63, 39, 45, 43, 46, 0, 35, 47, 47, 15, 7]
WANT_CHOICES = [47, 39, 45, 43, 46, 0, 35, 47, 47, 63, 11]


def gen_setup(rng, sid):
    kind = wchoice(rng, [("grp", 35), ("chn", 40), ("p2p", 25)])
    if kind == "p2p":
        sc = Scn(sid, "p2p", 4, 0)
        for u in (1, 2):
            sc.rows.append((u, wchoice(rng, P2P_MODES), wchoice(rng, P2P_MODES), 0))
        k = 1
        for u, n in ((1, rng.choice([1, 2, 2, 3])), (2, rng.choice([1, 2, 2])), (3, rng.choice([0, 1]))):
            for _ in range(n):
                sc.sessions[k] = (u, 0)
                k += 1
        for _ in range(rng.choice([0, 1, 1, 2])):
            sc.sessions[k] = (4, 1)
            k += 1
        return sc
    n = rng.randint(3, 7)
    sc = Scn(sid, kind, n + 1, wchoice(rng, [(47, 50), (0, 20), (3, 10), (43, 10), (39, 10)]))
    sc.rows.append((1, wchoice(rng, OWNER_WANT), 255, 0))
    for u in range(2, n + 1):
        t = wchoice(rng, [("member", 62), ("none", 16), ("reader", 22 if kind == "chn" else 0)])
        if t == "member":
            w, g = wchoice(rng, GRP_MEMBER)
            sc.rows.append((u, w, g, 0))
        elif t == "reader" and rng.random() < 0.6:
            sc.rows.append((u, rng.choice([11, 11, 3, 9]), 11, 1))
    k = 1
    for u in range(1, n + 1):
        for _ in range(rng.choice([1, 1, 2, 2, 3]) if u <= 3 else rng.choice([0, 1, 1, 2])):
            sc.sessions[k] = (u, 0)
            k += 1
    for _ in range(rng.choice([0, 1, 1, 2])):
        sc.sessions[k] = (n + 1, 1)
        k += 1
    return sc


class Gen:
    """bookkeeping of the generator next to the model's state view"""
    def __init__(self, sc):
        self.sc = sc
        self.clogged = set()
        self.rowchan = set(u for u, _, _, c in sc.rows if c)
        self.nrow = set(u for u, _, _, c in sc.rows if not c)


def normal_spelling(sc):
    return "u" if sc.kind == "p2p" else "g"


def gen_op(rng, sc, g, v, kind, force=None):
    sess = sc.sessions
    att = [s for s in sess if s in v.att and s not in g.clogged]
    free = [s for s in sess if s not in v.att and s not in g.clogged]
    members = [u for u, p in v.users.items() if not p["deleted"]]
    plain = [u for u in members if not v.users[u]["chan"]]
    nsp = normal_spelling(sc)

    def who(s):
        return v.att[s][0] if s in v.att else sess[s][0]

    def obo(s):
        return who(s) if sess[s][1] else 0

    if kind == "att":
        if not free and force is None:
            return None
        s = force if force is not None else rng.choice(free)
        u, root = sess[s]
        if root:
            pool = [x for x in range(1, sc.users) if not (sc.kind == "p2p" and x > 2)]
            u = rng.choice(pool)
            a = u
        else:
            a = 0
        if sc.kind == "p2p":
            sp = "u" if u in (1, 2) else "T"
        elif sc.kind == "chn":
            isreader = (u in v.users and v.users[u]["chan"]) or (u not in v.users and (u in g.rowchan or (u not in g.nrow and rng.random() < 0.5)))
            sp = "c" if isreader else "g"
            if rng.random() < 0.12:
                sp = "g" if sp == "c" else "c"
        else:
            sp = "c" if rng.random() < 0.06 else "g"
        return ("att", [s, a, sp])
    if kind in ("det", "unsub"):
        if not att:
            return None
        s = rng.choice(att)
        u, ch = v.att[s]
        sp = "c" if ch else nsp
        if kind == "det" and rng.random() < 0.05 and sc.kind != "p2p":
            sp = "g" if sp == "c" else "c"
        return (kind, [s, obo(s), sp])
    if kind == "disc":
        pool = [s for s in sess if s in v.att] or list(sess)
        return ("disc", [rng.choice(pool)])
    if kind == "want":
        pool = [s for s in att if not v.att[s][1] and not v.users.get(v.att[s][0], {}).get("chan")]
        if not pool:
            return None
        s = rng.choice(pool)
        u = v.att[s][0]
        if sc.kind == "p2p":
            m = rng.choice([31, 23, 29, 27, 30, 21, 31, 31, 15])
        elif u == 1:
            m = rng.choice([255, 247, 253, 251, 255, 127, 254])
        else:
            m = rng.choice(WANT_CHOICES)
        return ("want", [s, obo(s), nsp, m])
    if kind == "given":
        hosts = [s for s in att if not v.att[s][1] and v.eff(v.att[s][0]) & (A | O)]
        if not hosts:
            return None
        s = rng.choice(hosts)
        h = v.att[s][0]
        tg = [u for u in plain if u != h]
        if not tg:
            return None
        # aim at users with attached sessions most of the time
        hot = [u for u in tg if any(x[0] == u for x in v.att.values())]
        u = rng.choice(hot) if hot and rng.random() < 0.7 else rng.choice(tg)
        m = rng.choice([31, 23, 29, 27, 30, 31]) if sc.kind == "p2p" else rng.choice(GIVEN_CHOICES)
        return ("given", [s, obo(s), nsp, u, m])
    if kind == "evict":
        hosts = [s for s in att if not v.att[s][1] and v.eff(v.att[s][0]) & (A | O)]
        if not hosts or sc.kind == "p2p":
            return None
        s = rng.choice(hosts)
        tg = [u for u in plain if u != v.att[s][0]]
        if not tg:
            return None
        return ("evict", [s, obo(s), nsp, rng.choice(tg)])
    if kind == "clog":
        pool = [s for s in att]
        if not pool:
            return None
        return ("clog", [rng.choice(pool)])
    if kind == "unclog":
        if not g.clogged:
            return None
        return ("unclog", [rng.choice(sorted(g.clogged))])
    if kind == "note":
        if not att:
            return None
        s = rng.choice(att)
        u, ch = v.att[s]
        sp = "c" if ch else nsp
        if rng.random() < 0.05 and sc.kind != "p2p":
            sp = "g" if sp == "c" else "c"
        what = wchoice(rng, [("kp", 40), ("kpa", 8), ("read", 30), ("recv", 22)])
        if what in ("kp", "kpa"):
            seq = 0
        else:
            seq = max(1, rng.choice([v.lastid, v.lastid, v.lastid, v.lastid - 1, 1, v.lastid + 1]))
        return ("note", [s, obo(s), sp, what, seq])
    if kind == "pub":
        if not att:
            pool = [s for s in free]
            if not pool:
                return None
            s = rng.choice(pool)
        else:
            writers = [s for s in att if v.eff(v.att[s][0]) & W]
            noecho = rng.random() < 0.4
            multi = [s for s in writers if sum(1 for x in v.att.values() if x[0] == v.att[s][0]) >= 2]
            if noecho and multi and rng.random() < 0.6:
                s = rng.choice(multi)
            elif writers and rng.random() < 0.85:
                s = rng.choice(writers)
            elif free and rng.random() < 0.2:
                s = rng.choice(free)
            else:
                s = rng.choice(att)
        noecho = 1 if rng.random() < 0.4 else 0
        u, root = sess[s]
        a = 0
        if root:
            a = who(s)
            if rng.random() < 0.3:
                wr = [x for x in members if v.eff(x) & W]
                a = rng.choice(wr) if wr and rng.random() < 0.8 else rng.choice(list(range(1, sc.users)))
        au = a if a else u
        if sc.kind == "p2p":
            sp = "u" if au in (1, 2) else "T"
            if rng.random() < 0.1:
                sp = "T"
        elif s in v.att and v.att[s][1]:
            sp = "c"
        else:
            sp = "c" if rng.random() < (0.12 if sc.kind == "chn" else 0.07) else "g"
        hd = []
        if rng.random() < 0.55:
            for k in HEAD_KEYS:
                if rng.random() < 0.4:
                    hd.append("%s:t%d" % (k, rng.randint(1, 9)))
            if rng.random() < 0.45:
                hd.append("sender:%s" % rng.choice(["u%d" % rng.randint(1, sc.users), "u%d" % u, "j"]))
            rng.shuffle(hd)
        return ("pub", [s, a, sp, noecho, 1 if rng.random() < 0.93 else 0, 100 + len(sc.ops), ",".join(hd) if hd else "-"])
    return None


def gen_tail(rng, mp, sc, g, v, n):
    """appends ~n model-guided requests.  A stuck connection is always the triple clog / publish / unclog: while a
    connection is stuck EVERY broadcast of the real server ({pres} too) detaches it, which the model (data only) does not follow."""
    queue = []
    for _ in range(n):
        if queue:
            kind = queue.pop(0)
        else:
            kind = wchoice(rng, [("pub", 42), ("note", 12), ("att", 12), ("det", 9), ("want", 8), ("given", 9), ("evict", 3), ("unsub", 3),
                                 ("disc", 3), ("clog", 3)])
        o = None
        for _try in range(4 if kind in ("pub", "unclog") else 1):
            o = gen_op(rng, sc, g, v, kind)
            if o is not None and not (g.clogged and kind == "pub" and int(o[1][0]) in g.clogged):
                break
        if o is None:
            if g.clogged and not queue:
                queue = ["unclog"]
            continue
        k, args = o
        if k == "clog":
            queue = ["pub", "unclog"]
        v2 = mp.op(k, args)
        if v2.oos:
            # outside the modelled scope: the model did not move; the request is not issued
            continue
        sc.ops.append((k, args))
        if k == "clog":
            g.clogged.add(args[0])
        elif k in ("unclog", "disc"):
            g.clogged.discard(args[0])
        v = v2
    return v


def gen_scn(rng, mp, sid, nops=(8, 26)):
    sc = gen_setup(rng, sid)
    mp.start(sc)
    g = Gen(sc)
    v = View([])
    order = list(sc.sessions)
    rng.shuffle(order)
    for s in order:
        if rng.random() < 0.78:
            o = gen_op(rng, sc, g, v, "att", force=s)
            if o is None:
                continue
            v2 = mp.op(*o)
            if v2.oos:
                continue
            sc.ops.append(o)
            v = v2
    gen_tail(rng, mp, sc, g, v, rng.randint(*nops))
    return sc


def gen_scenarios(ctx, count, prefix="g"):
    mp = ModelProc()
    try:
        return [gen_scn(ctx.rng, mp, "%s%d" % (prefix, i)) for i in range(count)]
    finally:
        mp.close()


def extend(ctx, base, count, prefix="n"):
    """histories that continue `base` (failing-input search near a mismatch)"""
    mp = ModelProc()
    res = []
    try:
        for j in range(count):
            sc = base.clone(base.ops, "%s%d" % (prefix, j))
            mp.start(sc)
            g = Gen(sc)
            v = View([])
            for k, a in sc.ops:
                v = mp.op(k, a)
                if k == "clog":
                    g.clogged.add(a[0])
                elif k in ("unclog", "disc"):
                    g.clogged.discard(a[0])
            gen_tail(ctx.rng, mp, sc, g, v, ctx.rng.randint(1, 6))
            res.append(sc)
    finally:
        mp.close()
    return res


def run_impl(ctx, scns, tag="t"):
    fin = os.path.join(ctx.work, "scn_%s.in" % tag)
    fout = os.path.join(ctx.work, "scn_%s.impl" % tag)
    with open(fin, "w") as f:
        for sc in scns:
            f.write("\n".join(sc.lines()) + "\n")
    if os.path.exists(fout):
        os.remove(fout)
    env = dict(vlib.GOENV, VERIF_IN=fin, VERIF_OUT=fout)
    p = subprocess.run([os.path.join(vlib.BUILD, "maindrv.test"), "-test.run", "^TestVerifFanout$", "-test.count=1", "-test.timeout=3000s"],
                       stdout=subprocess.PIPE, stderr=subprocess.STDOUT, env=env, cwd=os.path.join(vlib.REPO, "server"), timeout=3400)
    out = p.stdout.decode("utf8", "replace")
    lines = open(fout).read().split("\n") if os.path.exists(fout) else []
    log = "\n".join(l for l in out.split("\n") if not (len(l) > 3 and l[0] in "IWE" and l[1:3] == "20"))
    return p.returncode, parse_blocks(lines), log


def run_model(ctx, scns):
    lines = []
    for sc in scns:
        lines += sc.lines()
    rc, out, err = ctx.run_model("c02", lines)
    flat = []
    for o in out:
        flat += o.split("\n")
    return rc, parse_blocks(flat), err


# ---------------------------------------------------------------------------
# the property as predicates on the IMPLEMENTATION's trace.  The state the laws refer to ("attached
# at that moment", "effective permissions") is the implementation's own state dump after the previous
# request.

def head_items(h):
    return {} if h == "-" else dict(x.split(":", 1) for x in h.split(","))


def peer(u):
    return 2 if u == 1 else 1


KP_FAMILY = ("kp", "kpa", "kpv")


def monitor_info(kind, pre, s, author, sp, what, seq, frames, clogged=()):
    """The laws of a {note} relay on the frames the IMPLEMENTATION delivered (names start with info-, reusable by the
    C09 check).  kind: grp|chn|p2p; pre: the implementation's state before the note (users, att); s: the originating
    connection; frames: [(connection, dict(what, frm, seq, topic, src))] received during the request."""
    res = []
    rel = [(x, d) for x, d in frames if d["src"] == "-"]
    got = {}
    for x, d in rel:
        got.setdefault(x, []).append(d)
    for x, ds in got.items():
        if len(ds) != 1:
            res.append(("info-exactly-one-copy", "connection %d received %d {info} frames for one note" % (x, len(ds))))
        if x == s:
            res.append(("info-echoed-to-originating-session", "the connection %d that sent the note received %s" % (x, ds[0])))
        if x not in pre.att:
            res.append(("info-to-unattached-connection", "connection %d is not attached, received %s" % (x, ds[0])))
            continue
        u, ch = pre.att[x]
        if ch:
            res.append(("info-to-channel-subscription", "channel subscription %d (user %d) received the note relay %s" % (x, u, ds[0])))
        elif not (pre.eff(u) & R):
            res.append(("info-to-readless-user", "connection %d of user %d (want&given=%d, no R) received %s" % (x, u, pre.eff(u), ds[0])))
        for d in ds:
            if what == "kp" and u == author:
                res.append(("info-kp-to-typists-own-session", "key press of user %d relayed to his own connection %d" % (author, x)))
            if d["frm"] != author or d["what"] != what or d["seq"] != seq:
                res.append(("info-names-sender-kind-id", "note %s seq=%d from user %d relayed to %d as %s" % (what, seq, author, x, d)))
            if kind == "p2p":
                exp = "u%d" % peer(u)
            elif kind == "chn":
                exp = "c" if (ch or (u in pre.users and pre.users[u]["chan"])) else "g"
            else:
                exp = sp if sp in ("g", "c") else "g"     # a plain group relays the name as written (see the C02 finding)
            if d["topic"] != exp:
                res.append(("info-topic-as-seen", "relay to connection %d (user %d) names the topic %s, expected %s" % (x, u, d["topic"], exp)))
    # completeness: once anybody got the relay (or for a key press that passes the permission gate) everybody eligible must
    pa = pre.users.get(author)
    gate = (what in KP_FAMILY and pa is not None and not pa["deleted"] and bool(pre.eff(author) & W) and sp != "c" and s in pre.att)
    if rel or gate:
        for x, (u, ch) in pre.att.items():
            if x in clogged or x == s or ch or not (pre.eff(u) & R) or (what == "kp" and u == author):
                continue
            if x not in got:
                res.append(("info-eligible-reader-missed", "connection %d (user %d, R, not a channel subscription) got no relay of %s seq=%d from user %d"
                            % (x, u, what, seq, author)))
    return res


def monitor(sc, views):
    res = []
    prev = View([])
    clogged = set()
    inc = {}     # connection -> last data seq seen (per incarnation)
    sess = sc.sessions

    def fail(law, k, detail):
        res.append((law, k, detail))

    for k, v in enumerate(views):
        kind, args = sc.ops[k]
        s = int(args[0])
        if v.hang:
            fail("hang", k, v.hang)
        if v.leak:
            fail("full-queue-accepted-a-frame", k, "a frame was queued on a connection whose buffer was full")
        if v.skipped:
            prev = carry(prev, v)
            continue
        # ---- copies arrive in increasing id order at each connection (over the whole history)
        for x, d in v.data:
            if x in inc and d["seq"] <= inc[x]:
                fail("per-session-increasing-ids", k, "connection %d received id %d after id %d" % (x, d["seq"], inc[x]))
            inc[x] = d["seq"]
        if kind == "note" and not v.skipped:
            for law, detail in monitor_info(sc.kind, prev, s, sc.acting(args), args[2], args[3], int(args[4]), v.info, clogged):
                fail(law, k, detail)
        elif any(d["src"] == "-" for x, d in v.info):
            fail("info-only-from-notes", k, "request %s %s produced a note relay: %s" % (kind, args, v.info[:3]))
        if kind != "pub":
            if v.data:
                fail("data-only-from-publish", k, "request %s %s produced {data}: %s" % (kind, args, v.data[:3]))
            if v.push:
                fail("push-only-from-publish", k, "request %s %s produced a message push: %s" % (kind, args, v.push))
            if kind == "clog":
                clogged.add(s)
            elif kind in ("unclog", "disc"):
                clogged.discard(s)
            if kind == "disc":
                inc.pop(s, None)
            prev = carry(prev, v)
            continue

        # ---- a publish
        real = sess[s][0]
        author = sc.acting(args)
        sp, noecho, hasid, content, hd = args[2], int(args[3]) == 1, int(args[4]) == 1, str(args[5]), head_items(str(args[6]))
        acks = [(c, q) for x, c, mine, q in v.ctrl if x == s and mine]
        accepted = any(c == 202 for c, q in acks) if hasid else (v.lastid == prev.lastid + 1 and bool(prev.loaded))
        seq = next((q for c, q in acks if c == 202), None)
        if not hasid and accepted:
            seq = v.lastid
        if not accepted:
            if v.data or v.push or (prev.loaded and v.lastid != prev.lastid):
                fail("refused-publish-leaves-no-trace", k, "publish answered %s but data=%s push=%s lastid %d->%d"
                     % (acks, v.data[:3], v.push, prev.lastid, v.lastid))
            prev = carry(prev, v)
            continue
        if hasid and len([1 for c, q in acks if c == 202]) != 1:
            fail("one-ack", k, "acks: %s" % acks)
        pre = prev
        got = {}
        for x, d in v.data:
            got.setdefault(x, []).append(d)
        # who must get a copy: attached at that moment, reader or channel subscription, not the no-echo sender
        for x, (u, ch) in pre.att.items():
            if x in clogged:
                continue
            reader = bool(pre.eff(u) & R)
            elig = (reader or ch) and not (noecho and x == s)
            if elig and x not in got:
                fail("publisher-echo-missing" if x == s else "eligible-reader-missed", k,
                     "connection %d (user %d, R=%s, channel=%s) attached at publish %s got no copy" % (x, u, reader, ch, seq))
        for x, ds in got.items():
            if len(ds) != 1:
                fail("exactly-one-copy", k, "connection %d received %d copies of message %s" % (x, len(ds), seq))
            if x not in pre.att:
                fail("copy-to-unattached-connection", k, "connection %d is not attached, received %s" % (x, ds[0]))
                continue
            u, ch = pre.att[x]
            pu = pre.users.get(u)
            if noecho and x == s:
                fail("noecho-sender-got-copy", k, "the publishing connection %d asked for no echo, received %s" % (x, ds[0]))
            if pu is None or pu["deleted"]:
                fail("copy-to-removed-user", k, "connection %d acts for user %d who is not a (current) subscriber, received %s" % (x, u, ds[0]))
            elif not (pre.eff(u) & R) and not (ch or pu["chan"]):
                fail("copy-to-readless-user", k, "connection %d acts for user %d (want&given=%d, no R), received %s" % (x, u, pre.eff(u), ds[0]))
            is_reader_of_channel = ch or (pu is not None and pu["chan"])
            for d in ds:
                if seq is not None and d["seq"] != seq:
                    fail("copy-carries-acknowledged-id", k, "copy to %d has id %d, acknowledged id %s" % (x, d["seq"], seq))
                if d["content"] != content:
                    fail("content-unaltered", k, "copy to %d carries content %s, published %s" % (x, d["content"], content))
                hi = head_items(d["head"])
                snd = hi.pop("sender", None)
                want_h = {a: b for a, b in hd.items() if a != "sender"}
                if hi != want_h:
                    fail("head-unaltered", k, "copy to %d carries head %s, published %s" % (x, d["head"], args[6]))
                if author != real:
                    if snd != "u%d" % real:
                        fail("sender-header-true-sender", k, "published by user %d on behalf of %d: copy to %d has sender=%s" % (real, author, x, snd))
                elif snd is not None:
                    fail("sender-header-only-on-behalf", k, "published by user %d for himself (client head %s): copy to %d has sender=%s"
                         % (real, args[6], x, snd))
                if is_reader_of_channel:
                    if d["frm"] != 0:
                        # a channel subscription shown the author is one law; the recorded finding (a channel reader's
                        # connection attached under the grpXXX name) has its own name so that it cannot mask the first
                        fail("author-withheld-from-channel-subscription" if ch else "author-shown-to-channel-reader-attached-by-group-name", k,
                             "connection %d of channel reader %d (channel subscription=%s) was shown the author %d" % (x, u, ch, d["frm"]))
                elif d["frm"] != author:
                    fail("true-author-shown", k, "copy to %d names author %d, the author is %d" % (x, d["frm"], author))
                if sc.kind == "p2p":
                    exp = "u%d" % peer(u)
                elif sc.kind == "chn":
                    exp = "c" if is_reader_of_channel else "g"
                else:
                    exp = "g"
                if d["topic"] != exp:
                    law = "topic-as-seen"
                    if sc.kind == "grp" and sp == "c" and d["topic"] == "c":
                        law = "plain-group-published-under-channel-name"
                    fail(law, k, "copy to connection %d (user %d) names the topic %s, that recipient addresses it as %s" % (x, u, d["topic"], exp))
        # ---- push
        want_to = frozenset(u for u, p in pre.users.items() if (pre.eff(u) & P) and (pre.eff(u) & R) and not p["deleted"] and not p["chan"])
        want_ch = "c" if sc.kind == "chn" else "-"
        if len(v.push) > 1:
            fail("one-push-receipt", k, "%d receipts: %s" % (len(v.push), v.push))
        if not v.push:
            if want_to or want_ch == "c":
                fail("push-missed-subscriber", k, "no push receipt; subscribers with R and P: %s" % sorted(want_to))
        for pr in v.push[:1]:
            for u in sorted(pr["to"] - want_to):
                p = pre.users.get(u)
                if p is None or p["deleted"]:
                    fail("push-to-removed-user", k, "push addressed to user %d who is not a current subscriber" % u)
                elif p["chan"]:
                    fail("push-to-channel-reader", k, "push addressed directly to channel reader %d" % u)
                else:
                    fail("push-to-readless-or-muted-user", k, "push addressed to user %d whose want&given=%d lacks R or P" % (u, pre.eff(u)))
            if want_to - pr["to"]:
                fail("push-missed-subscriber", k, "push omits subscribers %s who have R and P" % sorted(want_to - pr["to"]))
            if pr["chan"] != want_ch:
                fail("push-channel-address", k, "topic kind %s: push channel address is %s" % (sc.kind, pr["chan"]))
            if seq is not None and pr["seq"] != seq:
                fail("push-names-the-message", k, "push for id %d, acknowledged id %s" % (pr["seq"], seq))
            if pr["frm"] != author:
                fail("push-names-the-message", k, "push names author %d, the author is %d" % (pr["frm"], author))
        prev = carry(prev, v)
    return res


def carry(prev, v):
    return v if v.loaded else prev


# ---------------------------------------------------------------------------

def proj(sc, k, v):
    """this property's projection of one op block"""
    kind, args = sc.ops[k]
    d = {}
    if kind == "pub":
        s = int(args[0])
        d["copies"] = sorted((x, tuple(sorted(f.items()))) for x, f in v.data)
        # an error reply to a request without id carries no id either
        d["ack"] = sorted((c, q) for x, c, mine, q in v.ctrl if x == s and (mine or (int(args[4]) == 0 and c >= 400)))
        d["push"] = sorted((p["seq"], p["frm"], tuple(sorted(p["to"])), p["chan"]) for p in v.push)
    if kind == "note":
        d["info"] = sorted((x, tuple(sorted(f.items()))) for x, f in v.info if f["src"] == "-")
    if v.loaded:
        d["state"] = v.state_key()
    return d


def diff_op(sc, k, iv, mv):
    a, b = proj(sc, k, iv), proj(sc, k, mv)
    res = []
    for name in ("copies", "ack", "push", "info", "state"):
        if name in a and a.get(name) != b.get(name):
            if name == "info" and not a["info"] and mv.permitted and sc.ops[k][1][3] in ("read", "recv"):
                continue     # a stale read/recv receipt (decided by the marks, C09) is not relayed: the model does not decide that
            res.append((name, a.get(name), b.get(name)))
    return res


def shrink(sc, still_bad, budget):
    t0 = time.time()
    ops = list(sc.ops)
    chunk = max(1, len(ops) // 2)
    while chunk >= 1 and time.time() - t0 < budget:
        i, changed = 0, False
        while i < len(ops) and time.time() - t0 < budget:
            cand = ops[:i] + ops[i + chunk:]
            if cand and still_bad(sc.clone(cand)):
                ops, changed = cand, True
            else:
                i += chunk
        if not changed:
            chunk //= 2
    small = sc.clone(ops)
    # drop connections that no remaining request uses
    used = set(int(a[0]) for _, a in small.ops)
    cand = small.clone(small.ops)
    cand.sessions = {s: v for s, v in small.sessions.items() if s in used}
    if len(cand.sessions) < len(small.sessions) and time.time() - t0 < budget and still_bad(cand):
        small = cand
    return small


def mk(kind, users, defacs, rows, sessions, ops, sid):
    sc = Scn(sid, kind, users, defacs)
    sc.rows = rows
    sc.sessions = sessions
    sc.ops = [(k, list(a)) for k, a in ops]
    return sc


CORPUS = [
    # channel-enabled group: owner, writer, stored channel reader with two connections (one attaches by the group name),
    # a new subscriber by default access, root acting on behalf; forged sender; no echo; leave
    ("chn", 5, 47, [(1, 255, 255, 0), (2, 47, 47, 0), (3, 11, 11, 1)],
     {1: (1, 0), 2: (2, 0), 3: (3, 0), 4: (3, 0), 5: (4, 0), 6: (5, 1), 7: (2, 0)},
     [("att", [1, 0, "g"]), ("att", [2, 0, "g"]), ("att", [7, 0, "g"]), ("att", [3, 0, "c"]), ("pub", [2, 0, "g", 0, 1, 101, "-"]),
      ("note", [1, 0, "g", "read", 1]), ("note", [2, 0, "g", "kp", 0]), ("note", [3, 0, "c", "read", 1]), ("note", [7, 0, "g", "recv", 1]),
      ("pub", [2, 0, "g", 1, 1, 102, "sender:u1,x1:t5"]), ("pub", [2, 0, "c", 0, 1, 103, "mime:t2"]), ("att", [5, 0, "g"]),
      ("att", [6, 2, "g"]), ("pub", [6, 2, "g", 0, 1, 104, "sender:u3"]), ("pub", [6, 1, "g", 1, 1, 105, "-"]), ("det", [3, 0, "c"]),
      ("pub", [1, 0, "g", 0, 1, 106, "-"]), ("pub", [1, 0, "g", 0, 0, 107, "-"]), ("att", [4, 0, "g"]), ("att", [3, 0, "c"]),
      ("pub", [2, 0, "g", 0, 1, 108, "-"])]),
    # plain group: muted, read-less, banned, self-banned members; permission changes, eviction, unsubscription between publishes
    ("grp", 7, 47, [(1, 255, 255, 0), (2, 47, 47, 0), (3, 39, 47, 0), (4, 45, 47, 0), (5, 47, 46, 0), (6, 63, 63, 0)],
     {1: (1, 0), 2: (2, 0), 3: (2, 0), 4: (3, 0), 5: (4, 0), 6: (5, 0), 7: (6, 0), 8: (7, 1)},
     [("att", [1, 0, "g"]), ("att", [2, 0, "g"]), ("att", [3, 0, "g"]), ("att", [4, 0, "g"]), ("att", [5, 0, "g"]), ("att", [6, 0, "g"]),
      ("att", [7, 0, "g"]), ("pub", [2, 0, "g", 1, 1, 101, "-"]), ("pub", [5, 0, "g", 0, 1, 102, "-"]), ("given", [1, 0, "g", 2, 45]),
      ("pub", [1, 0, "g", 0, 1, 103, "-"]), ("given", [1, 0, "g", 2, 47]), ("want", [4, 0, "g", 35]), ("pub", [7, 0, "g", 0, 1, 104, "x2:t1"]),
      ("evict", [1, 0, "g", 2]), ("pub", [1, 0, "g", 0, 1, 105, "-"]), ("unsub", [4, 0, "g"]), ("pub", [7, 0, "c", 0, 1, 106, "-"]),
      ("given", [7, 0, "g", 4, 46]), ("pub", [1, 0, "g", 1, 1, 107, "-"]), ("disc", [7]), ("pub", [1, 0, "g", 0, 1, 108, "-"])]),
    # p2p: both participants with two connections, an outsider, root on behalf, muting, a stuck connection
    ("p2p", 4, 0, [(1, 31, 31, 0), (2, 31, 23, 0)], {1: (1, 0), 2: (2, 0), 3: (1, 0), 4: (3, 0), 5: (4, 1), 6: (2, 0)},
     [("att", [1, 0, "u"]), ("att", [2, 0, "u"]), ("att", [3, 0, "u"]), ("att", [4, 0, "T"]), ("att", [5, 2, "u"]), ("att", [6, 0, "u"]),
      ("pub", [1, 0, "u", 0, 1, 101, "-"]), ("note", [2, 0, "u", "read", 1]), ("note", [1, 0, "u", "kp", 0]), ("pub", [1, 0, "T", 1, 1, 102, "-"]), ("pub", [5, 1, "u", 0, 1, 103, "sender:u2"]),
      ("pub", [5, 3, "T", 0, 1, 104, "-"]), ("want", [2, 0, "u", 21]), ("pub", [1, 0, "u", 0, 1, 105, "-"]), ("want", [2, 0, "u", 31]),
      ("clog", [3]), ("pub", [2, 0, "u", 0, 1, 106, "-"]), ("unclog", [3]), ("pub", [1, 0, "u", 0, 1, 107, "-"]), ("given", [1, 0, "u", 2, 30]),
      ("pub", [1, 0, "u", 0, 1, 108, "-"]), ("unsub", [1, 0, "u"])]),
]


def run(ctx):
    ctx.coq_props()
    vlib.proof_violation(ctx)
    ok, out = ctx.build_runner()
    if not ok:
        ctx.violation("proof", "extraction-broken", "model extraction/runner build failed: " + out[-1500:],
                      {"theorem_or_obligation": "extraction of the model"})
        ctx.finish()
    ok, out = ctx.build_main()
    if not ok:
        ctx.violation("corr", "harness-build-broken", "package-main driver no longer builds against /repo: " + out[-1500:],
                      {"correspondence": "build of harness/overlay against /repo/server"})
        ctx.finish()
    quick = ctx.tier == "quick"
    from props import c02c
    if ctx.replay:
        rp = json.load(open(ctx.replay))
        if rp["replay"].get("part") == "c02c":
            # a replay of the background-session / store-fault part
            ctx.coverage["background_and_store_faults_part"] = c02c.run_part(ctx, replay=rp["replay"])
            ctx.finish()
        scns = [Scn.from_replay(rp["replay"], "replay")]
    else:
        scns = [mk(*c, sid="c%d" % i) for i, c in enumerate(CORPUS)]
        cdir = os.path.join(vlib.ROOT, "corpus", ctx.pid)
        if os.path.isdir(cdir):
            for f in sorted(os.listdir(cdir)):
                scns.append(Scn.from_replay(json.load(open(os.path.join(cdir, f))), "f_" + f.split(".")[0]))
        scns += gen_scenarios(ctx, 240 if quick else 5000)
    t0 = time.time()
    rc, impl, log = run_impl(ctx, scns)
    t_impl = time.time() - t0
    bad = next((sc for sc in scns if sc.id not in impl or len(impl[sc.id]) != len(sc.ops)), None)
    if rc != 0 or bad is not None:
        ctx.violation("monitor", "server-crashed", "the server process died or stopped answering while running scenario %s: %s"
                      % (bad.id if bad else "?", log[-1500:]),
                      {"scenario": bad.replay() if bad else {}, "log": log[-4000:]})
        ctx.finish()
    rc, model, err = run_model(ctx, scns)
    if rc != 0:
        ctx.violation("proof", "runner-crashed", "model runner failed: " + err[-1500:], {"theorem_or_obligation": "model runner"})
        ctx.finish()

    fails = []
    for sc in scns:
        for law, k, detail in monitor(sc, impl[sc.id]):
            fails.append((sc, law, k, detail))
    seen = {}
    for sc, law, k, detail in fails:
        seen.setdefault(law, []).append((sc, k, detail))
    nshrunk = 0
    for law, lst in seen.items():
        sc, k, detail = min(lst, key=lambda x: (x[1], len(x[0].sessions)))
        small = sc.clone(sc.ops[:k + 1])
        if nshrunk < 6 and not ctx.replay:
            nshrunk += 1

            def still_bad(c, law=law):
                rc2, im2, _ = run_impl(ctx, [c], tag="shrink")
                return rc2 == 0 and c.id in im2 and len(im2[c.id]) == len(c.ops) and any(l == law for l, _, _ in monitor(c, im2[c.id]))
            small = shrink(small, still_bad, 10 if quick else 120)
            rc2, im2, _ = run_impl(ctx, [small], tag="shrink")
            dd = [d for l, _, d in monitor(small, im2.get(small.id, [])) if l == law]
            detail = dd[0] if dd else detail
        rp = small.replay()
        rp.update({"law": law, "detail": detail, "scenarios_failing": len(lst)})
        ctx.violation("monitor", law, "law %s fails on the implementation's trace (%d requests in %d scenarios this run): %s"
                      % (law, len(lst), len(set(x[0].id for x in lst)), detail), rp)

    mism = []
    for sc in scns:
        io, mo = impl[sc.id], model.get(sc.id, [])
        if len(io) != len(mo):
            mism.append((sc, -1, [("shape", len(io), len(mo))]))
            continue
        for k in range(len(io)):
            if mo[k].oos:
                break        # outside the modelled scope (only hand-written replays get here): nothing is claimed from here on
            d = diff_op(sc, k, io[k], mo[k])
            if d:
                mism.append((sc, k, d))
                break
    searched = 0
    known = set(f["key"] for f in ctx.load_findings() if f["property"] == ctx.pid)
    fails = [f for f in fails if f[1] not in known]     # known findings do not excuse a correspondence mismatch
    if mism and not fails:
        sc, k, d = min(mism, key=lambda x: x[1] if x[1] >= 0 else 10 ** 6)
        base = sc.clone(sc.ops[:k + 1]) if k >= 0 else sc
        pool = [base] + extend(ctx, base, 60 if quick else 600)
        rc2, im2, _ = run_impl(ctx, pool, tag="search")
        searched = len(pool)
        if rc2 == 0:
            for c in pool:
                if c.id in im2 and len(im2[c.id]) == len(c.ops):
                    for law, kk, detail in monitor(c, im2[c.id]):
                        if law in known:
                            continue
                        rp = c.clone(c.ops[:kk + 1]).replay()
                        rp.update({"law": law, "detail": detail, "found_by": "search near a correspondence mismatch"})
                        ctx.violation("monitor", law, "law %s fails on the implementation's trace: %s" % (law, detail), rp)
                        fails.append((c, law, kk, detail))
                        break
                if fails:
                    break
        if not fails:
            rp = base.replay()
            rp.update({"correspondence": "projection %s of C02" % d[0][0], "diff": d})
            ctx.violation("corr", "correspondence-" + str(d[0][0]),
                          "model and implementation disagree on %d of %d scenarios on this property's projection; first (prefix): op %d %s: %s; no law failure found on %d neighbouring histories"
                          % (len(mism), len(scns), k, sc.ops[k] if k >= 0 else "", json.dumps(d, default=str)[:900], searched), rp)

    # part c: background sessions and store faults (tools/props/c02c.py)
    part_c = c02c.run_part(ctx) if not ctx.replay else {}

    # coverage
    kinds, codes, topics, pops = {}, {}, {}, {}
    feat = dict(noecho=0, obo=0, forged_sender=0, head_entries=0, no_id=0, alt_spelling=0, refused=0, accepted=0, copies=0,
                copy_to_channel_sub=0, overflow=0, second_session_same_user=0, push_receipts=0, push_with_channel=0)
    nops = 0
    nt = set()
    for sc in scns:
        topics[sc.kind] = topics.get(sc.kind, 0) + 1
        prev = View([])
        accepted_here = False
        for k, (kind, args) in enumerate(sc.ops):
            nops += 1
            kinds[kind] = kinds.get(kind, 0) + 1
            v = impl[sc.id][k]
            for x, c, mine, q in v.ctrl:
                if mine:
                    codes["%s/%d" % (kind, c)] = codes.get("%s/%d" % (kind, c), 0) + 1
            if kind == "pub":
                s = int(args[0])
                acc = bool(v.data) or bool(v.push) or any(c == 202 for x, c, m, q in v.ctrl if m)
                feat["accepted" if acc else "refused"] += 1
                if acc:
                    accepted_here = True
                    feat["noecho"] += int(args[3])
                    feat["obo"] += 1 if sc.acting(args) != sc.sessions[s][0] else 0
                    feat["forged_sender"] += 1 if "sender:" in str(args[6]) else 0
                    feat["head_entries"] += 1 if str(args[6]) != "-" else 0
                    feat["no_id"] += 1 - int(args[4])
                    feat["alt_spelling"] += 1 if args[2] in ("c", "T") else 0
                    feat["copies"] += len(v.data)
                    feat["copy_to_channel_sub"] += sum(1 for x, d in v.data if prev.att.get(x, (0, False))[1])
                    feat["push_receipts"] += len(v.push)
                    feat["push_with_channel"] += sum(1 for p in v.push if p["chan"] == "c")
                    us = [u for u, _ in prev.att.values()]
                    feat["second_session_same_user"] += 1 if s in prev.att and us.count(prev.att[s][0]) >= 2 else 0
                    for u, p in prev.users.items():
                        e = prev.eff(u)
                        cls = ("removed" if p["deleted"] else "channel-reader" if p["chan"] else "banned" if not (int(p["given"]) & J if p["given"].isdigit() else 0)
                               else "self-banned" if not (int(p["want"]) & J if p["want"].isdigit() else 0)
                               else "read-less" if not e & R else "muted" if not e & P else "write-less" if not e & W else "full")
                        pops[cls] = pops.get(cls, 0) + 1
            if kind == "note":
                key = "note_%s_%s" % (args[3], "relayed" if any(d["src"] == "-" for x, d in v.info) else "not_relayed")
                feat[key] = feat.get(key, 0) + 1
                feat["info_frames"] = feat.get("info_frames", 0) + len(v.info)
                feat["notes_with_channel_subscription_attached"] = feat.get("notes_with_channel_subscription_attached", 0) + (
                    1 if any(ch for _, ch in prev.att.values()) else 0)
            if kind == "clog":
                feat["overflow"] += 1
            prev = carry(prev, v)
        if accepted_here:
            nt.add(hash(repr([(o, tuple(map(str, impl[sc.id][k].data))) for k, o in enumerate(sc.ops)])))
    ctx.coverage.update({
        "evaluations": len(scns), "distinct_nontrivial": len(nt),
        "rule": "corpus of 3 hand-written histories + seeded model-guided random histories over one topic each: plain group 35% / channel-enabled group 40% / p2p 25%; 3-7 users + a root account, 1-3 connections per user, initial subscription rows drawn from full / admin / muted (no P in want or given) / read-less / write-less / banned (no J in given) / self-banned / not subscribed / stored channel reader; default access JRWPS|N|JR|JRPS|JRWS; requests attach (own, root on behalf, grp or chn spelling) / leave / unsubscribe / disconnect / own mode / another user's mode / evict / stuck connection / publish (no echo 40%, without id 7%, head entries 55% of which forged sender 45%, alternative spelling ~10%, publisher chosen among writers, users with a second attached connection when no echo), 8-26 requests after the attach preamble; non-trivial = at least one accepted publish; distinct by (requests, copies)",
        "operations_executed": nops,
        "samples": [sc.replay()["lines"] for sc in scns[3:5]],
        "traces_validated_against_impl": len(scns), "correspondence_mismatches": len(mism), "monitor_failures_not_known": len(fails),
        "monitor_failures_by_law": {l: len(v) for l, v in seen.items()},
        "search_pool": searched,
        "input_distribution": {"op_kinds": kinds, "reply_codes": codes, "topic_kinds": topics, "publish_features": feat,
                               "subscriber_classes_at_accepted_publishes": pops,
                               "ops_per_scenario_max": max(len(sc.ops) for sc in scns)},
        "impl_wall_s": round(t_impl, 1),
        "background_and_store_faults_part": part_c,
        "trusted_base": [
            "harness/overlay/server/zz_verif_c02_test.go (+ helpers of zz_verif_topic_test.go): drives the real Hub/Topic/Session code through Session.dispatchRaw; quiescence by goroutine-state snapshot; reads Topic.perUser/sessions/lastID only at quiescence; push receipts read from globals.usersUpdate (driver-owned channel) where sendPush hands them to the user cache",
            "harness/overlay/server/db/memverif: in-memory adapter written from db/mysql/adapter.go (store contract modelled, not verified)",
            "tools/props/c02.py monitors: python restatement of the property on the implementation's trace; 'attached at that moment' and 'effective permissions' are the implementation's own state dump after the previous request",
            "model scope (coq/Sys/Fanout.v header; background sessions and store faults are part c: coq/Sys/FanoutBkgC02.v, tools/props/c02c.py, driver TestVerifFanoutC02c): no cluster/proxy sessions, no topic pause/unload/deletion, no ownership transfer, no invitation of absent users, no mode change of channel readers, no re-subscription after a deleted subscription; a full send buffer is constant during one publish",
            "projection compared for C02: per publish the {data} copies per connection (topic as seen, from, id, content, head), the publisher's {ctrl} code and id, the push receipt (id, author, To set, channel address); per request the state the fan-out reads (perUser want/given/deleted/isChan, attached connections with acting user and channel flag, lastID)"],
    })
    ctx.finish()
