"""C01, part 'att': a {pub} that lists attachments (extra.attachments) combined with every fault plan of the save
path (TopicUpdateOnMessage, MessageSave, SubsUpdate, FileLinkAttachments).  Model coq/Sys/TopicAttC01.v (wrapper over
the group-topic model), theorems c01_att_* in coq/Props/PropC01.v, driver harness/overlay/server/zz_verif_c01a_test.go,
runner harness/runner/r_c01a.ml.  Called from c01.run; replay files carry part = 'att'."""
import json
import os
import re
import subprocess
import time
import vlib
from props import statelib
from props import topiclib as T
from props.statelib import kvs
from props import c01ims

ATT_CHOICES = ["-", "-", "j", "jj", "k", "k", "k", "kk", "kkk", "kj", "jk", "kjk", "u", "ku", "uk", "uj", "kuk"]
FINDING_LAW = "failed-attachment-link-consumes-number"


def gen_att_scn(rng, sid, faults):
    sc = T.gen_setup(rng, sid, "msg")
    sids = sorted(sc.sessions)
    ops = []

    def flt(p=None):
        if faults and rng.random() < (faults if p is None else p):
            return rng.choice(["F", "F", "F", "C"]) + str(rng.randint(1, 5))
        return "N"

    def atts():
        a = rng.choice(ATT_CHOICES)
        if "u" in a and rng.random() < 0.75:
            a = a.replace("u", "k")     # unknown files are rarer: such a publish ends the evaluated part of the history
        return a

    for s in sids:
        if rng.random() < 0.85:
            ops.append(("N", "sub", [s, "-", 0]))
    for _ in range(rng.randint(8, 22)):
        s = rng.choice(sids)
        r = rng.random()
        if r < 0.48:
            ops.append((flt(faults * 2.2 if faults else None), "puba", [s, 100 + len(ops), 1 if rng.random() < 0.2 else 0, atts()]))
        elif r < 0.56:
            ops.append((flt(), "pub", [s, 100 + len(ops), 1 if rng.random() < 0.2 else 0]))
        elif r < 0.60:
            ops.append((flt(), "getdata", [s, 0, 0, 0]))
        elif r < 0.63:
            ops.append((flt(0.05), "getdatap", [s]))
        elif r < 0.66:
            ops.append((flt(), "getdesc", [s]))
        elif r < 0.76:
            # the description in both wire encodings; mostly asked by somebody whose read / recv marks lag behind
            ops.append((flt(0.05), "getdescp", [s]))
        elif r < 0.79:
            ops.append(("N", "leave", [s, 0]))
        elif r < 0.88:
            ops.append((flt(), "sub", [s, "-", 0]))
        elif r < 0.93:
            for y in sids:
                ops.append(("N", "leave", [y, 0]))
            ops.append(("N", "unload", []))
            for y in sids:
                if rng.random() < 0.8:
                    ops.append((flt(0.05), "sub", [y, "-", 0]))
        elif r < 0.95:
            ops.append(("N", "unload", []))
        else:
            ops.append(("N", "restart", []))
            for y in sids:
                if rng.random() < 0.7:
                    ops.append(("N", "sub", [y, "-", 0]))
    sc.ops = ops
    return sc


def att_run_impl(ctx, scns, tag="a"):
    fin = os.path.join(ctx.work, "ascn_%s.in" % tag)
    fout = os.path.join(ctx.work, "ascn_%s.impl" % tag)
    with open(fin, "w") as f:
        for sc in scns:
            f.write("\n".join(sc.lines()) + "\n")
    if os.path.exists(fout):
        os.remove(fout)
    env = dict(vlib.GOENV, VERIF_IN=fin, VERIF_OUT=fout)
    p = subprocess.run([os.path.join(vlib.BUILD, "maindrv.test"), "-test.run", "^TestVerifC01a$", "-test.count=1", "-test.timeout=3000s"],
                       stdout=subprocess.PIPE, stderr=subprocess.STDOUT, env=env, cwd=os.path.join(vlib.REPO, "server"), timeout=3400)
    out = p.stdout.decode("utf8", "replace")
    lines = open(fout).read().split("\n") if os.path.exists(fout) else []
    log = "\n".join(l for l in out.split("\n") if not (len(l) > 3 and l[0] in "IWE" and l[1:3] == "20"))
    return p.returncode, T.parse_blocks(lines), log


def att_run_model(ctx, scns):
    lines = []
    for sc in scns:
        lines += sc.lines()
    rc, out, err = ctx.run_model("c01a", lines)
    flat = []
    for o in out:
        flat += o.split("\n")
    return rc, T.parse_blocks(flat), err


def lastid_of(block):
    for l in block["cache"]:
        if l.startswith("lastid="):
            return int(kvs(l)["lastid"])
    return None


def reply_of(block, sid):
    return [t for s, t in block["frames"] if s == sid and t.startswith("ctrl ")]


def link_failed(op, block):
    """the publish was refused although the attachment-link call (the last store call of Save) was reached: the topic
    row and the message row are written"""
    f, kind, a = op
    if kind != "puba":
        return False
    r = reply_of(block, a[0])
    return bool(r) and not r[0].startswith("ctrl 202") and "FileLinkAttachments" in block["calllog"]


def att_monitor(base_monitor, sc, blocks):
    res = []
    for k, b in enumerate(blocks):
        if b["hang"]:
            res.append(("hang", k, b["hang"]))
    # the evaluated part of the history ends with the first publish refused at the attachment-link call: from there on
    # the real code (and the model) has a stored row above lastID (finding FINDING_LAW for a failing call; for a crash
    # the 5xx reply is an artefact of emulating the death of the process)
    cut = next((k for k in range(len(blocks)) if link_failed(sc.ops[k], blocks[k])), None)
    n = len(blocks) if cut is None else cut
    plain = sc.clone([(f, "pub", a[:3]) if kind == "puba" else (f, "getdesc", a) if kind == "getdescp" else (f, "getdata", [a[0], 0, 0, 0]) if kind == "getdatap" else (f, kind, a) for f, kind, a in sc.ops])
    plain.sessions = sc.sessions
    res += base_monitor(plain, [statelib.View(b) for b in blocks[:n]])
    # 'the number acknowledged is the number every recipient and every later query shows': in BOTH wire encodings of the frame
    for k, b in enumerate(blocks):
        for sid, t in b["frames"]:
            d = kvs(t)
            if "pbseq" in d and d["pbseq"] != d.get("seq", "0"):
                what = "description" if t.startswith("desc ") else "message copy" if t.startswith("data ") else "acknowledgement"
                res.append(("desc-seq-same-in-every-encoding" if t.startswith("desc ") else "number-same-in-every-encoding", k,
                            "the %s sent to connection %d shows seq=%s in the JSON encoding and seq=%s in the protobuf encoding (%s)"
                            % (what, sid, d.get("seq", "0"), d["pbseq"], t)))
    # 'a publish whose save failed consumes no number', on the implementation's own counter: whatever the attachments
    # and whichever store call failed, a publish answered with an error leaves Topic.lastID where it was
    for k in range(n):
        f, kind, a = sc.ops[k]
        if kind not in ("pub", "puba") or k == 0 or (f != "N" and f[0] == "C"):
            continue
        r = reply_of(blocks[k], a[0])
        if not r or r[0].startswith("ctrl 202"):
            continue
        before, after = lastid_of(blocks[k - 1]), lastid_of(blocks[k])
        if blocks[k - 1]["loaded"] == "1" and blocks[k]["loaded"] == "1" and before is not None and after is not None and after != before:
            res.append(("failed-publish-consumes-no-number", k,
                        "publish of connection %s (attachments %s, fault %s) answered %s: Topic.lastID went from %d to %d"
                        % (a[0], a[3] if kind == "puba" else "-", f, r[0], before, after)))
    if cut is not None:
        f, kind, a = sc.ops[cut]
        b = blocks[cut]
        if not (f != "N" and f[0] == "C") and cut > 0:
            after = lastid_of(b)
            rows = [int(l.split()[1]) for l in b["store"] if l.startswith("msg ")]
            if after is not None and any(x > after for x in rows):
                res.append((FINDING_LAW, cut,
                            "publish of connection %s (attachments %s, fault %s) answered %s after the message row was written: message %d is stored, Topic.lastID stays %d"
                            % (a[0], a[3], f, reply_of(b, a[0])[0], max(rows), after)))
            before = lastid_of(blocks[cut - 1])
            if blocks[cut - 1]["loaded"] == "1" and b["loaded"] == "1" and before is not None and after is not None and after != before:
                res.append(("failed-publish-consumes-no-number", cut,
                            "publish of connection %s (attachments %s, fault %s) answered %s: Topic.lastID went from %d to %d"
                            % (a[0], a[3], f, reply_of(b, a[0])[0], before, after)))
    return res


def restore(rp):
    sc = T.Scn(rp["head"][0].split()[1])
    sc.head = rp["head"]
    sc.ops = [tuple(o) for o in rp["ops"]]
    return statelib.restore_sessions(sc)


def run_att(ctx, base_monitor):
    quick = ctx.tier == "quick"
    rng = ctx.rng
    if ctx.replay:
        scns = [restore(json.load(open(ctx.replay))["replay"])]
    else:
        n = 120 if quick else 4000
        scns = [gen_att_scn(rng, "a%d" % i, 0.0 if i % 4 == 0 else 0.22) for i in range(n)]
    t0 = time.time()
    rc, impl, log = att_run_impl(ctx, scns)
    t_impl = time.time() - t0
    bad = next((sc for sc in scns if sc.id not in impl or len(impl[sc.id]) != len(sc.ops)), None)
    if rc != 0 or bad is not None:
        ctx.violation("monitor", "server-crashed", "the server process died or stopped answering while running attachments scenario %s: %s"
                      % (bad.id if bad else "?", log[-1500:]),
                      {"part": "att", "head": bad.head if bad else [], "ops": bad.ops if bad else [], "log": log[-4000:]})
        return
    rc, model, err = att_run_model(ctx, scns)
    if rc != 0:
        ctx.violation("proof", "runner-crashed", "model runner (c01a) failed: " + err[-1500:], {"theorem_or_obligation": "model runner c01a"})
        return

    def mon(sc, blocks):
        return att_monitor(base_monitor, sc, blocks)

    fails = []
    for sc in scns:
        for law, k, detail in mon(sc, impl[sc.id]):
            fails.append((sc, law, k, detail))
    known = {f["key"] for f in ctx.load_findings() if f["property"] == ctx.pid}
    seen = {}
    for sc, law, k, detail in fails:
        seen.setdefault(law, []).append((sc, k, detail))
    nshrunk = 0
    for law, lst in seen.items():
        sc, k, detail = min(lst, key=lambda x: (x[1], len(x[0].ops)))
        small = sc.clone(sc.ops[:k + 1])
        if nshrunk < 3 and not ctx.replay and law not in known:
            nshrunk += 1

            def still_bad(c, law=law):
                rc2, im2, _ = att_run_impl(ctx, [c], tag="shrink")
                return rc2 == 0 and c.id in im2 and len(im2[c.id]) == len(c.ops) and any(l == law for l, _, _ in mon(c, im2[c.id]))
            small = T.shrink(ctx, small, still_bad, budget=15 if quick else 120)
            rc2, im2, _ = att_run_impl(ctx, [small], tag="shrink")
            dd = [d for l, _, d in mon(small, im2.get(small.id, [])) if l == law] if rc2 == 0 and small.id in im2 and len(im2[small.id]) == len(small.ops) else []
            detail = dd[0] if dd else detail
        ctx.violation("monitor", law, "law %s fails on the implementation's trace of a group topic with attachment-carrying publishes (%d scenarios this run): %s"
                      % (law, len(lst), detail),
                      {"part": "att", "head": small.head, "ops": small.ops, "law": law, "detail": detail, "scenarios_failing": len(lst)})
    mism = []
    for sc in scns:
        io, mo = impl[sc.id], model.get(sc.id, [])
        if len(io) != len(mo):
            mism.append((sc, -1, "shape %d/%d" % (len(io), len(mo))))
            continue
        for k in range(len(io)):
            a, b = c01ims.ims_project(io[k]), c01ims.ims_project(mo[k])
            if a != b:
                mism.append((sc, k, {key: (a[key], b[key]) for key in a if a[key] != b[key]}))
                break
    fails = [f for f in fails if f[1] not in known]
    searched = 0
    if mism and not fails:
        sc, k, d = min(mism, key=lambda x: (x[1] if x[1] >= 0 else 10 ** 6, len(x[0].ops)))
        base = sc.clone(sc.ops[:k + 1]) if k >= 0 else sc
        sids = sorted(sc.sessions)
        pool = []
        for j in range(40 if quick else 400):
            c = base.clone(list(base.ops))
            c.id = "n%d" % j
            c.head = [re.sub(r"^scn \S+", "scn " + c.id, base.head[0])] + base.head[1:]
            extra = []
            for _ in range(rng.randint(1, 6)):
                x = rng.choice(sids)
                extra.append(rng.choice([("N", "pub", [x, 900 + len(extra), 0]), ("N", "puba", [x, 920 + len(extra), 0, rng.choice(["k", "j", "kk"])]),
                                         ("N", "getdesc", [x]), ("N", "getdata", [x, 0, 0, 0]), ("N", "sub", [x, "-", 0]),
                                         ("N", "leave", [x, 0]), ("N", "unload", []), ("N", "restart", []), ("N", "pub", [x, 950 + len(extra), 0])]))
            c.ops = list(base.ops) + extra
            pool.append(c)
        rc2, im2, _ = att_run_impl(ctx, pool, tag="search")
        searched = len(pool)
        if rc2 == 0:
            for c in pool:
                if c.id in im2 and len(im2[c.id]) == len(c.ops):
                    hit = [h for h in mon(c, im2[c.id]) if h[0] not in known]
                    if hit:
                        law, kk, detail = hit[0]
                        ctx.violation("monitor", law, "law %s fails on the implementation's trace of a group topic with attachment-carrying publishes: %s" % (law, detail),
                                      {"part": "att", "head": c.head, "ops": c.ops[:kk + 1], "law": law, "detail": detail,
                                       "found_by": "search near a correspondence mismatch"})
                        fails.append((c, law, kk, detail))
                        break
        if not fails:
            ctx.violation("corr", "correspondence-attachments-" + (sc.ops[k][1] if k >= 0 else "shape"),
                          "model (Sys/TopicAttC01.v) and implementation disagree on %d of %d histories with attachment-carrying publishes on C01's projection; first (prefix): op %d %s: %s; no law failure found on %d neighbouring histories"
                          % (len(mism), len(scns), k, sc.ops[k] if k >= 0 else "", json.dumps(d, default=str)[:800], searched),
                          {"part": "att", "correspondence": "projection of C01 on histories with attachment-carrying publishes", "head": base.head, "ops": base.ops, "diff": d})
    # coverage, measured on the implementation's trace
    kinds, outcome = {}, {}
    nops, acks, cuts, failed_then_acked = 0, 0, 0, 0
    both, lagging = 0, 0
    nt = set()
    for sc in scns:
        sig = []
        any_ack = False
        pending = False
        for k, o in enumerate(sc.ops):
            nops += 1
            b = impl[sc.id][k]
            kinds[o[1]] = kinds.get(o[1], 0) + 1
            got_ack = any(t.startswith("ctrl 202 seq") for s, t in b["frames"])
            for s_, t in b["frames"]:
                d = kvs(t)
                if "pbseq" in d:
                    both += 1
                    if t.startswith("desc ") and int(d.get("seq", 0)) > 0 and (d.get("recv") != d.get("seq") or d.get("read") != d.get("seq")):
                        lagging += 1
            acks += 1 if got_ack else 0
            any_ack = any_ack or got_ack
            if o[1] == "puba":
                r = reply_of(b, o[2][0])
                a = o[2][3]
                cls = "none" if a == "-" else "no-file-id" if set(a) == {"j"} else "unknown-file" if "u" in a else "uploaded-files"
                last = b["calllog"].split(" ")[-1] if b["calllog"] else "no-store-call"
                key = "atts=%s fault=%s reply=%s last-call=%s" % (cls, "none" if o[0] == "N" else o[0][0], r[0].split()[1] if r else "none", last)
                outcome[key] = outcome.get(key, 0) + 1
                if r and not r[0].startswith("ctrl 202") and a != "-" and o[0] != "N" and o[0][0] == "F":
                    pending = True
            if got_ack and pending:
                failed_then_acked += 1
                pending = False
            if o[1] in ("unload", "restart") or b["loaded"] != "1":
                pending = False
            if link_failed(o, b):
                cuts += 1
            sig.append((o, tuple(b["frames"])))
        if any_ack:
            nt.add(hash(tuple(map(repr, sig))))
    ctx.coverage["attachments"] = {
        "evaluations": len(scns), "distinct_nontrivial": len(nt), "operations_executed": nops,
        "rule": "seeded random histories over one group topic (head as in the topic-history generator: 2-5 users x 1-2 connections, member modes incl. read-less / write-less): sub / {pub extra.attachments=[..]} with 0-3 URLs of three kinds (no file id in the URL / well-formed id without an upload record / uploaded file) / plain pub / get data / get desc / get desc and get data rendered in both wire encodings (JSON, protobuf) / leave / idle unload and re-attach / restart; three quarters of the histories with a failing (F k) or crashing (C k) adapter call k=1..5 on random requests (k=1 TopicUpdateOnMessage, 2 MessageSave, 3 SubsUpdate or FileLinkAttachments, 4 FileLinkAttachments of a reader); non-trivial = at least one acknowledged number; distinct by (ops, replies)",
        "acknowledged_numbers": acks, "op_kinds": kinds,
        "frames_compared_in_both_wire_encodings": both, "descriptions_in_both_encodings_with_read_or_recv_below_seq": lagging, "attachment_publish_outcomes": outcome,
        "failed_attachment_publish_followed_by_an_accepted_publish": failed_then_acked,
        "publishes_refused_at_the_attachment_link_call (the evaluated part of the history ends there)": cuts,
        "correspondence_mismatches": len(mism), "monitor_failures": len(fails), "search_pool": searched, "impl_wall_s": round(t_impl, 1),
        "samples": [{"head": sc.head, "ops": sc.ops} for sc in scns[:1]],
    }
