"""C04, fourth part: 'a user without read permission gets none' on topics with CHANNEL subscriptions, whatever name
the request is addressed to (Session.expandTopicName routes chnXXX to the attached grpXXX subscription and
Topic.verifyChannelAccess only checks that the topic is channel-enabled, so asChan says how the request was SPELLED,
not who asks).  The C04 layer-2 model is one non-channel group; this part reuses the fan-out slice built for C02 / C01
(coq/Sys/Fanout.v + Sys/FanoutQueryC01.v: perUser with isChan, sessions attached under the grpXXX / chnXXX / usrXXX /
p2pXXX name, root sessions acting on behalf of a user, stored rows, replyGetData) extended by Sys/FanoutHistC04.v
(replyGetDel, {sub get=data}); theorems c04_chan_* of PropC04.v.

Driver harness/overlay/server/zz_verif_c04chan_test.go (TestVerifC04Chan), model runner c04chan.  Scenario lines are
those of tools/props/c02.py plus
  op qdata  <s> <as> <spelling> <since> <before> <limit>      {get what=data}
  op qdel   <s> <as> <spelling> <since> <before> <limit>      {get what=del}
  op sqdata <s> <as> <spelling> <since> <before> <limit>      {sub get={what=data}}

Laws on the IMPLEMENTATION's answers; the state they refer to is the implementation's own dump (perUser want / given /
deleted / isChan, attached sessions) after the previous request (for sqdata: after the request itself, i.e. the state in
which handleSubscription calls replyGetData):
  history-needs-read   a history query executed for a user who is not a channel reader and whose want & given lacks R
                       (or who has no perUser entry) is answered without any {data} - under either name
  dellog-needs-read    the same for {get what=del}: no {meta del}
  history-exact        a reader's answer to a query addressed by an admissible name shows exactly the acknowledged
                       numbers in [since, before), newest first, at most the limit, each with the content it was
                       acknowledged with (no deletions in these histories); nobody is ever shown a message that was
                       not acknowledged on THIS topic
"""
import json
import os
import subprocess
import time
import vlib

R = 2

# member populations (want, given): half of the members lack R in want, in given or in both
MEMBERS_C04CHAN = [((47, 47), 28), ((63, 63), 8), ((127, 127), 4),
                   ((45, 47), 12), ((47, 45), 14), ((45, 45), 5), ((109, 111), 3), ((47, 13), 4), ((47, 9), 4),
                   ((41, 47), 3), ((0, 47), 3), ((47, 109), 4), ((39, 47), 4), ((47, 43), 4)]


def gen_setup(rng, c02, sid):
    kind = c02.wchoice(rng, [("chn", 72), ("grp", 18), ("p2p", 10)])
    if kind == "p2p":
        sc = c02.Scn(sid, "p2p", 4, 0)
        modes = [(31, 30), (29, 25), (23, 10), (27, 8), (21, 6)]
        for u in (1, 2):
            sc.rows.append((u, c02.wchoice(rng, modes), c02.wchoice(rng, modes), 0))
        k = 1
        for u, n in ((1, rng.choice([1, 2])), (2, rng.choice([1, 2])), (3, rng.choice([0, 1]))):
            for _ in range(n):
                sc.sessions[k] = (u, 0)
                k += 1
        for _ in range(rng.choice([0, 1, 1])):
            sc.sessions[k] = (4, 1)
            k += 1
        return sc
    n = rng.randint(3, 6)
    sc = c02.Scn(sid, kind, n + 1, c02.wchoice(rng, [(47, 45), (45, 25), (0, 10), (43, 10), (39, 10)]))
    sc.rows.append((1, c02.wchoice(rng, c02.OWNER_WANT), 255, 0))
    for u in range(2, n + 1):
        t = c02.wchoice(rng, [("member", 64), ("none", 14), ("reader", 22 if kind == "chn" else 0)])
        if t == "member":
            w, g = c02.wchoice(rng, MEMBERS_C04CHAN)
            sc.rows.append((u, w, g, 0))
        elif t == "reader" and rng.random() < 0.6:
            sc.rows.append((u, rng.choice([11, 11, 11, 9]), 11, 1))
    k = 1
    for u in range(1, n + 1):
        for _ in range(rng.choice([1, 1, 2, 2]) if u <= 3 else rng.choice([0, 1, 1, 2])):
            sc.sessions[k] = (u, 0)
            k += 1
    for _ in range(rng.choice([0, 1, 1, 2])):
        sc.sessions[k] = (n + 1, 1)
        k += 1
    return sc


def gen_base(ctx, c02, count):
    """model-guided fan-out histories (c02's request generator) over the populations above; returns scenarios and the
    model's view after every request"""
    rng = ctx.rng
    mp = c02.ModelProc()
    res = []
    try:
        for i in range(count):
            sc = gen_setup(rng, c02, "h%d" % i)
            mp.start(sc)
            g = c02.Gen(sc)
            v = c02.View([])
            order = list(sc.sessions)
            rng.shuffle(order)
            for s in order:
                if rng.random() < 0.8:
                    o = c02.gen_op(rng, sc, g, v, "att", force=s)
                    if o is None:
                        continue
                    v2 = mp.op(*o)
                    if v2.oos:
                        continue
                    sc.ops.append(o)
                    v = v2
            c02.gen_tail(rng, mp, sc, g, v, rng.randint(6, 18))
            res.append(sc)
    finally:
        mp.close()
    return res


def rnd_range(rng, last):
    since = max(0, rng.choice([0, 0, 0, 0, 1, last, last - 1, rng.randint(0, last + 1)]))
    before = max(0, rng.choice([0, 0, 0, 0, last + 1, last, rng.randint(0, last + 2)]))
    return [since, before, rng.choice([0, 0, 0, 0, 1, 2, 3])]


def add_queries(rng, c02, sc, mviews):
    """history / deletion-log queries of attached connections inserted after random requests, addressed by the name
    the connection attached under or by the OTHER name of the topic; some {sub} replaced by {sub get=data}.  Queries
    change no state and {sub get=data} attaches exactly like {sub}, so the rest of the history is unaffected."""
    ops = []
    clogged = set()
    p2p = sc.kind == "p2p"
    prev_att = {}
    for k, (kind, args) in enumerate(sc.ops):
        if k >= len(mviews) or mviews[k].oos or mviews[k].skipped:
            ops += [(kk, list(aa)) for kk, aa in sc.ops[k:]]
            break
        v = mviews[k]
        if kind == "att" and not clogged and int(args[0]) not in prev_att and int(args[0]) in v.att and rng.random() < 0.4:
            ops.append(("sqdata", list(args) + rnd_range(rng, v.lastid)))
        else:
            ops.append((kind, list(args)))
        if kind == "clog":
            clogged.add(int(args[0]))
        elif kind in ("unclog", "disc"):
            clogged.discard(int(args[0]))
        prev_att = v.att
        att = [s for s in v.att if s not in clogged and s in sc.sessions]
        if clogged or not att or rng.random() >= 0.6:
            continue
        # prefer connections of users without R: the clause under test
        cold = [s for s in att if not (v.eff(v.att[s][0]) & R)]
        for _ in range(rng.choice([1, 2, 2, 3])):
            s = rng.choice(cold) if cold and rng.random() < 0.5 else rng.choice(att)
            u, ch = v.att[s]
            a = u if sc.sessions[s][1] else 0
            sp = "c" if ch else ("u" if p2p else "g")
            if sc.kind == "chn" and rng.random() < 0.5:
                sp = "g" if sp == "c" else "c"
            elif sc.kind == "grp" and rng.random() < 0.1:
                sp = "c"
            elif p2p and rng.random() < 0.15:
                sp = "T"
            if sc.sessions[s][1] and rng.random() < 0.3:
                # a root connection asking on behalf of another user of the topic
                others = [x for x in v.users if not v.users[x]["deleted"] and not (p2p and x > 2)]
                if others:
                    a = rng.choice(others)
            ops.append((rng.choice(["qdata", "qdata", "qdata", "qdel"]), [s, a, sp] + rnd_range(rng, v.lastid)))
    return sc.clone(ops)


def run_impl(ctx, c02, scns, tag="h"):
    fin = os.path.join(ctx.work, "c04chan_%s.in" % tag)
    fout = os.path.join(ctx.work, "c04chan_%s.impl" % tag)
    with open(fin, "w") as f:
        for sc in scns:
            f.write("\n".join(sc.lines()) + "\n")
    if os.path.exists(fout):
        os.remove(fout)
    env = dict(vlib.GOENV, VERIF_IN=fin, VERIF_OUT=fout)
    p = subprocess.run([os.path.join(vlib.BUILD, "maindrv.test"), "-test.run", "^TestVerifC04Chan$", "-test.count=1", "-test.timeout=3000s"],
                       stdout=subprocess.PIPE, stderr=subprocess.STDOUT, env=env, cwd=os.path.join(vlib.REPO, "server"), timeout=3400)
    out = p.stdout.decode("utf8", "replace")
    lines = open(fout).read().split("\n") if os.path.exists(fout) else []
    log = "\n".join(l for l in out.split("\n") if not (len(l) > 3 and l[0] in "IWE" and l[1:3] == "20"))
    return p.returncode, c02.parse_blocks(lines), log


def run_model(ctx, c02, scns):
    lines = []
    for sc in scns:
        lines += sc.lines()
    rc, out, err = ctx.run_model("c04chan", lines)
    flat = []
    for o in out:
        flat += o.split("\n")
    return rc, c02.parse_blocks(flat), err


QUERIES = ("qdata", "qdel", "sqdata")


def answer(v, s):
    datas = [d for x, d in v.data if x == s]
    dels = [t for x, t in v.other if x == s and t.startswith("metadel ")]
    return datas, dels


def describe(sc, st, s, u, args, kind):
    pu = st.users.get(u)
    mode = "no perUser entry" if pu is None else "want=%s given=%s%s%s" % (pu["want"], pu["given"], " deleted" if pu["deleted"] else "",
                                                                          " channel reader" if pu["chan"] else "")
    how = st.att.get(s)
    return "connection %d (acting for user %d: %s; attached %s) sent %s addressed as %s since=%s before=%s limit=%s on a %s topic" % (
        s, u, mode, "under the channel name" if (how and how[1]) else "under the group/p2p name" if how else "by this request",
        {"qdata": "{get what=data}", "qdel": "{get what=del}", "sqdata": "{sub get=data}"}[kind],
        {"g": "grpXXX", "c": "chnXXX", "u": "usrXXX", "T": "p2pXXX"}.get(str(args[2]), str(args[2])), args[3], args[4], args[5],
        {"chn": "channel-enabled group", "grp": "plain group", "p2p": "peer-to-peer"}.get(sc.kind, sc.kind))


def monitor(c02, sc, views):
    """-> [(law, op index, detail)] on the implementation's trace"""
    res = []
    prev = c02.View([])
    published = {}
    for k, v in enumerate(views):
        kind, args = sc.ops[k]
        if v.skipped:
            prev = c02.carry(prev, v)
            continue
        s = int(args[0])
        was_loaded = k > 0 and views[k - 1].loaded
        if kind == "pub":
            cur = prev.lastid if was_loaded else None
            if cur is None:
                published = {}
            acks = [q for x, c, mine, q in v.ctrl if x == s and mine and c == 202]
            seq = acks[0] if acks else (v.lastid if (int(args[4]) == 0 and cur is not None and v.loaded and v.lastid == cur + 1) else None)
            if seq is not None:
                published[seq] = str(args[5])
        elif kind in QUERIES and was_loaded and v.loaded and (s in prev.att or kind == "sqdata"):
            u = sc.acting(args)
            # the state in which the handler runs: before the request for {get}; after the subscription for {sub get}
            st = v if kind == "sqdata" else prev
            if kind == "sqdata" and (s in prev.att or s not in v.att):
                # 304 / refused subscription: the history part is not judged here (outside the model)
                prev = c02.carry(prev, v)
                continue
            pu = st.users.get(u)
            numeric = pu is None or (pu["want"].isdigit() and pu["given"].isdigit())
            reader = pu is not None and numeric and bool(st.eff(u) & R)
            chan_reader = pu is not None and pu["chan"]
            datas, dels = answer(v, s)
            stray = [(x, d) for x, d in v.data if x != s]
            who = describe(sc, st, s, u, args, kind)
            if numeric and not reader and not chan_reader:
                if kind in ("qdata", "sqdata") and (datas or stray):
                    res.append(("history-needs-read", k, "%s and was sent %d message(s): numbers %s"
                                % (who, len(datas) + len(stray), [d["seq"] for d in datas] + [d["seq"] for _, d in stray])))
                if kind == "qdel" and dels:
                    res.append(("dellog-needs-read", k, "%s and was sent %s" % (who, dels[0])))
            if kind in ("qdata", "sqdata"):
                since, before, limit = int(args[3]), int(args[4]), int(args[5])
                bad = [d for d in datas if published.get(d["seq"]) != d["content"]]
                if bad:
                    res.append(("history-exact", k, "%s: the answer shows message %d with content %s; acknowledged on this topic: %s"
                                % (who, bad[0]["seq"], bad[0]["content"], published.get(bad[0]["seq"], "never"))))
                name_ok = not (args[2] == "c" and sc.kind != "chn")
                if reader and name_ok and not bad and not (pu and pu["deleted"]):
                    exp = sorted((n for n in published if n >= since and (before <= 0 or n < before)), reverse=True)
                    exp = exp[:limit if 0 < limit < 100 else 100]
                    got = [d["seq"] for d in datas]
                    if got != exp:
                        res.append(("history-exact", k, "%s: the answer shows numbers %s; acknowledged and never deleted in range, newest first: %s"
                                    % (who, got, exp)))
        prev = c02.carry(prev, v)
    return res


def proj(v, s, kind):
    datas, dels = answer(v, s)
    d = [(x["seq"], x["content"], x["frm"], x["topic"]) for x in datas]
    if kind == "sqdata":
        return {"data": d}
    return {"data": d, "metadel": dels, "ctrl": sorted(c for x, c, m_, q in v.ctrl if x == s and m_)}


def run_chan(ctx):
    """returns a coverage dict ({} when the part did not complete)"""
    from props import c02
    quick = ctx.tier == "quick"
    rng = ctx.rng
    t00 = time.time()
    if ctx.replay:
        scns = [c02.Scn.from_replay(json.load(open(ctx.replay))["replay"]["scenario"], "replay")]
    else:
        base = gen_base(ctx, c02, 110 if quick else 2500)
        rc, mv, err = c02.run_model(ctx, base)
        if rc != 0:
            ctx.violation("proof", "runner-crashed", "model runner (c02) failed: " + err[-1000:], {"theorem_or_obligation": "model runner c02"})
            return {}
        scns = [add_queries(rng, c02, sc, mv.get(sc.id, [])) for sc in base]
    t0 = time.time()
    rc, impl, log = run_impl(ctx, c02, scns)
    t_impl = time.time() - t0
    bad = next((sc for sc in scns if sc.id not in impl or len(impl[sc.id]) != len(sc.ops)), None)
    if rc != 0 or bad is not None:
        ctx.violation("monitor", "server-crashed", "the server process died or stopped answering in the channel part of C04 (scenario %s): %s"
                      % (bad.id if bad else "?", log[-1200:]), {"part": "chan", "scenario": bad.replay() if bad else {}})
        return {}
    rc, model, err = run_model(ctx, c02, scns)
    if rc != 0:
        ctx.violation("proof", "runner-crashed", "model runner (c04chan) failed: " + err[-1000:], {"theorem_or_obligation": "model runner c04chan"})
        return {}
    seen = {}
    for sc in scns:
        for law, k, detail in monitor(c02, sc, impl[sc.id]):
            seen.setdefault(law, []).append((sc, k, detail))
    known = {f["key"] for f in ctx.load_findings() if f["property"] == ctx.pid}
    nshrunk = 0
    for law, lst in seen.items():
        sc, k, detail = min(lst, key=lambda x: (x[1], len(x[0].sessions)))
        small = sc.clone(sc.ops[:k + 1])
        if nshrunk < 3 and not ctx.replay and law not in known:
            nshrunk += 1

            def still_bad(c, law=law):
                rc2, im2, _ = run_impl(ctx, c02, [c], tag="shrink")
                return rc2 == 0 and c.id in im2 and len(im2[c.id]) == len(c.ops) and any(l == law for l, _, _ in monitor(c02, c, im2[c.id]))
            small = c02.shrink(small, still_bad, 12 if quick else 120)
            rc2, im2, _ = run_impl(ctx, c02, [small], tag="shrink")
            dd = [d for l, _, d in monitor(c02, small, im2.get(small.id, [])) if l == law]
            detail = dd[0] if dd else detail
        ctx.violation("monitor", law, "law %s fails on the implementation's answers (%d requests in %d scenarios this run): %s"
                      % (law, len(lst), len(set(x[0].id for x in lst)), detail),
                      {"part": "chan", "scenario": small.replay(), "law": law, "detail": detail})
    mism = 0
    nq = {}
    cells = {}
    compared = 0
    shown = denied = 0
    for sc in scns:
        mo = model.get(sc.id, [])
        prev = c02.View([])
        for k, (kind, args) in enumerate(sc.ops):
            if k >= len(mo) or mo[k].oos:
                break
            iv, mv = impl[sc.id][k], mo[k]
            if iv.skipped:
                prev = c02.carry(prev, iv)
                continue
            if kind in QUERIES:
                s = int(args[0])
                u = sc.acting(args)
                st = iv if kind == "sqdata" else prev
                pu = st.users.get(u)
                cls = "%s:%s:%s:asked-as-%s:%s" % (
                    sc.kind, kind, "channel-reader" if (pu and pu["chan"]) else "no-entry" if pu is None else "subscriber",
                    args[2], "R" if st.eff(u) & R else "no-R")
                cells[cls] = cells.get(cls, 0) + 1
                nq[kind] = nq.get(kind, 0) + 1
                if kind != "qdel":
                    if answer(iv, s)[0]:
                        shown += 1
                    elif st.lastid > 0 and not (st.eff(u) & R):
                        denied += 1
                a, b = proj(iv, s, kind), proj(mv, s, kind)
                compared += 1
                if a != b or iv.state_key() != mv.state_key():
                    mism += 1
                    if not seen and mism == 1:
                        ctx.violation("corr", "correspondence-chan-history",
                                      "model (Sys/FanoutHistC04.v) and implementation disagree on the answer of op %d %s %s: implementation %s, model %s%s"
                                      % (k, kind, args, json.dumps(a)[:500], json.dumps(b)[:500],
                                         "" if iv.state_key() == mv.state_key() else " (and the topic state differs)"),
                                      {"part": "chan", "correspondence": "answers of {get data} / {get del} / {sub get=data} on fan-out topics (FanoutHistC04.v)",
                                       "scenario": sc.clone(sc.ops[:k + 1]).replay()})
                    break
            prev = c02.carry(prev, iv)
    noread_chn = sum(n for c, n in cells.items() if c.startswith("chn:qdata:subscriber:asked-as-c:no-R"))
    return {
        "evaluations": len(scns), "distinct_nontrivial": sum(1 for sc in scns if any(o[0] in QUERIES for o in sc.ops)),
        "traces_validated_against_impl": len(scns), "queries": nq, "queries_compared_with_model": compared,
        "queries_by_topic_kind_requester_name_and_permission": dict(sorted(cells.items())),
        "history_queries_of_subscribers_without_R_addressed_by_the_channel_name": noread_chn,
        "history_answers_with_messages": shown, "history_answers_empty_for_lack_of_R_on_a_topic_with_messages": denied,
        "monitor_failures": sum(len(v) for v in seen.values()), "correspondence_mismatches": mism,
        "impl_wall_s": round(t_impl, 1), "wall_s": round(time.time() - t00, 1)}


RULE4 = ("channel part: seeded model-guided fan-out histories (request generator of tools/props/c02.py: attach under either name / leave / "
         "unsubscribe / disconnect / own and admin permission edits / evict / publish, 6-18 requests after the initial attachments) over "
         "72% channel-enabled groups, 18% plain groups, 10% p2p topics; 3-6 users x 0-2 connections + 0-2 root connections acting on behalf "
         "of users; members drawn from populations in which half lack R in want, in given or in both; stored channel readers (want JRP or "
         "JP); after 60% of the requests 1-3 queries of attached connections (half of them chosen among connections of users without R): "
         "{get what=data} (75%) / {get what=del} (25%) with since / before / limit around lastID, on channel-enabled groups addressed by the "
         "OTHER name of the topic half of the time (chnXXX by a session attached as grpXXX and vice versa), chnXXX on plain groups 10%, "
         "root connections asking on behalf of another user 30%; 40% of the successful {sub} replaced by {sub get=data}; "
         "non-trivial = at least one query")
TRUSTED4 = [
    "harness/overlay/server/zz_verif_c04chan_test.go (TestVerifC04Chan) on top of zz_verif_c01q_test.go / zz_verif_c02_test.go: real hub / topic / session code above memverif, one request at a time, state dump (perUser want/given/deleted/isChan, attached sessions) at quiescence",
    "harness/runner/r_c04chan.ml: runs the extracted hstep_c04 (Sys/FanoutHistC04.v) and, for the other requests, the C01 query runner / C02 runner on the same lines",
    "tools/props/c04chan.py monitor: python restatement of read_gate_c04 on the implementation's state dump and of the no-deletion history (acknowledged numbers) for history-exact",
    "projection compared for the channel part: per query the {data} frames (number, content, author, topic name) in order, {meta del}, the reply codes, and the dumped topic state",
    "model scope (channel part): no {del msg} in these histories (deletion log empty: dellog-needs-read can only fail if a {meta del} is invented), store never fails, topic stays loaded, {sub get=data} judged only when the request attached the session",
]
