"""C13 part "session store and the stop notice": the requests that terminate a user's sessions must be answered and
must leave every other session served.

Model coq/Sys/EvictStoreC13.v (theorems c13_evict_* of coq/Props/PropC13.v); driver TestVerifC13Evict
(harness/overlay/server/zz_verif_c13ev_test.go): sessions created by the real SessionStore.NewSession - websocket-like
ones and LONG POLLING ones driven through the real serveLongPoll (between polls nobody reads their stop channel) -;
model runner harness/runner/r_c13ev.ml.

Scenarios: life cycles of an account driven by a root session ({acc user=V status=susp}, {acc status=ok}, suspended
again, {del what=user user=V}, also self-suspension of root, self-deletion, invalid states, non-root attempts) in every
order, interleaved with requests of V's own sessions (websocket, stalled websocket, idle long polling), of other users'
sessions, new connections and log-ins, polls, disconnects, and junk from the C13 generator.

Laws on the IMPLEMENTATION's trace (a failure = VIOLATION with the scenario prefix as replay):
  session-store-hang@<site> / read-loop-hang@<site>   a request's dispatch never returns (every goroutine parked)
  bystander-not-served     after an operation the bystander's {get}, SessionStore.Get of its sid, a new connection
                           (NewSession + {hi} + poll) or its removal (Delete) is not served within the deadline
  server-not-at-rest       no quiescence after an operation
  unanswered-<kind> / id-echo-<kind> / error-not-silence   (tools/props/c13.py monitor) on the requests of connections
                           that are being read; a long-polling request is judged when the client polls right after it
Correspondence: after every operation cached / lru / len(stop) / user / root of every session and the users table of the
implementation = the extracted model's."""
import json
import os
import re
import subprocess

import vlib
from props import c13gen as G

USERS = ["u1", "u2", "u3", "u4", "ur"]
PH = {"u1": "@U1@", "u2": "@U2@", "u3": "@U3@", "u4": "@U4@", "ur": "@UR@"}
KNOWN_SELF = "evict-hangs-after-unpolled-self-deletion"
KNOWN_SELF_SUSP = "acc-self-suspension-reply-lost"


def hx(m):
    return (json.dumps(m) if not isinstance(m, bytes) else m.decode("latin1")).encode("latin1").hex()


class Op:
    __slots__ = ("line", "tok", "kind", "sess", "msg", "tag")

    def __init__(self, line, tok, kind="", sess="", msg=None, tag=""):
        self.line, self.tok, self.kind, self.sess, self.msg, self.tag = line, tok, kind, sess, msg, tag


class Scn:
    """builds a scenario and keeps the shadow state the generator needs (which sessions may still send requests)"""

    def __init__(self, name):
        self.name = name
        self.ops = []
        self.sess = {}      # name -> dict(kind, user, stalled, usable)
        self.ustate = {u: "ok" for u in USERS}
        self.n = 0

    def _id(self):
        self.n += 1
        return "q%d" % self.n

    def new(self, name, kind):
        self.sess[name] = dict(kind=kind, user=None, stalled=False, usable=True)
        self.ops.append(Op("new %s %s" % (name, kind), "new:%s:%s" % (name, kind), "new", name))

    def req(self, name, msg, tok="nop", tag="", kind="req"):
        self.ops.append(Op("req %s %s" % (name, hx(msg)), tok, kind, name, msg, tag))

    def hi(self, name):
        self.req(name, {"hi": {"id": self._id(), "ver": "0.22", "ua": "c13ev/1.0"}})

    def login(self, name, user):
        # whether the implementation accepts it decides the model's label (filled in after the run)
        self.req(name, {"login": {"id": self._id(), "scheme": "token", "secret": PH[user].replace("U", "T")}}, tok="login:%s:%s" % (name, user), kind="login")
        if self.ustate[user] == "ok":
            self.sess[name]["user"] = user

    def connect(self, name, kind, user):
        self.new(name, kind)
        self.hi(name)
        if kind == "lp":
            self.poll(name)
        self.login(name, user)
        if kind == "lp":
            self.poll(name)

    def poll(self, name):
        self.ops.append(Op("poll %s" % name, "poll:%s" % name, "poll", name))

    def stall(self, name):
        self.sess[name]["stalled"] = True
        self.ops.append(Op("stall %s" % name, "stall:%s" % name, "stall", name))

    def resume(self, name):
        self.sess[name]["stalled"] = False
        self.ops.append(Op("resume %s" % name, "resume:%s" % name, "resume", name))

    def disc(self, name):
        self.sess[name]["usable"] = False
        self.ops.append(Op("disc %s" % name, "disc:%s" % name, "disc", name))

    def _evicted(self, user, skip=None):
        for n, s in self.sess.items():
            if s["user"] == user and n != skip:
                s["usable"] = False

    def acc(self, name, target, state):
        """{acc user=target status=state} sent by session name"""
        s = self.sess[name]
        m = {"acc": {"id": self._id(), "status": state}}
        if target != "-":
            m["acc"]["user"] = PH[target]
        canon = {"ok": "ok", "susp": "susp", "del": "del", "undef": "undef"}.get(state.lower(), "bad")
        if state == "":
            # `msg.Acc.State != ""` is false: not a request to change the state at all (ErrMalformed)
            self.req(name, m, tag="lifecycle")
            return
        self.req(name, m, tok="acc:%s:%s:%s" % (name, target, canon), tag="lifecycle")
        tu = s["user"] if target == "-" else target
        if s["user"] == "ur" and tu and self.ustate.get(tu) not in (None, "none") and canon in ("ok", "susp", "del") and self.ustate[tu] != canon:
            if canon != "ok":
                self._evicted(tu)
            self.ustate[tu] = canon

    def deluser(self, name, target, hard=False):
        s = self.sess[name]
        m = {"del": {"id": self._id(), "what": "user"}}
        if target != "-":
            m["del"]["user"] = PH[target]
        if hard:
            m["del"]["hard"] = True
        self.req(name, m, tok="deluser:%s:%s" % (name, target), tag="lifecycle")
        tu = s["user"] if target == "-" else target
        if s["user"] and (tu == s["user"] or s["user"] == "ur"):
            self._evicted(tu, skip=name)
            self.ustate[tu] = "none"
            if tu == s["user"]:
                s["usable"] = False

    def usable(self, pred=lambda n, s: True):
        return [n for n, s in self.sess.items() if s["usable"] and not s["stalled"] and pred(n, s)]

    def lines(self):
        return [o.line for o in self.ops]


MISC = [
    lambda i: {"get": {"id": i, "topic": "me", "what": "desc"}},
    lambda i: {"sub": {"id": i, "topic": "me"}},
    lambda i: {"leave": {"id": i, "topic": "me"}},
    lambda i: {"get": {"id": i, "topic": "fnd", "what": "sub"}},
    lambda i: {"sub": {"id": i, "topic": "new"}},
    lambda i: {"pub": {"id": i, "topic": "@U3@", "content": "x"}},
    lambda i: {"sub": {"id": i, "topic": "@U2@"}},
    lambda i: {"acc": {"id": i, "status": "susp"}},                       # non-root: refused
    lambda i: {"acc": {"id": i, "user": "@U4@", "status": "susp"}},     # another's account by non-root: refused
    lambda i: {"del": {"id": i, "what": "user", "user": "@U4@"}},        # another's account by non-root: refused
    lambda i: {"note": {"topic": "me", "what": "kp"}},
]


def junk(rng):
    """one message of the C13 generator that cannot change who is logged in / which accounts exist"""
    for _ in range(20):
        m = G.gen_msg(rng, G.pick(rng, ["hi", "sub", "leave", "pub", "get", "set", "del", "note", "acc"]))
        if not isinstance(m, dict):
            continue
        if isinstance(m.get("del"), dict) and str(m["del"].get("what", "")).lower() not in ("msg", "topic", "sub", "cred"):
            continue
        if "acc" in m:
            if not isinstance(m["acc"], dict):
                continue
            m["acc"].pop("status", None)
            m["acc"]["login"] = False
        if "login" in m or "extra" in m:
            continue
        try:
            raw = G.dumps(m)
        except Exception:
            continue
        if len(raw) == 0 or len(raw) > 20000:
            continue
        return m
    return {"get": {"id": "j", "topic": "me", "what": "desc"}}


def misc_req(rng, sc, name):
    if sc.sess[name]["user"] == "ur":
        # a root session's junk may legitimately suspend / delete accounts: only harmless requests
        m = rng.choice(MISC[:7])(sc._id())
    elif rng.random() < 0.3:
        m = junk(rng)
    else:
        m = rng.choice(MISC)(sc._id())
    sc.req(name, m, tag="misc")
    if sc.sess[name]["kind"] == "lp" and rng.random() < 0.7:
        sc.poll(name)


def base_population(sc, rng=None, full=True):
    """V = u1: websocket v1, idle long polling v2, websocket v3 (stalled later); u2: w1 (lp), w2 (ws); root: r1 (ws), r2 (lp);
    u3: x1 (ws)"""
    want = [("v1", "ws", "u1"), ("v2", "lp", "u1"), ("v3", "ws", "u1"), ("w1", "lp", "u2"), ("w2", "ws", "u2"),
            ("r1", "ws", "ur"), ("r2", "lp", "ur"), ("x1", "ws", "u3")]
    if not full and rng is not None:
        keep = [w for w in want if w[0] in ("r1",) or rng.random() < 0.7]
        if not any(w[2] == "u1" for w in keep):
            keep.append(want[1])
        want = keep
        rng.shuffle(want)
    for n, k, u in want:
        sc.connect(n, k, u)


def fixed_scenarios():
    res = []
    # the life cycles of an account, by a root websocket and by a root long-polling session, with V's sessions idle
    cycles = {
        "susp-ok-susp": [("acc", "susp"), ("acc", "ok"), ("acc", "susp")],
        "susp-del": [("acc", "susp"), ("del", None)],
        "susp-ok-del": [("acc", "susp"), ("acc", "ok"), ("del", None)],
        "del-del": [("del", None), ("del", None)],
        "delstate-ok-susp-ok-del": [("acc", "del"), ("acc", "ok"), ("acc", "susp"), ("acc", "ok"), ("del", None)],
        "susp-susp-undef-bad-ok-susp": [("acc", "susp"), ("acc", "susp"), ("acc", "undef"), ("acc", "nosuch"), ("acc", "ok"), ("acc", "SUSP")],
    }
    for cname, steps in cycles.items():
        for root in ("r1", "r2"):
            for stall in (False, True):
                sc = Scn("cycle-%s-%s%s" % (cname, root, "-stalled" if stall else ""))
                base_population(sc)
                if stall:
                    sc.stall("v3")
                for what, st in steps:
                    if what == "acc":
                        sc.acc(root, "u1", st)
                    else:
                        sc.deluser(root, "u1")
                    if root == "r2":
                        sc.poll("r2")
                    # bystanders of other users go on
                    sc.req("w2", {"get": {"id": sc._id(), "topic": "me", "what": "desc"}}, tag="misc")
                    sc.req("w1", {"get": {"id": sc._id(), "topic": "me", "what": "desc"}}, tag="misc")
                    sc.poll("w1")
                if stall:
                    sc.resume("v3")
                sc.poll("v2")
                res.append(sc)
    # V comes back after the un-suspension with new connections, and is evicted again
    sc = Scn("relogin")
    base_population(sc)
    sc.acc("r1", "u1", "susp")
    sc.connect("v4", "lp", "u1")      # refused: suspended
    sc.acc("r1", "u1", "ok")
    sc.connect("v5", "lp", "u1")
    sc.connect("v6", "ws", "u1")
    sc.stall("v6")
    sc.acc("r1", "u1", "susp")
    sc.acc("r1", "u1", "ok")
    sc.connect("v7", "lp", "u1")
    sc.deluser("r1", "u1", hard=True)
    sc.resume("v6")
    for n in ("v2", "v5", "v7"):
        sc.poll(n)
    res.append(sc)
    # root suspends / deletes itself; users delete themselves (websocket: the notice is taken at once; long polling: the
    # client polls)
    sc = Scn("self")
    base_population(sc)
    sc.deluser("v1", "-")
    sc.deluser("w1", "-")
    sc.poll("w1")
    sc.acc("r2", "-", "susp")
    sc.poll("r2")
    sc.req("x1", {"get": {"id": sc._id(), "topic": "me", "what": "desc"}}, tag="misc")
    res.append(sc)
    sc = Scn("self-root-ws")
    base_population(sc)
    sc.acc("r1", "ur", "susp")
    sc.req("x1", {"get": {"id": sc._id(), "topic": "me", "what": "desc"}}, tag="misc")
    res.append(sc)
    return res


def known_scenarios():
    """the recorded finding (KNOWN_FINDINGS.txt key evict-hangs-after-unpolled-self-deletion): run once per check"""
    sc = Scn("known-self-deletion-unpolled")
    sc.connect("v2", "lp", "u1")
    sc.connect("r1", "ws", "ur")
    sc.deluser("v2", "-")          # the client does not poll again
    sc.deluser("r1", "u1")
    return [sc]


def gen_random(rng, k):
    sc = Scn("rnd%d" % k)
    base_population(sc, rng, full=rng.random() < 0.5)
    n_extra = 0
    victims = ["u1", "u2"]
    for _ in range(rng.randint(10, 22)):
        r = rng.random()
        roots = sc.usable(lambda n, s: s["user"] == "ur")
        if r < 0.38 and roots:
            root = rng.choice(roots)
            v = rng.choice(victims) if rng.random() < 0.9 else "u3"
            rr = rng.random()
            if rr < 0.8:
                cur = sc.ustate[v]
                # aim at a change of state: suspend what is ok, restore what is suspended
                st = rng.choice(["ok", "susp", "susp", "del"]) if rng.random() < 0.3 else ("susp" if cur == "ok" else "ok" if rng.random() < 0.7 else "del")
                if rng.random() < 0.08:
                    st = rng.choice(["undef", "zzz", "", "SUSP", "Ok"])
                sc.acc(root, v, st)
            else:
                sc.deluser(root, v, hard=rng.random() < 0.5)
            if sc.sess[root]["kind"] == "lp" and rng.random() < 0.8:
                sc.poll(root)
        elif r < 0.62:
            us = sc.usable(lambda n, s: s["user"] is not None)
            if us:
                misc_req(rng, sc, rng.choice(us))
        elif r < 0.70:
            lps = [n for n, s in sc.sess.items() if s["kind"] == "lp"]
            if lps:
                sc.poll(rng.choice(lps))
        elif r < 0.78:
            ws = [n for n, s in sc.sess.items() if s["kind"] == "ws" and s["user"] != "ur"]
            if ws:
                n = rng.choice(ws)
                if sc.sess[n]["stalled"]:
                    sc.resume(n)
                elif sc.sess[n]["usable"]:
                    sc.stall(n)
        elif r < 0.90:
            # a new connection of a victim (accepted only while the account is ok)
            n_extra += 1
            sc.connect("n%d" % n_extra, rng.choice(["lp", "ws"]), rng.choice(victims))
        elif r < 0.94:
            ws = sc.usable(lambda n, s: s["kind"] == "ws" and s["user"] != "ur")
            if ws:
                sc.disc(rng.choice(ws))
        else:
            # self-deletion: through a websocket that is being read, or through long polling followed by a poll
            us = sc.usable(lambda n, s: s["user"] in ("u1", "u2", "u3"))
            if us:
                n = rng.choice(us)
                sc.deluser(n, "-")
                if sc.sess[n]["kind"] == "lp":
                    sc.poll(n)
    for n, s in sc.sess.items():
        if s["stalled"]:
            sc.resume(n)
    return sc


# ---------------- running ----------------

def run_driver(ctx, scenarios, tag):
    fin = os.path.join(ctx.work, "c13ev_%s_in.txt" % tag)
    fout = os.path.join(ctx.work, "c13ev_%s_out.txt" % tag)
    lines = []
    for name, ls in scenarios:
        lines.append("scn " + name)
        lines += ls
        lines.append("end")
    open(fin, "w").write("\n".join(lines) + "\n")
    if os.path.exists(fout):
        os.remove(fout)
    env = dict(vlib.GOENV, VERIF_IN=fin, VERIF_OUT=fout)
    try:
        p = subprocess.run([os.path.join(vlib.BUILD, "maindrv.test"), "-test.run", "^TestVerifC13Evict$", "-test.count=1", "-test.timeout=%ds" % (300 if ctx.tier == "quick" else 1500)],
                           stdout=subprocess.PIPE, stderr=subprocess.STDOUT, timeout=1700, env=env, cwd=os.path.join(vlib.REPO, "server"))
        rc, log = p.returncode, p.stdout.decode("utf-8", "replace")
    except subprocess.TimeoutExpired as e:
        rc, log = -9, (e.stdout or b"").decode("utf-8", "replace") + "\nTIMEOUT"
    out = open(fout).read().split("\n") if os.path.exists(fout) else []
    res, cur, blk, done = [], None, None, False
    for l in out:
        if l.startswith("scn "):
            cur = {"name": l[4:], "blocks": [], "ended": False}
            res.append(cur)
        elif l == "end":
            if cur:
                cur["ended"] = True
        elif l == "done":
            done = True
        elif l.startswith("begin "):
            blk = {"op": "", "R": None, "F": {}, "P": None, "S": [], "Q": None, "C": []}
            if cur is not None:
                cur["blocks"].append(blk)
        elif blk is None:
            continue
        elif l.startswith("op "):
            blk["op"] = l[3:]
        elif l.startswith("R "):
            blk["R"] = l[2:]
        elif l.startswith("F "):
            w = l.split()
            blk["F"][w[1]] = w[2]
        elif l.startswith("P "):
            blk["P"] = l[2:]
        elif l.startswith("Q "):
            blk["Q"] = l[2:]
        elif l.startswith("C "):
            blk["C"] = l[2:].split(",")
        elif l.startswith(("S ", "U ", "X ")):
            blk["S"].append(l)
    fatal = None
    if not done:
        from props import c13
        msg, site = c13.site_from_log(log)
        fatal = dict(scenario=len(res) - 1, msg=msg, site=site, log=log[-5000:], rc=rc)
    return res, fatal


def kvs(s):
    d = {}
    for w in s.split():
        if "=" in w:
            a, b = w.split("=", 1)
            d[a] = b
    return d


def unhx(h):
    return "" if h == "-" else bytes.fromhex(h).decode("utf-8", "replace")


def replay_of(sc_name, lines, law, detail):
    return {"part": "c13evict", "law": law, "detail": detail, "scenario_name": sc_name, "scenario": lines,
            "how": "python3 tools/check.py C13 --replay <this file>: the operations are fed to TestVerifC13Evict (harness/overlay/server/zz_verif_c13ev_test.go)"}


def check_scenario(ctx, st, sc, rec, fatal_here):
    """laws on the implementation's trace; returns the runner tokens (with the log-in outcomes) of the operations that ran"""
    from props import c13
    lines = sc.lines()
    blocks = rec["blocks"] if rec else []
    toks = []
    results, items = [], []
    self_deleted_unpolled = set()    # sessions that deleted their own account while nobody reads their stop channel
    unpolled = {}                    # long-polling session -> requests sent since its last poll
    for k, (op, b) in enumerate(zip(sc.ops, blocks)):
        st["ops"] += 1
        st["by_op"][op.kind] = st["by_op"].get(op.kind, 0) + 1
        pre = lines[:k + 1]
        R = b["R"] or ""
        tok = op.tok
        if op.kind in ("req", "login"):
            kv = kvs(R)
            res = kv.get("res", "?")
            frames = c13.parse_frames(b["F"].get(op.sess, "-"))
            lp = sc.sess[op.sess]["kind"] == "lp"
            judged = not lp and not sc.sess[op.sess]["stalled"] or False
            if lp:
                unpolled[op.sess] = unpolled.get(op.sess, 0) + 1
            if lp and k + 1 < len(blocks) and sc.ops[k + 1].kind == "poll" and sc.ops[k + 1].sess == op.sess:
                # the client polls right after the request: what the poll returns is the answer, provided nothing else
                # was waiting to be polled
                frames = c13.parse_frames(blocks[k + 1]["F"].get(op.sess, "-"))
                judged = (blocks[k + 1]["R"] or "").startswith(("ok", "gone")) and res == "ok" and unpolled[op.sess] == 1
            if op.kind == "login":
                ok = any(f[0] == "c" and f[1] == 200 and f[2] == op.msg["login"]["id"] for f in frames)
                if not ok and lp and not judged:
                    ok = None
                tok = tok if ok else "nop"
                st["logins"][str(ok)] = st["logins"].get(str(ok), 0) + 1
            if res.startswith("HANG"):
                site = res[5:]
                stuck = [l.split()[1] for l in b["S"] if l.startswith("X ") and "stop=1" in l]
                if "EvictUser" in site:
                    if stuck and all(n in self_deleted_unpolled for n in stuck):
                        law = KNOWN_SELF
                    else:
                        law = "session-store-hang@EvictUser"
                    txt = ("SessionStore.EvictUser waits for ever on the full stop channel of session(s) %s while holding SessionStore.lock: "
                           "the request %s of session %s is never answered; probe of the other sessions: %s" % (stuck, json.dumps(op.msg)[:200], op.sess, b["P"]))
                else:
                    law = "read-loop-hang@" + site
                    txt = "the request %s of session %s never returns (every goroutine parked; blocked in %s); probe: %s" % (json.dumps(op.msg)[:200], op.sess, site, b["P"])
                ctx.violation("monitor", law, txt, replay_of(sc.name, pre, law, txt))
                st["hangs"][law] = st["hangs"].get(law, 0) + 1
                if b["P"] and b["P"] != "ok" and law != KNOWN_SELF:
                    ctx.violation("monitor", "bystander-not-served", "while that request hangs: " + b["P"], replay_of(sc.name, pre, "bystander-not-served", b["P"]))
                # the model must block at the same operation
                return toks + [tok], k
            r = dict(sess=op.sess, dec=kv.get("dec", "?"), id=unhx(kv.get("id", "-")), topic=unhx(kv.get("topic", "-")), st=kv.get("st", "v1u1") + "____",
                     res="ok" if res in ("ok", "dead", "gone") or res.startswith("http") else res, term=res in ("dead", "gone"), frames=frames, others=0, cl=not judged)
            st["req_results"][res.split(":")[0]] = st["req_results"].get(res.split(":")[0], 0) + 1
            if judged:
                st["judged"] += 1
            for law, _, detail in c13.monitor({}, None, [None], [r]):
                w = op.tok.split(":")
                if w[0] == "acc" and law in ("id-echo-acc", "unanswered-acc") and w[3] in ("susp", "del") and sc.sess[op.sess]["user"] == "ur" and w[2] in ("-", "ur"):
                    # a root session suspends ITS OWN account: EvictUser(uid, "") stops the requester too (recorded finding)
                    law = KNOWN_SELF_SUSP
                txt = "%s [session %s (%s)] input: %s" % (detail, op.sess, sc.sess[op.sess]["kind"], json.dumps(op.msg)[:300])
                ctx.violation("monitor", law, txt, replay_of(sc.name, pre + (lines[k + 1:k + 2] if lp else []), law, txt))
            if op.tok.startswith("deluser:") and op.tok.endswith(":-") and (lp or sc.sess[op.sess]["stalled"]) and res == "ok":
                self_deleted_unpolled.add(op.sess)
        elif R.startswith("HANG") or R.startswith("PANIC"):
            law = ("read-loop-hang@" if R.startswith("HANG") else "panic@") + R.split(":", 1)[1][:80]
            txt = "operation %s: %s; probe %s" % (op.line, R, b["P"])
            ctx.violation("monitor", law, txt, replay_of(sc.name, pre, law, txt))
            return toks, k
        if op.kind == "poll":
            unpolled[op.sess] = 0
        if op.kind == "poll" and op.sess in self_deleted_unpolled and R.startswith(("ok", "gone")):
            self_deleted_unpolled.discard(op.sess)
        if b["Q"]:
            txt = "after %s the server does not come to rest: %s" % (op.line, b["Q"])
            ctx.violation("monitor", "server-not-at-rest", txt, replay_of(sc.name, pre, "server-not-at-rest", txt))
            return toks, k
        toks.append(tok)
        if b["P"] is None and fatal_here is not None:
            break
        if b["P"] != "ok":
            txt = "after operation %d (%s) the bystander is not served: %s" % (k + 1, op.line[:120], b["P"])
            ctx.violation("monitor", "bystander-not-served", txt, replay_of(sc.name, pre, "bystander-not-served", txt))
            st["probe_fail"] += 1
        else:
            st["probes_ok"] += 1
    if fatal_here is not None and not any((b["R"] or "").find("HANG") >= 0 or b["Q"] for b in blocks):
        k = len(blocks) - 1
        law = "server-crashed@" + fatal_here["site"]
        txt = "the server process died during operation %d (%s) of scenario %s: %s" % (k + 1, lines[k] if 0 <= k < len(lines) else "?", sc.name, fatal_here["msg"])
        ctx.violation("monitor", law, txt, dict(replay_of(sc.name, lines[:k + 1], law, txt), trace=fatal_here["log"][-2500:]))
    return toks, len(toks)


def model_compare(ctx, st, cases):
    """cases: (sc, rec, toks)"""
    if not cases:
        return
    lines = ["E 0 " + " ".join(toks) for _, _, toks in cases]
    rc, ans, err = ctx.run_model("c13ev", lines)
    if rc != 0 or len(ans) != len(cases):
        ctx.violation("proof", "runner-crashed", "model runner failed on the session-store scenarios: " + err[-800:], {"theorem_or_obligation": "model runner c13ev"})
        return
    mism = []
    for (sc, rec, toks), a in zip(cases, ans):
        mo = a.split("|")
        for i, b in enumerate(rec["blocks"][:len(toks)]):
            got = mo[i] if i < len(mo) else "?"
            want = ";".join(l for l in b["S"] if l.startswith(("S ", "U ")))
            if got.startswith("BLOCKS") or got.startswith("FATAL"):
                st["model_blocks"][got.split(":")[1] if ":" in got else got] = st["model_blocks"].get(got.split(":")[1] if ":" in got else got, 0) + 1
                if not ((b["R"] or "").find("HANG") >= 0):
                    mism.append((sc, i, want, got))
                break
            st["compared"] += 1
            if want != got:
                mism.append((sc, i, want, got))
                break
    st["mismatches"] = len(mism)
    st["first_mismatches"] = [{"scenario": sc.lines()[:i + 1], "impl": want, "model": got} for sc, i, want, got in mism[:3]]
    from props import c13x
    if mism and not c13x.real_violations(ctx):
        sc, i, want, got = mism[0]
        d = [(x, y) for x, y in zip(want.split(";"), got.split(";")) if x != y]
        ctx.violation("corr", "correspondence-session-store", "model coq/Sys/EvictStoreC13.v and implementation disagree after operation %d (%s) of scenario %s: %s; no monitor failure found"
                      % (i + 1, sc.ops[i].line[:100], sc.name, d[:4]),
                      {"correspondence": "sessCache / lru membership, len(stop), user and level of every session, users table after every operation",
                       "part": "c13evict", "scenario": sc.lines()[:i + 1], "impl": want, "model": got, "more": len(mism)})


class ReplayScn:
    """a scenario read back from a replay file (no shadow state: laws only)"""

    def __init__(self, name, lines):
        self.name = name
        self.ops = []
        self.sess = {}
        for l in lines:
            w = l.split()
            if w[0] == "new":
                self.sess[w[1]] = dict(kind=w[2], user=None, stalled=False, usable=True)
                self.ops.append(Op(l, "new:%s:%s" % (w[1], w[2]), "new", w[1]))
            elif w[0] == "req":
                try:
                    m = json.loads(bytes.fromhex(w[2]).decode("utf-8", "replace"))
                except Exception:
                    m = None
                tok, kind = "nop", "req"
                if isinstance(m, dict) and isinstance(m.get("login"), dict):
                    kind = "login"
                if isinstance(m, dict) and isinstance(m.get("del"), dict) and m["del"].get("what") == "user" and not m["del"].get("user"):
                    tok = "deluser:%s:-" % w[1]
                self.ops.append(Op(l, tok, kind, w[1], m if isinstance(m, dict) else {}))
            else:
                self.ops.append(Op(l, "%s:%s" % (w[0], w[1]), w[0], w[1]))
                if w[0] in ("stall", "resume") and w[1] in self.sess:
                    self.sess[w[1]]["stalled"] = w[0] == "stall"

    def lines(self):
        return [o.line for o in self.ops]


def run_part(ctx, stats):
    quick = ctx.tier == "quick"
    rng = ctx.rng
    st = stats.setdefault("c13evict", {"scenarios": 0, "ops": 0, "by_op": {}, "req_results": {}, "logins": {}, "judged": 0, "probes_ok": 0, "probe_fail": 0,
                                       "hangs": {}, "compared": 0, "mismatches": 0, "model_blocks": {}})
    if ctx.replay:
        rp = json.load(open(ctx.replay))["replay"]
        scen = [ReplayScn(rp.get("scenario_name", "replay"), rp["scenario"])]
    else:
        scen = fixed_scenarios() + [gen_random(rng, k) for k in range(40 if quick else 1200)] + known_scenarios()
    pending = scen
    cases = []
    restarts = 0
    while pending:
        res, fatal = run_driver(ctx, [(s.name, s.lines()) for s in pending], "r%d" % restarts)
        for k, sc in enumerate(pending):
            if fatal is not None and k > fatal["scenario"]:
                break
            rec = res[k] if k < len(res) else None
            fatal_here = fatal if fatal is not None and k == fatal["scenario"] else None
            st["scenarios"] += 1
            toks, n = check_scenario(ctx, st, sc, rec, fatal_here)
            if rec is not None and not isinstance(sc, ReplayScn):
                cases.append((sc, rec, toks))
        if fatal is None:
            break
        restarts += 1
        st["driver_restarts"] = restarts
        if fatal["scenario"] < 0 or restarts > (12 if quick else 200) or ctx.replay:
            st["scenarios_not_run_after_restart_cap"] = max(0, len(pending) - fatal["scenario"] - 1)
            if fatal["scenario"] < 0:
                ctx.violation("corr", "driver-crashed", "TestVerifC13Evict failed before the first scenario: %s\n%s" % (fatal["msg"], fatal["log"][-1500:]), {"correspondence": "driver run"})
            break
        pending = pending[fatal["scenario"] + 1:]
    if not ctx.replay:
        ok, out = ctx.build_runner()
        if not ok:
            ctx.violation("proof", "extraction-broken", "model extraction/runner build failed: " + out[-1500:], {"theorem_or_obligation": "extraction of the model"})
            return
        model_compare(ctx, st, cases)
