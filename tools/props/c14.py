"""C14 attach/detach/disconnect/delete races.

Theorems: coq/Props/PropC14.v over the interleaving model coq/Sys/Lifecycle.v.
Implementation side: harness/overlay/server/zz_verif_c14_test.go runs BURSTS of concurrent
requests on the real hub/topics/sessions above memverif and prints, at quiescence, what the
real objects hold; the laws below are evaluated on that output.  Sequential scenarios (one
request per burst) are compared exactly with the extracted model (harness/runner/r_c14.ml).
Thorough tier: the same bursts with a -race build of the driver (testing in support of the
"shared data only under its lock/atomic" clause, which no Gallina model carries)."""
import json
import os
import re
import subprocess
import time
import vlib
from props import c14d
from props import c14f

EXPECT_REPLY = ("sub", "leave", "deltopic", "deluser")


# ---------------------------------------------------------------- scenarios
class Scn:
    def __init__(self, sid):
        self.id = sid
        self.users = []
        self.topics = {}      # k -> dict(kind, owner, members, u1, u2)
        self.sessions = {}    # si -> dict(user, cap)
        self.bursts = []      # list of list of lines ("q si rid kind k arg" | "i what k")
        self.seq = False

    def lines(self):
        out = ["scn %s" % self.id]
        out += ["user %d" % u for u in self.users]
        for k, t in sorted(self.topics.items()):
            if t["kind"] in ("grp", "chn"):
                out.append("%s %d owner=%d members=%s" % (t["kind"], k, t["owner"], ",".join(map(str, t["members"]))))
            elif t["kind"] == "p2p":
                out.append("p2p %d %d %d" % (k, t["u1"], t["u2"]))
            else:
                out.append("me %d %d" % (k, t["owner"]))
        for si, s in sorted(self.sessions.items()):
            out.append("sess %d %d%s%s" % (si, s["user"], (" cap=%d" % s["cap"]) if s.get("cap") else "", " root=1" if s.get("root") else ""))
        for b in self.bursts:
            out += b + ["go"]
        out.append("end")
        return out

    def replay(self):
        d = {"users": self.users, "topics": self.topics, "sessions": self.sessions, "bursts": self.bursts, "seq": self.seq}
        if getattr(self, "allowed", None) is not None:
            d["allowed"] = self.allowed
        return d

    @staticmethod
    def from_replay(sid, r):
        sc = Scn(sid)
        sc.users = r["users"]
        sc.topics = {int(k): v for k, v in r["topics"].items()}
        sc.sessions = {int(k): v for k, v in r["sessions"].items()}
        sc.bursts = r["bursts"]
        sc.seq = r.get("seq", False)
        if "allowed" in r:
            sc.allowed = r["allowed"]
        return sc


def me_of(sc, user):
    for k, t in sc.topics.items():
        if t["kind"] == "me" and t["owner"] == user:
            return k
    return None


def usable(sc, si, k):
    """may session si address topic ref k at all (me of its own user, p2p it is a party of)"""
    t = sc.topics[k]
    u = sc.sessions[si]["user"]
    if t["kind"] == "me":
        return t["owner"] == u
    if t["kind"] == "p2p":
        return u in (t["u1"], t["u2"])
    return True


def natural_form(sc, si, k):
    """the name a user normally uses for a group/channel topic: the channel name for a channel-enabled topic he is not
    a group subscriber of (as the driver's seen())"""
    t = sc.topics[k]
    u = sc.sessions[si]["user"]
    return "chn" if (t["kind"] == "chn" and u != t["owner"] and u not in t["members"]) else "grp"


def gen_setup(rng, sid, seq=False, model_scope=False):
    sc = Scn(sid)
    sc.seq = seq
    nu = rng.randint(2, 4)
    sc.users = list(range(1, nu + 1))
    ng = rng.randint(1, 2)
    for g in range(1, ng + 1):
        owner = rng.choice(sc.users)
        kind = "grp" if rng.random() < (0.6 if model_scope else 0.8) else "chn"
        if kind == "grp":
            members = list(sc.users)
        elif model_scope:
            members = [owner] + [u for u in sc.users if u != owner and rng.random() < 0.4]
        else:
            members = [owner]
        sc.topics[g] = dict(kind=kind, owner=owner, members=members)
    if not model_scope:
        for u in sc.users:
            sc.topics[10 + u] = dict(kind="me", owner=u)
        if rng.random() < 0.5:
            sc.topics[21] = dict(kind="p2p", u1=1, u2=2)
    si = 0
    for u in sc.users:
        for _ in range(rng.randint(1, 2)):
            si += 1
            sc.sessions[si] = dict(user=u)
    if not model_scope and rng.random() < 0.3:
        si += 1
        sc.sessions[si] = dict(user=rng.choice(sc.users), cap=2)
    return sc


def gen_request(rng, sc, si, rid, model_scope=False):
    ks = [k for k in sc.topics if usable(sc, si, k)]
    grp = [k for k in ks if sc.topics[k]["kind"] in ("grp", "chn")]
    u = sc.sessions[si]["user"]
    r = rng.random()
    k = rng.choice(grp) if (grp and rng.random() < 0.75) else rng.choice(ks)
    if r < 0.40:
        return "q %d %s sub %d" % (si, rid, k)
    if r < 0.62:
        return "q %d %s leave %d 0" % (si, rid, k)
    if r < 0.70:
        return "q %d %s leave %d 1" % (si, rid, k)
    if r < 0.80 and not model_scope:
        return "q %d %s pub %d" % (si, rid, k)
    if r < 0.90:
        own = [g for g in grp if sc.topics[g]["owner"] == u]
        if own and (model_scope or rng.random() < 0.8):
            return "q %d %s deltopic %d" % (si, rid, rng.choice(own))
        if grp and not model_scope:
            return "q %d %s deltopic %d" % (si, rid, rng.choice(grp))
        return "q %d %s sub %d" % (si, rid, k)
    if r < 0.96:
        return "q %d %s disc" % (si, rid)
    if not model_scope:
        return "q %d %s deluser" % (si, rid)
    return "q %d %s sub %d" % (si, rid, k)


def gen_normal_request(rng, sc, si, rid, avoid=()):
    """a request that cannot make a topic instance terminate and is not forwarded by the hub to a topic that may be
    loading: no {del topic}, no {del user}, no unsubscribe on a p2p topic (the last party leaving deletes it);
    never on a topic in [avoid]"""
    ks = [k for k in sc.topics if usable(sc, si, k) and k not in avoid]
    if not ks:
        return None
    grp = [k for k in ks if sc.topics[k]["kind"] in ("grp", "chn")]
    u = sc.sessions[si]["user"]
    r = rng.random()
    k = rng.choice(grp) if (grp and rng.random() < 0.75) else rng.choice(ks)
    p2p = sc.topics[k]["kind"] == "p2p"
    if r < 0.42:
        return "q %d %s sub %d" % (si, rid, k)
    if r < 0.64:
        return "q %d %s leave %d 0" % (si, rid, k)
    if r < 0.73:
        return "q %d %s leave %d %d" % (si, rid, k, 0 if p2p else 1)
    if r < 0.84:
        return "q %d %s pub %d" % (si, rid, k)
    if r < 0.97:
        return "q %d %s disc" % (si, rid)
    return "q %d %s sub %d" % (si, rid, k)


def gen_burst_scn(rng, sid):
    """Random bursts whose OUTCOME CLASS is deterministic on the unchanged tree: any number of sessions race on
    subscribe / leave / unsubscribe / publish / disconnect / slow-consumer eviction, but a step that makes a topic
    instance terminate (owner's {del topic}, idle unload, p2p unsubscribe, {del user}) is never in one burst with
    another request that addresses that topic ({del user}: alone in its burst), and every stalled writer is
    released before it.  The races between termination and requests on the SAME topic - whose outcome on the
    unchanged tree depends on the schedule (findings 1-3, 9-11) - are exercised by the corpus scenarios, whose
    possible outcomes are enumerated in the corpus files."""
    sc = gen_setup(rng, sid)
    rid = [0]

    def nr():
        rid[0] += 1
        return "r%d" % rid[0]
    # every session attaches to its 'me' first, one at a time (clients do)
    for si in sorted(sc.sessions):
        sc.bursts.append(["q %d %s sub %d" % (si, nr(), me_of(sc, sc.sessions[si]["user"]))])
    slow = [si for si, s in sc.sessions.items() if s.get("cap")]
    stalled = set()
    for b in range(rng.randint(3, 7)):
        lines = []
        avoid = set()
        solo = False
        if rng.random() < 0.35:
            # a burst in which one topic instance terminates
            lines += ["i unstall %d" % si for si in sorted(stalled)]
            stalled.clear()
            r = rng.random()
            grp = [k for k, t in sc.topics.items() if t["kind"] in ("grp", "chn")]
            p2p = [k for k, t in sc.topics.items() if t["kind"] == "p2p"]
            if r < 0.40 and grp:
                k = rng.choice(grp)
                own = [si for si, x in sc.sessions.items() if x["user"] == sc.topics[k]["owner"]]
                lines.append("q %d %s deltopic %d" % (rng.choice(own), nr(), k))
                avoid.add(k)
            elif r < 0.72:
                k = rng.choice(grp + p2p)
                lines.append("i unload %d" % k)
                avoid.add(k)
            elif r < 0.86 and grp:
                # {del topic} by a non-owner: an unsubscribe that travels through the hub; the hub forwards it to
                # whatever instance is registered, also one whose load is about to fail (seen once under load: lost)
                k = rng.choice(grp)
                non = [si for si, x in sc.sessions.items() if x["user"] != sc.topics[k]["owner"]]
                if non:
                    lines.append("q %d %s deltopic %d" % (rng.choice(non), nr(), k))
                    avoid.add(k)
            elif r < 0.93 and p2p:
                k = p2p[0]
                si = rng.choice([si for si, x in sc.sessions.items() if x["user"] in (sc.topics[k]["u1"], sc.topics[k]["u2"])])
                lines.append("q %d %s leave %d 1" % (si, nr(), k))
                avoid.add(k)
            else:
                lines.append("q %d %s deluser" % (rng.choice(list(sc.sessions)), nr()))
                solo = True
        else:
            for si in slow:
                if si not in stalled and rng.random() < 0.5:
                    lines.append("i stall %d" % si)
                    stalled.add(si)
                elif si in stalled and rng.random() < 0.5:
                    lines.append("i unstall %d" % si)
                    stalled.discard(si)
        if not solo:
            busy = set(int(l.split()[1]) for l in lines if l.startswith("q "))
            active = [si for si in sc.sessions if si not in busy and rng.random() < 0.7] or []
            per = {si: rng.randint(1, 3) for si in active}
            # interleave the textual order (only the per-session order matters)
            while any(per.values()):
                si = rng.choice([s for s, n in per.items() if n > 0])
                per[si] -= 1
                l = gen_normal_request(rng, sc, si, nr(), avoid)
                if l:
                    lines.append(l)
        if lines:
            sc.bursts.append(lines)
    # after the races: everybody asks for every group topic again (deleted ones must be refused)
    lines = ["i unstall %d" % si for si in sorted(stalled)]
    for si in sorted(sc.sessions):
        for k, t in sorted(sc.topics.items()):
            if t["kind"] in ("grp", "chn") and rng.random() < 0.6:
                lines.append("q %d %s sub %d" % (si, nr(), k))
    sc.bursts.append(lines)
    return sc


def gen_chan_scn_c14c(rng, sid):
    """Channel-enabled topics addressed under BOTH names.  One channel-enabled topic (ref 1) whose other users are partly
    group subscribers (they normally say grpXXX) and partly channel readers (chnXXX), optionally a plain group topic
    (ref 2); 1-2 of the non-owner sessions have a 2-slot send queue.  Phases: everybody attaches (a share of them under
    the OTHER name); random mixes of {sub} / {leave} / {leave unsub} under either name, {pub} by the owner, disconnects;
    slow-consumer phases (writers of the small-queue sessions stalled, the owner publishes 3-4 messages: the third
    broadcast finds the queue full and the topic drops the session; then the writers resume); idle unloads (alone on
    their topic); finally every live session re-subscribes under both names.  No step terminates a topic instance in one
    burst with another request on that topic, so the outcome class on the unchanged tree does not depend on the schedule."""
    sc = Scn(sid)
    nu = rng.randint(3, 4)
    sc.users = list(range(1, nu + 1))
    owner = rng.choice(sc.users)
    others = [u for u in sc.users if u != owner]
    members = [u for u in others if rng.random() < 0.4]
    if len(members) == len(others):
        members.remove(rng.choice(members))        # at least one channel reader
    sc.topics[1] = dict(kind="chn", owner=owner, members=[owner] + members)
    plain = rng.random() < 0.5
    if plain:
        sc.topics[2] = dict(kind="grp", owner=rng.choice(sc.users), members=list(sc.users))
    for u in sc.users:
        sc.topics[10 + u] = dict(kind="me", owner=u)
    si = 0
    for u in [owner] + others:
        for _ in range(1 if (u == owner and rng.random() < 0.6) else rng.randint(1, 2)):
            si += 1
            sc.sessions[si] = dict(user=u)
    non_owner = [x for x in sc.sessions if sc.sessions[x]["user"] != owner]
    slow = []
    if rng.random() < 0.75:
        slow = rng.sample(non_owner, min(len(non_owner), rng.randint(1, 2)))
        for x in slow:
            sc.sessions[x]["cap"] = 2
    osess = [x for x in sc.sessions if sc.sessions[x]["user"] == owner]
    rid = [0]

    def nr():
        rid[0] += 1
        return "r%d" % rid[0]

    def other(x):
        return "grp" if natural_form(sc, x, 1) == "chn" else "chn"

    def form(x, p_other):
        return other(x) if rng.random() < p_other else natural_form(sc, x, 1)

    gone = set()        # sessions that disconnected

    def mix_request(x):
        u = sc.sessions[x]["user"]
        r = rng.random()
        if plain and r < 0.12:
            # the plain group topic addressed by a channel name
            rr = rng.random()
            if rr < 0.45:
                return "q %d %s sub 2 0 as=%s" % (x, nr(), "chn" if rng.random() < 0.4 else "grp")
            if rr < 0.9:
                return "q %d %s leave 2 0 as=%s" % (x, nr(), "chn" if rng.random() < 0.5 else "grp")
            return "q %d %s leave 2 1 as=chn" % (x, nr())
        if r < 0.45:
            return "q %d %s sub 1 0 as=%s" % (x, nr(), form(x, 0.4))
        if r < 0.80:
            return "q %d %s leave 1 0 as=%s" % (x, nr(), form(x, 0.5))
        if r < 0.88:
            return "q %d %s leave 1 1 as=%s" % (x, nr(), form(x, 0.5))
        if r < 0.96:
            if u == owner:
                return "q %d %s pub 1" % (x, nr())
            return "q %d %s sub 1 0 as=%s" % (x, nr(), form(x, 0.5))
        gone.add(x)
        return "q %d %s disc" % (x, nr())

    for x in sorted(sc.sessions):
        sc.bursts.append(["q %d %s sub %d" % (x, nr(), me_of(sc, sc.sessions[x]["user"]))])
    sc.bursts.append(["q %d %s sub 1" % (x, nr()) for x in osess])
    sc.bursts.append(["q %d %s sub 1 0 as=%s" % (x, nr(), form(x, 0.3)) for x in non_owner if rng.random() < 0.9])
    stalled = set()
    for ph in range(rng.randint(3, 6)):
        r = rng.random()
        if r < 0.5:
            lines = ["i unstall %d" % x for x in sorted(stalled)] if rng.random() < 0.5 else []
            if lines:
                stalled.clear()
            act = [x for x in sc.sessions if x not in gone and rng.random() < 0.65]
            per = {x: rng.randint(1, 2) for x in act}
            while any(per.values()):
                x = rng.choice([y for y, n in per.items() if n > 0])
                per[x] -= 1
                if x in gone:
                    continue
                lines.append(mix_request(x))
            if lines:
                sc.bursts.append(lines)
        elif r < 0.85 and slow:
            # slow-consumer phase: the small-queue sessions (re)attach, their writers stall, the owner publishes
            k = 2 if (plain and rng.random() < 0.3) else 1
            if k == 1:
                o = rng.choice(osess)
            else:
                o = rng.choice([x for x in sc.sessions if x not in slow] or osess)     # every user may publish in the plain group
            pre = ["q %d %s sub %d" % (o, nr(), k)] if o not in gone else []
            if k == 1:
                pre += ["q %d %s sub 1 0 as=%s" % (x, nr(), form(x, 0.25)) for x in slow if x not in gone and rng.random() < 0.8]
            else:
                pre += ["q %d %s sub 2" % (x, nr()) for x in slow if x not in gone and rng.random() < 0.8]
            if pre:
                sc.bursts.append(pre)
            lines = []
            for x in slow:
                if x not in gone and x not in stalled:
                    lines.append("i stall %d" % x)
                    stalled.add(x)
            if o not in gone:
                lines += ["q %d %s pub %d" % (o, nr(), k) for _ in range(rng.randint(3, 4))]
            if rng.random() < 0.4:
                act = [x for x in non_owner if x not in gone and x not in slow and rng.random() < 0.5]
                lines += [mix_request(x) for x in act]
            sc.bursts.append(lines)
            lines = ["i unstall %d" % x for x in sorted(stalled)]
            stalled.clear()
            if rng.random() < 0.5:
                lines += [mix_request(x) for x in slow if x not in gone]
            sc.bursts.append(lines)
        else:
            # everybody leaves the channel (under the name attached with or not), then its idle timer fires
            lines = ["i unstall %d" % x for x in sorted(stalled)]
            stalled.clear()
            for x in sorted(sc.sessions):
                if x not in gone:
                    lines.append("q %d %s leave 1 0 as=%s" % (x, nr(), form(x, 0.3)))
                    lines.append("q %d %s leave 1 0 as=%s" % (x, nr(), form(x, 0.5)))
            sc.bursts.append(lines)
            sc.bursts.append(["i unload 1"])
    lines = ["i unstall %d" % x for x in sorted(stalled)]
    for x in sorted(sc.sessions):
        if x in gone:
            continue
        a = form(x, 0.5)
        lines.append("q %d %s sub 1 0 as=%s" % (x, nr(), a))
        lines.append("q %d %s sub 1 0 as=%s" % (x, nr(), "grp" if a == "chn" else "chn"))
    sc.bursts.append(lines)
    return sc



def gen_seq_scn(rng, sid):
    """one request per burst, group topics only, owners delete: the model's alphabet"""
    sc = gen_setup(rng, sid, seq=True, model_scope=True)
    n = 0
    for b in range(rng.randint(6, 18)):
        n += 1
        if rng.random() < 0.12:
            sc.bursts.append(["i unload %d" % rng.choice(list(sc.topics))])
            continue
        si = rng.choice(list(sc.sessions))
        l = gen_request(rng, sc, si, "r%d" % n, model_scope=True)
        w = l.split()
        if w[3] in ("sub", "leave"):
            # the name form.  {sub}: the name the user normally writes (whether thisUserSub accepts the OTHER name depends
            # on the per-user records, which the model leaves out: a group subscriber who writes chnXXX is told 303;
            # the burst scenarios exercise that); {leave}: either name; a channel name for a plain group now and then
            k = int(w[4])
            nat = natural_form(sc, si, k)
            if sc.topics[k]["kind"] == "chn":
                form = nat if (w[3] == "sub" or rng.random() < 0.5) else ("grp" if nat == "chn" else "chn")
            else:
                form = "chn" if rng.random() < 0.12 else "grp"
            l = " ".join(w[:5] + [w[5] if len(w) > 5 else "0", "as=" + form])
        elif w[3] == "deltopic" and rng.random() < 0.45:
            # round s14d: the store call of the owner's {del topic} fails (model step HubUnregFail)
            l = " ".join(w[:5] + ["0", "fault=TopicDelete"])
        sc.bursts.append([l])
    return sc


# ---------------------------------------------------------------- running the driver
def parse_out(text):
    """-> {scn id: {"bursts": [ {frames:[..], ns:[..], sess:{}, topics:{}, hang:[], unstuck:[], injected:[], goroutines:n} ], "final": {...}, "ended": bool}}"""
    res = {}
    cur = None
    b = None
    for l in text.split("\n"):
        w = l.split()
        if not w:
            continue
        if w[0] == "scn":
            cur = {"bursts": [], "final": None, "ended": False, "fatal": False}
            res[w[1]] = cur
        elif cur is None:
            continue
        elif w[0] == "burst":
            b = {"n": w[1], "frames": [], "ns": [], "sess": {}, "topics": {}, "hang": [], "unstuck": [], "injected": [], "goroutines": 0,
                 "parked": [], "abandoned": []}
            cur["bursts"].append(b)
        elif w[0] in ("f", "p", "d"):
            b["frames"].append(w)
        elif w[0] == "ns":
            b["ns"].append((int(w[1]), w[2]))
        elif w[0] == "hang":
            b["hang"].append(l)
        elif w[0] == "unstuck":
            b["unstuck"].append(int(w[1]))
        elif w[0] == "fatal-hang":
            cur["fatal"] = True
        elif w[0] == "parked":
            b["parked"].append((w[2], " ".join(w[3:])))
        elif w[0] == "abandoned":
            b["abandoned"].append(int(w[1]))
        elif w[0] == "injected":
            b["injected"].append(int(w[2]))
        elif w[0] == "fault":
            # fault <session> <rid> <adapter method> fired=<0|1>   (zz_verif_c14d_test.go)
            b.setdefault("faults", {})[(int(w[1]), w[2])] = (w[3], w[4] == "fired=1")
        elif w[0] == "state" and w[1] == "sess":
            d = dict(p.split("=", 1) for p in w[3:])
            d["subs"] = set(int(x) for x in d["subs"].split(",") if x and not x.startswith("?"))
            for key in ("user", "term", "closed", "cleaned", "inflight", "detachq", "sendq", "dead"):
                d[key] = int(d.get(key, 0))
            b["sess"][int(w[2])] = d
        elif w[0] == "state" and w[1] == "topic":
            d = dict(p.split("=", 1) for p in w[3:])
            d["loaded"] = d["loaded"] == "1"
            d["stored"] = d["stored"] == "1"
            d["foreign"] = [x for x in d.get("sessions", "").split(",") if x.startswith("?")]
            d["sessions"] = set(int(x) for x in d.get("sessions", "").split(",") if x and not x.startswith("?"))
            d["online"] = dict((int(a), int(c)) for a, c in (x.split(":") for x in d.get("online", "").split(",") if x))
            # sessions attached as channel subscriptions (perSessionData.isChanSub) / users cached as channel readers
            # (perUserData.isChan), read off the real objects
            d["haschan"] = "chansess" in d
            d["chansess"] = set(int(x) for x in d.get("chansess", "").split(",") if x)
            d["chanusers"] = set(int(x) for x in d.get("chanusers", "").split(",") if x)
            # round s14f: the user each attached session is attached AS (perSessionData.uid); users with a subscription row
            if "asuser" in d:
                d["asuser"] = dict((int(a), int(c)) for a, c in (x.split(":") for x in d["asuser"].split(",") if x))
            if "subrows" in d:
                d["subrows"] = set(int(x) for x in d["subrows"].split(",") if x)
            b["topics"][int(w[2])] = d
        elif w[0] == "goroutines":
            b["goroutines"] = int(w[1])
            b["complete"] = True
        elif w[0] == "parked-purge":
            b.setdefault("parked_purge", []).append((int(w[1]), w[2] if len(w) > 2 else "?"))
        elif w[0] == "unblocked-stop":
            b.setdefault("unblocked_stop", []).append(int(w[1]))
        elif w[0] == "autounstall":
            b.setdefault("autounstall", []).append(int(w[1]))
        elif w[0] == "final":
            cur["final"] = dict(p.split("=", 1) for p in w[1:])
        elif w[0] == "end":
            cur["ended"] = True
    return res


def run_driver(ctx, scns, tag="main", binary=None, extra_env=None, timeout=1500):
    """Runs the scenarios; a scenario in which the process had to give up (fatal hang, crash)
    ends the process: the rest is run in a fresh one.  -> (results, logs)"""
    binary = binary or os.path.join(vlib.BUILD, "maindrv.test")
    todo = list(scns)
    results = {}
    logs = []
    rounds = 0
    while todo and rounds < 12:
        rounds += 1
        fin = os.path.join(ctx.work, "%s_in_%d.txt" % (tag, rounds))
        fout = os.path.join(ctx.work, "%s_out_%d.txt" % (tag, rounds))
        with open(fin, "w") as f:
            for sc in todo:
                f.write("\n".join(sc.lines()) + "\n")
        if os.path.exists(fout):
            os.remove(fout)
        env = dict(vlib.GOENV, VERIF_IN=fin, VERIF_OUT=fout)
        env.update(extra_env or {})
        try:
            p = subprocess.run([binary, "-test.run", "^TestVerifLifecycle$", "-test.count=1", "-test.timeout=%ds" % timeout],
                               stdout=subprocess.PIPE, stderr=subprocess.STDOUT, text=True, errors="replace", timeout=timeout + 60,
                               env=env, cwd=os.path.join(vlib.REPO, "server"))
            rc, log = p.returncode, p.stdout
        except subprocess.TimeoutExpired as e:
            rc, log = 124, (e.stdout or "") if isinstance(e.stdout, str) else ""
        logs.append((rc, log))
        got = parse_out(open(fout).read()) if os.path.exists(fout) else {}
        done = [sc for sc in todo if sc.id in got and got[sc.id]["ended"]]
        for sc in done:
            results[sc.id] = got[sc.id]
        rest = [sc for sc in todo if sc.id not in results]
        if rest and (rc != 0 or len(done) < len(todo)):
            # the first unfinished scenario is where the process died
            bad = rest[0]
            r = got.get(bad.id, {"bursts": [], "final": None, "ended": False, "fatal": False})
            r["died"] = True
            txt = "\n".join(x for x in log.split("\n") if not re.match(r"^[IWE]\d{4}/", x))
            m = re.search(r"^(fatal error:|panic:)", txt, re.M)
            r["log"] = txt[m.start():m.start() + 3000] if m else txt[-3000:]
            results[bad.id] = r
            rest = rest[1:]
        todo = rest
    return results, logs


# ---------------------------------------------------------------- the laws, on the implementation's output
def requests_of(burst_lines):
    res = []
    for l in burst_lines:
        w = l.split()
        if w[0] == "q":
            res.append(dict(si=int(w[1]), rid=w[2], kind=w[3], k=int(w[4]) if len(w) > 4 else None,
                            arg=w[5] if len(w) > 5 and not w[5].startswith("as=") and not w[5].startswith("fault=") else None,
                            fault=([x[6:] for x in w[5:] if x.startswith("fault=")] or [None])[0],
                            **{"as": ([x[3:] for x in w[5:] if x.startswith("as=")] or [None])[0]}))
    return res


def exit_possible(sc, k, lines):
    """can an instance of topic k terminate inside this burst (idle unload injected, {del topic}, {del user},
    last p2p party unsubscribing)?"""
    t = sc.topics.get(k)
    if t is None:
        return False
    for l in lines:
        w = l.split()
        if w[0] == "i" and w[1] == "unload" and int(w[2]) == k:
            return True
        if w[0] == "q":
            if w[3] == "deluser":
                return True
            if w[3] == "deltopic" and int(w[4]) == k:
                return True
            if w[3] == "leave" and int(w[4]) == k and w[5] == "1" and t["kind"] == "p2p":
                return True
    return False


def crash_law(log):
    """name of the law for a dead driver process, from the head of its log"""
    if "fatal error: concurrent map" in log:
        m = re.search(r"goroutine \d+ \[running\]:\n(?:.*\n)*?\S*server\.\(?\*?(\w+)\)?\.(\w+)", log)
        fn = m.group(2) if m else "unknown"
        return "concurrent-map-crash-" + fn
    return "server-crashed-or-hung"


# Laws under which the schedule-dependent defects show (findings 1-3, 9-11).  They are accepted ONLY in a corpus
# scenario that lists them as a possible outcome; in a random scenario - built so that its outcome class does not
# depend on the schedule - and in a corpus scenario that does not list them the same symptom is a violation.
RACY = ("topicinit-parked-on-nil-done", "sub-lost-in-exited-topic", "leave-lost-in-exited-topic", "del-lost-in-exited-topic",
        "owner-del-dropped-while-loading", "sub-dropped-topic-stopped-while-loading", "deluser-blocked-on-topic-exit",
        "session-blocked-on-stop-concurrent-deluser")


def monitor(sc, r):
    allowed = getattr(sc, "allowed", None)
    res = []
    for law, bi, detail in monitor0(sc, r):
        if law in RACY and (allowed is None or law not in allowed):
            law = ("unexpected-in-random-burst-" if allowed is None else "unexpected-in-corpus-scenario-") + law
        res.append((law, bi, detail))
    res += c14f.laws_obo_c14f(sc, r)
    return res


def monitor0(sc, r):
    """The laws of C14 on what the driver printed at each quiescence. -> list of (law, burst index, detail).
    Laws with a circumstance in their name are the narrow forms under which a reproduced defect of the
    server shows (findings/C14.md); everything else keeps the general name."""
    res = []
    if r.get("died"):
        log = r.get("log", "")
        hangs = [h for b in r["bursts"][-1:] for h in b["hang"]]
        res.append((crash_law(log), len(r["bursts"]) - 1, "driver process ended inside this scenario: " + (log[:1500] or " | ".join(hangs)[:1500])))
    prev = None
    stalled = set()
    deleted = set()      # group topics whose deletion completed in an earlier burst
    slow = set(si for si, s in sc.sessions.items() if s.get("cap"))
    broken = set()       # sessions whose in-flight semaphore was already reported stuck
    dead = set()         # sessions abandoned inside {del user}
    chan_dropped = {}    # (chn topic, user) -> upper bound of the sessions attached under the channel name that were dropped
    mismatch_left = {}   # (chn topic, user) -> number of {leave} requests answered 404 = detached on the name-form mismatch path
    nleaked = 0
    for bi, b in enumerate(r["bursts"]):
        lines = sc.bursts[bi] if bi < len(sc.bursts) else []
        for l in lines:
            w = l.split()
            if w[0] == "i" and w[1] == "stall":
                stalled.add(int(w[2]))
            if w[0] == "i" and w[1] == "unstall":
                stalled.discard(int(w[2]))
        for si in b.get("autounstall", ()):
            stalled.discard(si)
        reqs = requests_of(lines)
        ns = set(b["ns"])
        if not b.get("complete"):
            continue      # the process ended inside this burst (reported above): nothing was printed at quiescence
        # ---- goroutines of the server parked for ever
        nil_done = False
        for kind, fns in b["parked"]:
            nleaked += 1
            if kind == "nil-chan-send" and "topicInit" in fns:
                nil_done = True
                res.append(("topicinit-parked-on-nil-done", bi, "topicInit goroutine parked for ever in a send on a nil channel (init_topic.go:95-98, shutDown.done == nil): " + fns))
            elif kind == "chan-receive" and ("replyDelUser" in fns or "stopTopicsForUser" in fns):
                if "replyDelUser" in fns:
                    res.append(("deluser-blocked-on-topic-exit", bi, "{del user} never returns: replyDelUser waits for stopTopicsForUser, which waits for the done signal of a topic that will never send it: " + fns))
            else:
                res.append(("hang", bi, "goroutine parked for ever: %s %s" % (kind, fns)))
        dead |= set(b["abandoned"])
        for si, ch in b.get("parked_purge", ()):
            res.append(("cleanup-blocked-in-purgeChannels", bi, "session %d: cleanUp is parked for ever in the receive of purgeChannels (Session.%s): `for len(ch) > 0 { <-ch }` lost the last queued item to the write loop, which still runs (session.go:399-414); unsubAll is never reached" % (si, ch)))
        for si in b.get("unblocked_stop", ()):
            u = sc.sessions[si]["user"]
            n = sum(1 for x in reqs if x["kind"] == "deluser" and sc.sessions[x["si"]]["user"] == u)
            h = [x for x in b["hang"] if "stopSession" in x]
            res.append(("session-blocked-on-stop-concurrent-deluser" if n >= 2 else "session-blocked-on-stop", bi,
                        "session %d: Session.stop (capacity 1) is full and the write loop has left; the read loop blocks for ever in stopSession (%d {del user} of user %d in this burst): %s" % (si, n, u, (h or [""])[0][:700])))
        # ---- replies
        ctrl = {}
        evicted = {}
        gone = {}
        for w in b["frames"]:
            si = int(w[1])
            if w[0] == "f":
                if w[2] != "-":
                    ctrl.setdefault((si, w[2]), []).append(int(w[3]))
                elif w[3] == "205" and w[5] != "-":
                    evicted.setdefault(si, set()).add(w[5])
            elif w[0] == "p" and w[3] == "gone":
                gone.setdefault(si, set()).add(w[4])
        stuck_now = set(si for si, st in b["sess"].items() if st["inflight"] != 0) | set(b["unstuck"])
        explained = set()     # sessions whose stuck semaphore is explained by a law reported in this burst
        # (session, topic): an unsubscribe of its own ({leave unsub}, or {del topic} by a non-owner, which travels through
        # another queue of the topic and can overtake) was accepted in this burst
        own_unsub = set()
        last_held = {}        # session -> its last sub/leave request without a reply (the one that holds the semaphore)
        for q in reqs:
            if (q["si"], q["rid"]) in ns:
                continue
            got = ctrl.get((q["si"], q["rid"]), [])
            if q["kind"] == "deltopic":
                q["nonowner"] = sc.topics[q["k"]].get("owner") != sc.sessions[q["si"]]["user"]
            if ((q["kind"] == "leave" and q["arg"] == "1") or q.get("nonowner")) and 200 in got:
                own_unsub.add((q["si"], q["k"]))
            if q["kind"] in ("sub", "leave") and not got:
                last_held[q["si"]] = q["rid"]
        for q in reqs:
            if (q["si"], q["rid"]) in ns or q["kind"] == "disc":
                continue
            got = ctrl.get((q["si"], q["rid"]), [])
            st = b["sess"].get(q["si"], {})
            if q["kind"] == "leave" and q["arg"] != "1" and sc.topics.get(q["k"], {}).get("kind") == "chn" and (
                    404 in got or (not got and (st.get("closed") or st.get("term") or q["si"] in slow or q["si"] in stalled))):
                # handleLeaveRequest answers 404 to a {leave} of a channel-enabled topic only on the path where the name
                # form of the request (grpXXX / chnXXX) differs from the form the session attached under: the session
                # HAS been detached (remSession, delSub) and the function returned before the per-user accounting.
                # (a reply that was dropped by design - closing session, full queue - is counted as a possible 404)
                key = (q["k"], sc.sessions[q["si"]]["user"])
                mismatch_left[key] = mismatch_left.get(key, 0) + 1
            if len(got) > 1:
                plain_as_chn = (q["kind"] == "leave" and q.get("as") == "chn" and sc.topics.get(q["k"], {}).get("kind") == "grp"
                                and len(got) == 2 and got[0] == 404)
                res.append(("leave-chn-name-on-plain-group-answered-twice" if plain_as_chn else "reply-duplicated", bi,
                            "request %s (%s%s) of session %d answered %d times: %s" % (
                                q["rid"], q["kind"], (" addressed as " + q["as"] + "XXX") if q.get("as") else "", q["si"], len(got), got)))
            nonowner_del = bool(q.get("nonowner"))
            if q["kind"] not in EXPECT_REPLY or got:
                continue
            stuck = q["si"] in stuck_now and last_held.get(q["si"]) == q["rid"]
            gone_sess = st.get("closed") or st.get("term")
            if q["si"] in dead:
                continue
            silent_by_design = q["si"] in slow or q["si"] in stalled or gone_sess or q["si"] in broken
            if silent_by_design and not (stuck and q["kind"] in ("sub", "leave") and q["si"] not in broken):
                continue      # replies to a full send queue / to a closing session are dropped by design;
                              # a request that also keeps the in-flight semaphore is judged all the same
            if q["kind"] == "deluser":
                continue      # the session is stopped right after the reply is queued
            if q["kind"] == "leave" and str(q["k"]) in evicted.get(q["si"], ()) and not stuck:
                continue      # the leave crossed the session's eviction: the eviction notice answers it
                              # (it does not excuse a semaphore that stays taken: judged below)
            # the instance the session points to can have terminated: in this burst, or earlier when the session's
            # detach notice was still in flight at the last quiescence (stalled writer)
            exitp = exit_possible(sc, q["k"], lines) or bool(prev and prev["sess"].get(q["si"], {}).get("detachq"))
            subs_in_burst = any(x["kind"] == "sub" and x["k"] == q["k"] for x in reqs)
            if q["kind"] == "leave" and stuck and exitp:
                law = "leave-lost-in-exited-topic"
                explained.add(q["si"])
            elif q["kind"] == "leave" and not stuck and (q["si"], q["k"]) in own_unsub:
                law = "leave-after-own-unsub-unanswered"
            elif q["kind"] == "leave":
                law = "leave-unanswered"
            elif q["kind"] == "sub" and stuck and exitp:
                law = "sub-lost-in-exited-topic"
                explained.add(q["si"])
            elif q["kind"] == "sub" and not stuck and exitp:
                law = "sub-dropped-topic-stopped-while-loading"
            elif q["kind"] == "sub":
                law = "sub-unanswered"
            elif q["kind"] == "deltopic" and not nonowner_del and subs_in_burst:
                law = "owner-del-dropped-while-loading"
            elif nonowner_del and (any(x["kind"] == "deluser" or (x["kind"] == "deltopic" and x["k"] == q["k"] and x["si"] != q["si"]) for x in reqs)
                                   or any(l.split()[:3] == ["i", "unload", str(q["k"])] for l in lines)):
                law = "del-lost-in-exited-topic"
            else:
                law = "del-unanswered"
            res.append((law, bi, "request %s (%s topic %s) of session %d got no reply; session state %s" % (
                q["rid"], q["kind"], q["k"], q["si"], {k: v for k, v in st.items() if k != "subs"})))
        # ---- request bookkeeping never blocks a session for ever
        for si in sorted(stuck_now):
            if si in broken or si in dead:
                continue
            broken.add(si)
            if si in explained or nil_done:
                continue      # the lost request / the parked topicInit of this burst is the reported cause
            st = b["sess"].get(si, {})
            if si in b["unstuck"]:
                h = [x for x in b["hang"] if "boundedWaitGroup" in x or "inflightReqs" in x]
                res.append(("session-blocked-on-inflight", bi, "session %d blocked on its in-flight semaphore (subscribe/leave Add or cleanUp Wait) with nothing left to release it: %s" % (si, (h or [""])[0][:900])))
            else:
                res.append(("inflight-stuck", bi, "session %d has %d request(s) in flight at quiescence (its next subscribe/leave and its cleanUp block for ever)" % (si, st.get("inflight", 0))))
        for h in b["hang"]:
            if b["unstuck"] or b["parked"] or b["abandoned"] or b.get("unblocked_stop") or b.get("parked_purge"):
                continue      # diagnosed above
            res.append(("hang", bi, h[:1500]))
        # ---- sessions that were attached to a channel-enabled topic under its CHANNEL name and are not attached any more
        for k, t in b["topics"].items():
            if sc.topics.get(k, {}).get("kind") != "chn":
                continue
            was = set(prev["topics"].get(k, {}).get("chansess", ())) if prev else set()
            was |= set(q["si"] for q in reqs if q["kind"] == "sub" and q["k"] == k and (q.get("as") or natural_form(sc, q["si"], k)) == "chn")
            for si in was:
                if not (t["loaded"] and si in t["sessions"]):
                    key = (k, sc.sessions[si]["user"])
                    chan_dropped[key] = chan_dropped.get(key, 0) + 1
        # ---- state at quiescence
        for si, st in b["sess"].items():
            live = st["term"] == 0
            if st["term"] == 1 and st["cleaned"] == 0 and si not in dead:
                res.append(("cleanup-stuck", bi, "session %d is terminating but cleanUp did not finish" % si))
            for k, t in b["topics"].items():
                a = k in st["subs"]
                z = t["loaded"] and si in t["sessions"]
                if live and st["detachq"] == 0 and si not in stalled and si not in dead and a != z:
                    res.append(("attach-symmetry", bi, "session %d %s topic %d but the topic (loaded=%s) %s the session" % (
                        si, "lists" if a else "does not list", k, t["loaded"], "lists" if z else "does not list")))
                if st["term"] == 1 and st["cleaned"] == 1 and z:
                    res.append(("terminated-detached", bi, "terminated session %d is still attached to topic %d" % (si, k)))
        for k, t in b["topics"].items():
            if not t["loaded"]:
                continue
            if t["foreign"]:
                res.append(("terminated-detached", bi, "topic %d lists sessions of an earlier scenario: %s" % (k, t["foreign"])))
            cnt = {}
            for si in t["sessions"]:
                # the user the session is attached AS (a root session acting on behalf of somebody: that user)
                u = t.get("asuser", {}).get(si, b["sess"][si]["user"])
                cnt[u] = cnt.get(u, 0) + 1
            for u in set(cnt) | set(t["online"]):
                have = t["online"].get(u)
                if have is None:
                    res.append(("online-count", bi, "topic %d: user %d has %d attached sessions but no per-user record" % (k, u, cnt[u])))
                elif have < 0:
                    res.append(("online-count-negative", bi, "topic %d: online count of user %d is %d" % (k, u, have)))
                elif have != cnt.get(u, 0):
                    over = have - cnt.get(u, 0)
                    if t.get("haschan"):
                        # exact: the per-user record says "channel reader" (perUserData.isChan)
                        chan = sc.topics[k]["kind"] == "chn" and u in t["chanusers"] and over > 0
                    else:
                        chan = sc.topics[k]["kind"] == "chn" and u != sc.topics[k]["owner"] and u not in sc.topics[k]["members"] and over > 0
                    # a subscriber (not a reader) whose {leave} was answered 404 on the name-form mismatch path: same early
                    # return of handleLeaveRequest; at most one count per such {leave}
                    # a subscriber (not cached as a reader) one of whose sessions was attached under the CHANNEL name and
                    # was dropped (disconnect, slow consumer, mismatching {leave}): the same early return; at most one
                    # count per such session / per {leave} answered 404
                    if not chan and sc.topics[k]["kind"] == "chn" and 0 < over <= chan_dropped.get((k, u), 0):
                        chan = True
                    mism = (not chan) and sc.topics[k]["kind"] == "chn" and 0 < over <= chan_dropped.get((k, u), 0) + mismatch_left.get((k, u), 0)
                    law = "online-count-chan-reader" if chan else "online-count-leave-name-mismatch" if mism else "online-count"
                    res.append((law, bi, "topic %d: online count of user %d is %d, attached sessions %d%s" % (
                        k, u, have, cnt.get(u, 0), (" (%d {leave} of this user answered 404 = name form differs from the form attached under)" % mismatch_left.get((k, u), 0)) if mism else "")))
        # ---- deletion
        for q in reqs:
            if q["kind"] == "sub" and q["k"] in deleted:
                st0 = prev["sess"].get(q["si"], {}) if prev else {}
                if q["k"] in st0.get("subs", ()) or st0.get("detachq"):
                    continue      # the session's detach notice was still in flight at the last quiescence (stalled writer)
                for code in ctrl.get((q["si"], q["rid"]), []):
                    if code < 400:
                        res.append(("deleted-refuses", bi, "subscribe %s to deleted topic %d answered %d" % (q["rid"], q["k"], code)))
        for k in deleted:
            if b["topics"].get(k, {}).get("loaded"):
                res.append(("deleted-refuses", bi, "deleted topic %d is loaded at quiescence" % k))
        dels = [q for q in reqs if q["kind"] == "deltopic" and 200 in ctrl.get((q["si"], q["rid"]), [])
                and sc.topics[q["k"]]["owner"] == sc.sessions[q["si"]]["user"]]
        for q in dels:
            k = q["k"]
            if b["topics"].get(k, {}).get("stored") or b["topics"].get(k, {}).get("loaded"):
                res.append(("deleted-gone", bi, "topic %d deleted by its owner (200) is still stored/loaded: %s" % (k, b["topics"].get(k))))
                continue
            if prev is not None and k not in deleted:
                # sessions which were attached and did nothing that touches the topic or their 'me' in this burst
                for si in prev["topics"].get(k, {}).get("sessions", ()):
                    u = sc.sessions[si]["user"]
                    mek = me_of(sc, u)
                    st0, st1 = prev["sess"][si], b["sess"][si]
                    touched = any(x["si"] == si and (x["k"] in (k, mek) or x["kind"] in ("disc", "deluser")) for x in reqs)
                    if touched or si in slow or si in stalled or si in dead or st1["term"] or st1["closed"]:
                        continue
                    if any(x["kind"] == "deluser" for x in reqs):
                        continue
                    if str(k) in gone.get(si, ()) or str(k) in evicted.get(si, ()):
                        continue
                    pt = prev["topics"].get(k, {})
                    if pt.get("haschan"):
                        reader = si in pt["chansess"]      # exact: the session was attached as a channel subscription
                    else:
                        reader = sc.topics[k]["kind"] == "chn" and u != sc.topics[k]["owner"] and u not in sc.topics[k]["members"]
                    on_me = mek is not None and mek in st0["subs"] and mek in st1["subs"]
                    if reader:
                        law = "deleted-told-gone-chan-reader"
                    elif not on_me:
                        law = "deleted-told-gone-not-on-me"
                    else:
                        law = "deleted-told-gone"
                    res.append((law, bi, "session %d (user %d%s%s) was attached to topic %d when its owner deleted it and got neither {pres gone} nor {ctrl evicted}" % (
                        si, u, ", channel reader" if reader else "", ", attached to 'me'" if on_me else ", not attached to 'me'", k)))
            deleted.add(k)
        prev = b
    res += c14d.monitor_faults_c14d(sc, r)
    f = r.get("final")
    if f:
        if int(f["goroutines"]) - int(f.get("leaked", 0)) != int(f["baseline"]):
            res.append(("goroutine-leak", len(r["bursts"]) - 1, "after every session disconnected and every topic was unloaded %s goroutines remain (%s of them reported as parked for ever), baseline %s" % (f["goroutines"], f.get("leaked", 0), f["baseline"])))
        if f["loaded_topics"] != "1":
            res.append(("topic-leak", len(r["bursts"]) - 1, "topics still loaded after unload of everything: %s" % f["loaded_topics"]))
    return res


def shrink(ctx, sc, law, quick):
    """drop bursts / requests while the law still fails (races: each candidate is tried a few times)"""
    budget = [12 if quick else 60]

    def bad(c):
        if budget[0] <= 0:
            return False
        budget[0] -= 1
        for _ in range(2):
            rr, _ = run_driver(ctx, [c], tag="shrink", timeout=120)
            if c.id in rr and any(l == law for l, _, _ in monitor(c, rr[c.id])):
                return True
        return False
    cur = sc
    changed = True
    while changed and budget[0] > 0:
        changed = False
        for bi in range(len(cur.bursts) - 1, -1, -1):
            c = Scn.from_replay(cur.id, json.loads(json.dumps(cur.replay())))
            del c.bursts[bi]
            if c.bursts and bad(c):
                cur = c
                changed = True
                break
    return cur


# ---------------------------------------------------------------- model (sequential correspondence)
def model_lines(sc):
    out = ["scn %s" % sc.id]
    for si, s in sorted(sc.sessions.items()):
        out.append("sess %d %d" % (si, s["user"]))
    for k, t in sorted(sc.topics.items()):
        out.append("topic %d %d %d" % (k, t["owner"], 1 if t["kind"] == "chn" else 0))
    for b in sc.bursts:
        w = b[0].split()
        if w[0] == "i":
            out.append("op unload %s" % w[2])
        else:
            q = requests_of(b)[0]
            form = "grp"
            if q["k"] is not None and q["kind"] in ("sub", "leave"):
                form = q.get("as") or natural_form(sc, q["si"], q["k"])     # the name the driver writes
            kind = "deltopicfail" if (w[3] == "deltopic" and q.get("fault") == "TopicDelete") else w[3]
            out.append("op %s %s %s %s %s %s" % (kind, w[1], w[2][1:], w[4] if len(w) > 4 else "0", q["arg"] or "0", form))
    out.append("end")
    return out


def impl_projection(sc, r):
    """per op: replies (session, rid, code) in per-session order, attachments, loaded/stored"""
    res = []
    for bi, b in enumerate(r["bursts"][:len(sc.bursts)]):
        fr = sorted((int(w[1]), w[2][1:] if w[2] != "-" else "-", int(w[3]), w[5] if w[2] == "-" else "") for w in b["frames"] if w[0] == "f")
        att = sorted((si, k) for si, st in b["sess"].items() for k in st["subs"])
        tat = sorted((k, si) for k, t in b["topics"].items() if t["loaded"] for si in t["sessions"])
        top = sorted((k, int(t["loaded"]), int(t["stored"])) for k, t in b["topics"].items())
        term = sorted(si for si, st in b["sess"].items() if st["term"])
        cat = sorted((k, si) for k, t in b["topics"].items() if t["loaded"] for si in t["chansess"])
        # round s14d: (paused, deleted) of every registered topic; the failed store call of this op and the flags of its topic
        flags = sorted((k, int(t.get("paused", "0")), int(t.get("deleted", "0"))) for k, t in b["topics"].items() if t["loaded"])
        fired = sorted(rid[1:] for (_, rid), (_, f) in b.get("faults", {}).items() if f)
        fds = []
        for q in requests_of(sc.bursts[bi]):
            if q.get("fault") and b.get("faults", {}).get((q["si"], q["rid"]), (None, False))[1] and b["topics"].get(q["k"], {}).get("loaded"):
                t = b["topics"][q["k"]]
                fds.append((q["k"], int(t.get("paused", "0")), int(t.get("deleted", "0"))))
        res.append({"replies": [list(x) for x in fr], "subs": [list(x) for x in att], "sessions": [list(x) for x in tat],
                    "chansess": [list(x) for x in cat], "topics": [list(x) for x in top], "terminated": term,
                    "flags": [list(x) for x in flags], "fired": fired, "fdstatus": [list(x) for x in fds]})
    return res


def parse_model(lines):
    res = {}
    cur = None
    for l in lines:
        w = l.split()
        if not w:
            continue
        if w[0] == "scn":
            cur = []
            res[w[1]] = cur
        elif w[0] == "op":
            cur.append({"replies": [], "subs": [], "sessions": [], "chansess": [], "topics": [], "terminated": [],
                        "flags": [], "fired": [], "fdstatus": []})
            if len(w) > 1:
                cur[-1]["_rid"] = w[1]
        elif w[0] == "f":
            cur[-1]["replies"].append([int(w[1]), w[2], int(w[3]), w[4] if len(w) > 4 else ""])
        elif w[0] == "sub":
            cur[-1]["subs"].append([int(w[1]), int(w[2])])
        elif w[0] == "att":
            cur[-1]["sessions"].append([int(w[1]), int(w[2])])
        elif w[0] == "catt":
            cur[-1]["chansess"].append([int(w[1]), int(w[2])])
        elif w[0] == "topic":
            cur[-1]["topics"].append([int(w[1]), int(w[2]), int(w[3])])
        elif w[0] == "term":
            cur[-1]["terminated"].append(int(w[1]))
        elif w[0] == "flags":
            cur[-1]["flags"].append([int(w[1]), int(w[2]), int(w[3])])
        elif w[0] == "fdstatus":
            cur[-1]["fdstatus"].append([int(w[1]), int(w[2]), int(w[3])])
        elif w[0] == "fired":
            cur[-1]["fired"].append(w[1])
    for ops in res.values():
        for o in ops:
            o.pop("_rid", None)
            for key in o:
                o[key].sort()
    return res


# ---------------------------------------------------------------- entry
def run(ctx):
    quick = ctx.tier == "quick"
    ctx.coq_props()
    vlib.proof_violation(ctx)
    ok, out = ctx.build_runner()
    if not ok:
        ctx.violation("proof", "extraction-broken", "model extraction/runner build failed: " + out[-1500:], {"theorem_or_obligation": "extraction of the model"})
        ctx.finish()
    ok, out = ctx.build_main()
    if not ok:
        ctx.violation("corr", "harness-build-broken", "package-main driver no longer builds against the server: " + out[-1500:],
                      {"correspondence": "build of harness/overlay against server/"})
        ctx.finish()
    rng = ctx.rng
    if ctx.replay:
        rp = json.load(open(ctx.replay))
        bursts = [Scn.from_replay("replay%d" % i, rp["replay"]["scenario"]) for i in range(20)] if "scenario" in rp["replay"] else []
        seqs = []
        obos = [sc for sc in bursts[:1] if any(s.get("root") for s in sc.sessions.values())]
    else:
        bursts = []
        cdir = os.path.join(vlib.ROOT, "corpus", ctx.pid)
        if os.path.isdir(cdir):
            for f in sorted(os.listdir(cdir)):
                rp = json.load(open(os.path.join(cdir, f)))
                for i in range(rp.get("repeat", 5) * (1 if quick else 10)):
                    csc = Scn.from_replay("c_%s_%d" % (f.split(".")[0], i), rp["scenario"])
                    csc.allowed = list(rp.get("outcomes", []))
                    bursts.append(csc)
        bursts += [gen_burst_scn(rng, "b%d" % i) for i in range(120 if quick else 1500)]
        bursts += [gen_chan_scn_c14c(rng, "h%d" % i) for i in range(60 if quick else 800)]
        # round s14d: failed {del topic} followed by member requests; one stalled session attached to 66-78 topics
        bursts += [c14d.gen_fault_scn_c14d(rng, "x%d" % i) for i in range(40 if quick else 600)]
        bursts += [c14d.gen_many_scn_c14d(rng, "y%d" % i) for i in range(6 if quick else 60)]
        # round s14f: root sessions attached on behalf of users (extra.obo), sequential; compared with the model below
        obos = [c14f.gen_obo_scn_c14f(Scn, rng, "o%d" % i) for i in range(50 if quick else 600)]
        bursts += obos
        seqs = [gen_seq_scn(rng, "s%d" % i) for i in range(150 if quick else 1500)]
    t0 = time.time()
    results, logs = run_driver(ctx, bursts + seqs)
    t_impl = time.time() - t0

    fails = {}
    for sc in bursts + seqs:
        r = results.get(sc.id)
        if r is None:
            fails.setdefault("server-crashed-or-hung", []).append((sc, 0, "scenario did not run: " + (logs[-1][1][-800:] if logs else "")))
            continue
        for law, bi, detail in monitor(sc, r):
            fails.setdefault(law, []).append((sc, bi, detail))
    nshr = 0
    for law, lst in fails.items():
        sc, bi, detail = min(lst, key=lambda x: sum(len(b) for b in x[0].bursts))
        small = Scn.from_replay(sc.id, json.loads(json.dumps(sc.replay())))
        small.bursts = small.bursts[:bi + 1] if bi >= 0 else small.bursts
        if nshr < 3 and not ctx.replay and law not in ("server-crashed-or-hung",):
            nshr += 1
            small = shrink(ctx, small, law, quick) if any(l == law for l, _, _ in monitor(small, run_driver(ctx, [small], tag="shrink0", timeout=120)[0].get(small.id, {"bursts": []}))) else sc
        ctx.violation("monitor", law, "law %s fails on the implementation (%d of %d scenarios this run; a race: replay runs the scenario repeatedly): %s"
                      % (law, len(set(x[0].id for x in lst)), len(bursts) + len(seqs), detail),
                      {"scenario": small.replay(), "driver_input": small.lines(), "law": law, "detail": detail, "burst": bi})

    # sequential correspondence with the extracted model
    mism = []
    compared = 0
    if seqs:
        mlines = []
        for sc in seqs:
            mlines += model_lines(sc)
        rc, mout, err = ctx.run_model("c14", mlines)
        if rc != 0 or any(l.startswith("EXC") for l in mout):
            ctx.violation("proof", "runner-crashed", "model runner failed: " + (err or "\n".join(l for l in mout if l.startswith("EXC")))[-1500:],
                          {"theorem_or_obligation": "model runner"})
            ctx.finish()
        model = parse_model(mout)
        for sc in seqs:
            r = results.get(sc.id)
            if r is None or r.get("died"):
                continue
            ip = impl_projection(sc, r)
            mp = model.get(sc.id, [])
            compared += 1
            for k in range(len(sc.bursts)):
                if k >= len(ip) or k >= len(mp) or ip[k] != mp[k]:
                    mism.append((sc, k, {"impl": ip[k] if k < len(ip) else None, "model": mp[k] if k < len(mp) else None}))
                    break
        known = set(f["key"] for f in ctx.load_findings() if f["property"] == ctx.pid)
        if mism and not [law for law in fails if law not in known]:
            # (a law failure that is not a known finding is the better report: it comes with its own replay)
            sc, k, d = min(mism, key=lambda x: x[1])
            small = Scn.from_replay(sc.id, json.loads(json.dumps(sc.replay())))
            small.bursts = small.bursts[:k + 1]
            ctx.violation("corr", "correspondence-sequential", "model and implementation disagree on %d of %d sequential scenarios; first: op %d %s: %s; no law failure found on %d burst scenarios"
                          % (len(mism), compared, k, sc.bursts[k], json.dumps(d)[:900], len(bursts)),
                          {"correspondence": "sequential schedules of C14", "scenario": small.replay(), "driver_input": small.lines(), "model_input": model_lines(small), "diff": d})

    # round s14f: online counters of the obo scenarios against the model; the session registry (own driver, own model)
    if not [law for law in fails if law not in set(f["key"] for f in ctx.load_findings() if f["property"] == ctx.pid)]:
        c14f.compare_obo_c14f(ctx, obos, results)
    cov14f = c14f.run_registry_c14f(ctx, quick)

    # thorough: the same bursts under the race detector (testing in support; no theorem covers memory accesses)
    race = None
    if not quick and not ctx.replay:
        race = run_race(ctx, bursts[:400])

    kinds, codes = {}, {}
    nreq = 0
    nontrivial = set()
    conc = 0
    for sc in bursts + seqs:
        r = results.get(sc.id)
        sig = []
        for bi, b in enumerate(sc.bursts):
            for q in requests_of(b):
                nreq += 1
                kinds[q["kind"]] = kinds.get(q["kind"], 0) + 1
            if len(set(q["si"] for q in requests_of(b))) > 1:
                conc += 1
            for l in b:
                if l.startswith("i "):
                    kinds[l.split()[1]] = kinds.get(l.split()[1], 0) + 1
        if r:
            for b in r["bursts"]:
                for w in b["frames"]:
                    if w[0] == "f":
                        codes[w[3]] = codes.get(w[3], 0) + 1
                        sig.append(tuple(w[1:4]))
            if any(w[0] == "f" and w[3] == "200" for b in r["bursts"] for w in b["frames"]):
                nontrivial.add(hash((tuple(map(tuple, sc.bursts)), tuple(sig))))
    ctx.coverage.update({
        "evaluations": len(bursts) + len(seqs), "distinct_nontrivial": len(nontrivial),
        "rule": "seeded random scenarios: 2-4 users, 1-2 sessions each (+ optionally one session with a 2-slot send queue whose writer is stalled: slow-consumer eviction), 1-2 group/channel topics, a 'me' topic per user, optionally a p2p topic; BURST scenarios: 3-7 bursts in which ~70% of the sessions issue 1-3 requests each concurrently (sub/leave/unsub/pub/del-topic/del-user/disconnect) plus injected idle unloads, then a final burst re-subscribing to every group topic; CHANNEL scenarios (gen_chan_scn_c14c): one channel-enabled topic whose users are partly group subscribers (grpXXX) and partly readers (chnXXX), optionally a plain group topic, 1-2 sessions with a 2-slot send queue; requests carry the name form (as=grp|chn): attach under either name, {leave} / {leave unsub} under either name, slow-consumer phases (writers stalled, the owner publishes 3-4 messages, the third broadcast drops the session), disconnects, idle unloads, a final re-subscribe under both names; SEQUENTIAL scenarios: 6-18 single requests over group topics with and without channel functionality, {leave} under either name, a channel name for a plain group now and then (the model's alphabet), compared exactly with the extracted model (replies, Session.subs, Topic.sessions, isChanSub flags, loaded/stored, terminated); FAILED-DELETE scenarios (round s14d, gen_fault_scn_c14d; also in the sequential scenarios: 45% of the owners' {del topic}): the owner's {del what=topic} meets a failing store.Topics.Delete (request suffix fault=TopicDelete: memverif.SetHook arms the fault for exactly that adapter call) on a loaded topic with sessions attached or on an unloaded one, alone in its burst, followed by 2-4 bursts of leave / unsubscribe / subscribe / publish / disconnect of the members, a second failed delete, a successful delete, a final re-subscription; MANY-TOPICS scenarios (gen_many_scn_c14d): one session attached to 66-78 group topics of one owner, its writer stalled, then {del user} of the owner / all topics deleted at once / both / the user's other session unsubscribes from all of them (evictUser), then the writer resumes and the session asks for four of the topics again; non-trivial = at least one request accepted (200); distinct by (requests, replies); OBO scenarios (round s14f, c14f.gen_obo_scn_c14f): 2-3 regular users, all members of 1-2 group topics, plus a root user who is not a member, with 1-2 root sessions: 8-16 single requests: root {sub} with extra.obo=<member>, root {leave} with the same obo, members' own {sub}/{leave}, disconnects (mostly of root sessions), the owner's {del topic}; optional tail judged by the laws only: the acted-for member's {leave unsub} (evictUser) or a root session with a 2-slot queue dropped as a slow consumer; up to the tail compared exactly with the extracted model (perUser.online of every user, perSessionData.uid of every attached session); REGISTRY scenarios: see round_s14f",
        "round_s14f": cov14f, "obo_scenarios": len(obos),
        "burst_scenarios": len(bursts), "sequential_scenarios": len(seqs), "concurrent_bursts": conc, "requests_issued": nreq,
        "traces_validated_against_impl": compared, "correspondence_mismatches": len(mism),
        "monitor_failures": {k: len(v) for k, v in fails.items()},
        "input_distribution": {"request_kinds": kinds, "ctrl_codes": codes},
        "impl_wall_s": round(t_impl, 1),
        "race_detector": race if race is not None else "not run in the quick tier (thorough tier: -race build of the driver on the burst scenarios)",
        "samples": [{"driver_input": sc.lines()[:40]} for sc in (bursts[:1] + seqs[:1])],
        "corpus_scenarios": len([sc for sc in bursts if sc.id.startswith("c_")]),
        "theorem_status": {
            "full (every reachable configuration, any number of sessions/topics/instances, any interleaving)": [
                "c14_inflight_never_low", "c14_reply_at_most_one_more", "c14_reply_conserved_stepwise", "c14_quiescent_symmetry",
                "c14_symmetry_modulo_detach", "c14_attached_listed", "c14_leave_detaches_both_sides", "c14_evict_detaches_both_sides",
                "c14_terminated_detached", "c14_online_restored",
                "c14_deleted_stays_deleted", "c14_deleted_refuses", "c14_deleted_load_fails", "c14_deleted_not_running",
                "c14_deleted_sessions_detached",
                "(all of the above now also over executions with any number of FAILED deletes: HubUnregFail is a step of `reach`)",
                "c14_failed_delete_restores_status (status word: markPaused(true); Delete fails; markPaused(false) gives the word back, every word of a topic that is not paused)",
                "c14_failed_delete_flags (every word: paused ends clear, marked-deleted untouched)", "c14_failed_delete_keeps_active", "c14_successful_delete_inactive",
                "c14_failed_delete_status_of_instance", "c14_failed_delete_topic_as_before (hub table, instances, store rows, every queue but Hub.unreg unchanged; sessions differ in the outbox only)",
                "c14_failed_delete_answered (500 unless the session is closing)", "c14_failed_delete_members_served",
                "round s14f, model Sys/RegistryC14f.v part A (SessionStore: NewSession incl. the loop expiring stale long-polling sessions, Get, Delete via cleanUp(false), EvictUser; any call sequence, any arguments, any life time): c14_registry_exact (registry = exactly the sessions created and not terminated, each once; LRU list = exactly the long-polling ones among them, each once), c14_registry_new_session (every session NewSession expires is unregistered, off the list and terminated; the session returned is registered)",
                "round s14f, part B (per-user online counters of one loaded topic; the attachment record carries the user attached AS): c14_online_count_exact (online(u) = number of sessions attached as u, every history of attach / handleLeaveRequest), c14_online_count_restored (no session left => every count 0), c14_online_no_phantom_entry (a step creates a perUser entry only for the user being attached as / of the record being removed)"],
            "refuted by a witness schedule replayed on the real code": [
                "c14_inflight_balance_statement (c14_inflight_balance_refuted, corpus/C14/01)",
                "c14_reply_exactly_one_statement (c14_reply_exactly_one_refuted, corpus/C14/03)",
                "c14_reply_at_most_once_statement (c14_reply_at_most_once_refuted, corpus/C14/12: a plain group left by a channel name is answered 404 and 200)",
                "c14_no_stuck_statement (c14_no_stuck_refuted_lost_leave corpus/C14/02, c14_no_stuck_refuted_nil_done corpus/C14/01)"],
            "partial (on the executions that avoid exactly the refuting steps)": [
                "c14_inflight_balance_partial (reach_safe: no load failure of an instance with a queued termination request)",
                "c14_reply_exactly_one_partial, c14_reply_at_quiescence_partial (reachI_ok: none of the three steps of `lossy`, nor the step of `noisy`)",
                "c14_reply_at_most_once_partial (reachI_nd: no `noisy` step = the topic takes a client's {leave} written with a channel name although it has no channel functionality)",
                "c14_no_stuck_partial (reach_safe and no request in a queue of an instance whose goroutine is gone)"],
            "tested in support, NOT proved": [
                "last clause of the property (shared data touched only under its lock / atomic): Go race detector on the burst scenarios, thorough tier",
                "account deletion, p2p, 'me', per-user records (online counters, who is a group subscriber / a reader: 303 / 403 refusals of {sub}), presence, bounded channel capacities: burst driver + laws only",
                "bounded Session.detach (64 slots): the model's s_detach ALWAYS appends the notice (unbounded queue); that the real code never drops a notice when the queue is full (the sender waits for the write loop) is what the many-topics scenarios test: law attach-symmetry after the stalled writer resumes with 66-78 notices outstanding",
                "law topic-usable-after-failed-delete on the burst scenarios (the theorem c14_failed_delete_topic_as_before is about the model; the sequential scenarios tie it to the code: replies incl. the 500, attachments, loaded/stored and the paused / marked-deleted flags compared exactly)"]},
        "trusted_base": [
            "harness/overlay/server/zz_verif_c14_test.go: reader/writer goroutines standing in for the websocket loops (hdl_websock.go:39-145); quiescence = every goroutine parked in a receive/select + hub/topic queues empty + no request pending (runtime.Stack snapshot, as vQuiescent of the topic driver); a hang = every goroutine parked while a request is pending or a goroutine sits in a send/lock/semaphore, in 20 consecutive snapshots (no wall-clock guess); goroutines diagnosed as parked for ever are reported once and then ignored; direct field reads at quiescence",
            "harness/overlay/server/db/memverif: in-memory adapter (store contract modelled, not verified)",
            "tools/props/c14.py laws: python restatement of the property on the driver's output; laws with a circumstance in their name are the narrow forms of reproduced defects (findings/C14.md, KNOWN_FINDINGS.txt) - a failure outside these circumstances keeps the general name and is a violation",
            "Lifecycle.v scope: group topics with or without channel functionality addressed under either name (asChan / isChanSub, the name-form check of handleLeaveRequest after the detach, the 404 that does not return), owners delete, unbounded FIFO queues (real buffers: hub.join 256, hub.unreg 256, topic.reg/unreg 256, meta 64, exit 1, session.detach 64, session.stop 1): deadlocks that need a full buffer are outside the model; hub and topic handler bodies are atomic steps; account deletion, p2p, 'me', per-user records, presence are exercised by the driver only",
            "round s14f: harness/overlay/server/zz_verif_c14f_test.go TestVerifC14Registry drives the real SessionStore (NewSession with a nil *websocket.Conn / an httptest recorder as http.ResponseWriter, exactly the two call sites hdl_websock.go:194 and hdl_longpoll.go:161; Session.uid set by the driver = login; lastTouched moved back under the store's lock = time passing; cleanUp(false) called directly = the end of the connection's read loop; no read/write loops run, so a stop message stays queued: 'terminated' = terminating flag set or stop message queued); each call runs on its own goroutine, not returning within 8 s = hang (the rest of that scenario is skipped, a fresh store installed); the model's clock is 0 for every call (the real calls are milliseconds apart, ages are 30/50 s, life time 75 s); SessionStore.Shutdown / NodeRestarted / cluster (multiplexing) sessions are not modelled; part B is a model of the counter bookkeeping of attach and handleLeaveRequest only (ordinary foreground sessions, group topic under its natural name): {leave unsub} / evictUser, background sessions, proxy sessions and slow-consumer eviction of root sessions are exercised by the burst scenarios and the online-count laws only (the laws now count a session under the user it is attached AS, read off perSessionData.uid)",
            "sequential schedules (one request per burst) are compared exactly with the extracted model; concurrent bursts are judged by the laws only (the model's interleavings are quantified over in the theorems, not enumerated by the run)",
            "last clause of the property (shared data only touched under its lock/atomic): NOT proved, no Gallina model expresses Go memory accesses; checked dynamically by the Go race detector in the thorough tier (testing in support)"],
    })
    ctx.assumptions += [
        "queues are unbounded FIFOs in the model; one handler body of hub / topic / topicInit is one atomic step",
        "Go runtime semantics of channels, select, sync.Map, sync.WaitGroup are modelled, not verified",
        "the race detector (thorough tier) sees only the interleavings the burst scenarios happen to produce"]
    ctx.finish(level="proof")


def run_race(ctx, scns):
    ov = os.path.join(vlib.BUILD, "overlay.json")
    out_bin = os.path.join(vlib.BUILD, "maindrv_race.test")
    env = dict(vlib.GOENV, CGO_ENABLED="1")
    rc, out = vlib.sh("timeout 1500 go test -race -c -o %s -vet=off -tags verif -overlay %s ." % (out_bin, ov),
                      cwd=os.path.join(vlib.REPO, "server"), env=env)
    if rc != 0:
        ctx.notes.append("race build failed (CGO/-race unavailable?): " + out[-600:])
        return {"built": False, "log": out[-600:]}
    t0 = time.time()
    results, logs = run_driver(ctx, scns, tag="race", binary=out_bin, extra_env={"GORACE": "halt_on_error=0 history_size=3", "CGO_ENABLED": "1"}, timeout=2400)
    reports = []
    for rc, log in logs:
        for m in re.finditer(r"WARNING: DATA RACE\n(.*?)\n==================", log, re.S):
            reports.append(m.group(1))
    sites = {}
    for rep in reports:
        # first frame of each of the two stacks that is not inside the Go runtime
        tops = []
        for st in re.split(r"\n\n", rep)[:2]:
            for m in re.finditer(r"\n\s+(\S+)\(\)\n\s+(\S+?):(\d+)", "\n" + st):
                if m.group(1).startswith("runtime.") or m.group(1).startswith("sync."):
                    continue
                tops.append((m.group(1).split("/")[-1], os.path.basename(m.group(2)), m.group(3)))
                break
        sites.setdefault(tuple(tops), []).append(rep)
    laws = {}
    for tops, reps in sites.items():
        if not tops or any("zz_verif" in f for _, f, _ in tops):
            continue      # an access of the driver itself (it reads the server's objects at quiescence)
        fns = [re.sub(r"\.func\d+$", "", fn.replace("server.", "").replace("(*", "").replace(")", "")) for fn, _, _ in tops]
        files = [f for _, f, _ in tops]
        if any(f.endswith("stopTopicsForUser") or f.endswith("topicsStateForUser") for f in fns):
            law = "data-race-stopTopicsForUser-reads-topic-state"
        elif any(f == "Hub.topicUnreg" for f in fns) and any(fl == "init_topic.go" for fl in files):
            law = "data-race-topicUnreg-reads-loading-topic"
        elif all(f in ("Hub.topicPut", "Hub.topicDel") for f in fns):
            law = "data-race-hub-numTopics"
        else:
            law = "data-race-" + "-".join(sorted(set(fns)))
        laws.setdefault(law, []).append((tops, reps))
    for law, lst in laws.items():
        tops, reps = lst[0]
        ctx.violation("monitor", law, "Go race detector: unsynchronised access %s (%d reports, %d site pairs)" % (
            " <-> ".join("%s %s:%s" % t for t in tops), sum(len(r) for _, r in lst), len(lst)),
            {"race_report": reps[0][:3000], "sites": [" <-> ".join("%s %s:%s" % t for t in tp) for tp, _ in lst][:20],
             "how": "thorough tier, -race build of the driver, burst scenarios"})
    sites = {" <-> ".join("%s %s:%s" % t for t in tp): r for tp, r in sites.items()}
    return {"built": True, "scenarios": len(scns), "reports": len(reports), "distinct_sites": sorted(sites)[:40], "wall_s": round(time.time() - t0, 1)}
