"""C16 out-of-band files: theorems in coq/Props/PropC16.v about coq/Pure/Url.v and
coq/Sys/Files.v; correspondence against the REAL largeFileReceive / largeFileServe /
media.GetIdFromUrl / fs media handler / token authenticator / topic code above memverif
(harness/overlay/server/zz_verif_c16_test.go, Go's path.Clean included).

Request lines (one answer line each; the implementation's answer is `<compared> | <side>`,
the model runner prints `<compared>` only):
  CL <hex>                      path.Clean                       -> CL <hex>
  ID <servehex> <urlhex>        media.GetIdFromUrl               -> ID <uid>
  FA <asatt> <mimehex>          Content-Disposition of a record with that type -> FA 0|1
  UP m=.. kh= kq= kf= kc= (API key at header/query/form/cookie) cx= ca= cq= cf= cc= (credential
     at X-Tinode-Auth/Authorization/query/form/cookie) sq= sf= (sid) tq= tf= (topic) mh= (media
     handler) lim= body= fault= kind= fid=      upload request  -> UP <status|CRASH> <effect>
  SV m=.. kh= kq= kc= cx= ca= cq= cc= sq= mh= url=<template>  download -> SV <status> none|served:<k>
  INFLIGHT <fid> <kind> <n>     the fs handler's Upload (os.Create + StartUpload + copy) WITHOUT FinishUpload:
                                an upload that is running / was abandoned          -> INFLIGHT ok
  SYSLOAD / P2P <t> <u1> <u2> <want1> <want2> / MEMBER <t> <owner> <u> <want> <given|-> / PUBX <sess> <as> <t|sys> <k|-> <flags|-> <tpls> / AGE <hours>
                                publishes with attachment lists by senders of every mode shape (write-only by want or
                                by given, reader+writer, reader only, owner, root on behalf of another user, posts to
                                'sys' without a subscription), the k-th adapter call of the request failing, ageing;
                                answer PUBX saved= res= marked= calls=<the adapter calls messagesMapper.Save made>
  SVX m=.. kh= kq= kf= kc= cx= ca= cq= cf= cc= sq= sf= tq= tf= tk= body=none|form mh= url=<template>
                                download request with EVERY field of the upload request (form fields travel in a multipart
                                body, which net/http's FormValue parses for GET / HEAD too; tq / tf / tk: the `topic` parameter
                                in the query / a form field / a cookie)      -> SVX <status> none|served:<k>
  SETX <user> <t|me> <k|-> <pub|priv|both|none> <tpls>
                                {set desc} with extra.attachments on a group topic / on 'me', the k-th adapter call of the
                                request failing            -> SETX code=<c> calls=<adapter calls: U|T,S,L, ! = made to fail>
  NEWACCX <u> <k|-> <tpls>      {acc user="new"} with extra.attachments, the k-th adapter call of the request failing
                                                           -> NEWACCX code=<c> calls=<adapter calls: Q,C,H,A,D,L>
  USER/NEWACC/TOPIC/PUB/TAV/UAV/DELMSG/DELTOPIC/DELUSER/GC/DUMP      history of the link / GC part
     (NEWACC = {acc user="new"} with attachments from a session that is not logged in; TOPIC = {sub topic="new"};
      TAV / UAV = {set desc} on a group topic / on "me"; DELUSER of an owner removes its topics and their messages)

Laws evaluated on the IMPLEMENTATION's answers: see LAWS below."""
import json
import os
import subprocess
import vlib

SERVE = "/v0/file/s/"
B64 = "ABCDEFGHIJKLMNOPQRSTUVWXYZabcdefghijklmnopqrstuvwxyz0123456789-_"
LIM = 4096

LAWS = {
    "gate-valid-key": "an upload is stored / bytes are served only when some placement carries a valid API key",
    "gate-credentials": "bytes are served / an upload is stored only for a request with valid credentials or a live logged-in session id",
    "c16-unauthenticated-newacc-upload": "an upload with topic=newacc is stored without any credentials",
    "methods": "a method the endpoint does not implement is refused with 405 and has no effect",
    "refused-no-effect": "a request answered with a status other than 200 stores nothing and serves nothing",
    "size-limit": "a body above the configured size is refused and nothing is stored",
    "download-exact": "a download returns exactly the bytes and the content type of the upload its URL names",
    "active-attached": "HTML, XML, text and application types are sent with Content-Disposition: attachment",
    "download-completed-only": "a download serves only an upload record whose status is 'completed' (never a running, failed or abandoned upload)",
    "upload-answered": "the upload handler answers every request it starts to work on (no panic / dropped connection), also when the store fails at FinishUpload",
    "gc-exact": "a GC run removes exactly the unlinked records older than the bound, with their bytes, and nothing else",
    "linked-while-referenced": "a file listed with an accepted publish / avatar update stays linked and stored while the message / topic / user exists",
    "c16-attachment-link-all-or-nothing": "a stored message is left without links to its existing attachments because another listed attachment does not exist",
    "nothing-else-removed": "upload records and bytes disappear only through GC runs or failed uploads",
    "linked-never-removed": "an attachment listed with an accepted message - whoever sent it: write-only subscriber, owner, root on behalf of a user, a post to 'sys' - or the avatar listed with the last acknowledged topic / account update is not garbage-collected (record and bytes) after the grace period while the message / topic / user exists",
    "refused-no-effect-links": "a {set desc} or {acc user=new} that is answered with an error (denied, or the store failed while the topic / account / subscription was being updated or created) leaves upload records, link rows and stored bytes as they were: the avatar that was linked stays linked",
    "url-names-upload": "a URL yields an id only if its cleaned path is [serve prefix or nothing] + an 11-character name from [-_A-Za-z0-9] followed by nothing or a character outside that class",
    "no-panic": "the code under test panicked",
    "stored-type-is-detected": "the type an upload is stored and served under is the one sniffed from its first 512 bytes, whatever the multipart part declares; only when sniffing yields exactly application/octet-stream is a well-formed declared type of a listed family (application, audio, font, image, text, video) taken instead",
    "application-forced-download": "content that sniffs as HTML, XML, text or an application type (other than the undetectable application/octet-stream with a usable declared type) is served with Content-Disposition: attachment whatever type was declared",
    "gc-respects-grace-period": "the garbage-collection loop, whatever its period, passes a cut-off at least one hour in the past to DeleteUnused and removes no upload that was updated less than one hour ago",
}


def hx(s):
    if isinstance(s, str):
        s = s.encode("latin1")
    return s.hex() if s else "-"


def unhx(h):
    return b"" if h == "-" else bytes.fromhex(h)


# ---------------------------------------------------------------- URL cases
def rand_id(rng):
    return "".join(rng.choice(B64) for _ in range(11))


SEGS = ["", "", ".", "..", "...", "a", "v0", "file", "s", "..a", "a..", ".a", "%2e%2e", "%2F", " ", "s?x=1", "a#b",
        "\x00", "\xff\xfe", "a;b", "~", "C:", "\\", "\\..\\", "*"]


def url_structured(rng):
    parts = []
    k = rng.random()
    if k < 0.1:
        parts.append(rng.choice(["http://host", "https://h:80", "//host", "file://"]))
    if k < 0.75:
        parts.append("")      # leading slash
    base = rng.random()
    if base < 0.6:
        parts += ["v0", "file", "s"]
    elif base < 0.7:
        parts += ["v0", "file", "u"]
    n = rng.randrange(0, 4)
    for _ in range(n):
        parts.insert(rng.randrange(len(parts) + 1), rng.choice(SEGS))
    name = rand_id(rng)
    r = rng.random()
    if r < 0.1:
        name = name[:rng.randrange(0, 11)]
    elif r < 0.2:
        name += rng.choice(B64)
    elif r < 0.3:
        i = rng.randrange(11)
        name = name[:i] + rng.choice(".%/ ?\x00+=~") + name[i + 1:]
    elif r < 0.35:
        name = "AAAAAAAAAAA"
    name += rng.choice(["", "", ".jpg", ".html", ".", "?a=b", "?a=/b", "/", "/.", "/..", "#x", "%00", " ", ".tar.gz", "/../" + rand_id(rng)])
    parts.append(name)
    if rng.random() < 0.15:
        parts.append(rng.choice(SEGS))
    return "/".join(parts)


def url_cases(ctx):
    rng = ctx.rng
    quick = ctx.tier == "quick"
    cases = []
    # every string over {'/', '.', 'a'} up to a length: the whole logic of path.Clean
    import itertools
    L = 7 if quick else 11
    for l in range(0, L + 1):
        for t in itertools.product("/.a", repeat=l):
            cases.append("CL " + hx("".join(t)))
    serves = [SERVE, SERVE, SERVE, "/f/", "", "/", "/v0/file/s", "s/"]
    n = 4000 if quick else 600000
    for _ in range(n):
        u = url_structured(rng)
        cases.append("CL " + hx(u))
        cases.append("ID %s %s" % (hx(rng.choice(serves)), hx(u)))
    for _ in range(1500 if quick else 300000):
        m = rng.randrange(0, 24)
        u = bytes(rng.choice(b"//..aA0-_%?\x00\xff \\") if rng.random() < 0.8 else rng.randrange(256) for _ in range(m))
        cases.append("CL " + hx(u))
        cases.append("ID %s %s" % (hx(SERVE), hx(u)))
    # hand-picked shapes
    i0 = "Vf3kQ9_-aZ0"
    for u in [i0, SERVE + i0, SERVE + i0 + ".jpg", "/v0/file/s/../s/" + i0, "/v0/file/s/./" + i0, "/v0/file/s//" + i0,
              "/v0/file/s/" + i0 + "/", "/v0/file/s/" + i0 + "/.", "/v0/file/s/x/../" + i0, "../" + i0, "./" + i0,
              "/" + i0, "/etc/" + i0, "http://host" + SERVE + i0, "https://evil.example/" + i0,
              SERVE + i0 + "?a=b", SERVE + i0 + "?a=/b", SERVE + i0 + "?a=/../" + i0, SERVE + i0 + "/../../../../etc/passwd",
              SERVE + "..%2f..%2fetc%2fpasswd", SERVE + i0[:10], SERVE + i0 + "A", SERVE + i0[:10] + "1", SERVE + i0[:10] + "2",
              SERVE + i0[:10] + "3", SERVE + " " + i0, SERVE + i0 + "\x00.jpg", SERVE + "AAAAAAAAAAA", "", ".", "/", "//", "..",
              "/v0/file/s", "/v0/file/s/", "/V0/FILE/S/" + i0, "v0/file/s/" + i0, "/v0/file/s/" + i0 + "\n", "/v0/file/s/\r\n" + i0]:
        cases.append("CL " + hx(u))
        for s in (SERVE, "", "/"):
            cases.append("ID %s %s" % (hx(s), hx(u)))
    return cases


MIMES = ["text/html", "text/html; charset=utf-8", "text/plain; charset=utf-8", "text/xml; charset=utf-8", "application/pdf",
         "application/octet-stream", "application/xhtml+xml", "application/json", "application/zip", "application/x-gzip",
         "application/wasm", "application/vnd.ms-fontobject", "application/postscript", "application/ogg", "application/x-rar-compressed",
         "image/png", "image/jpeg", "image/gif", "image/webp", "image/svg+xml", "image/bmp", "image/x-icon", "image/vnd.microsoft.icon",
         "audio/mpeg", "audio/wave", "audio/midi", "audio/aiff", "audio/basic", "video/mp4", "video/webm", "video/avi", "font/ttf",
         "font/otf", "font/woff", "font/woff2", "font/collection", "message/rfc822", "model/vrml", "multipart/form-data", "text/css",
         "text/javascript", "text/csv", "text/vcard", "application/javascript", "application/xml", "application/rss+xml",
         "image/svg+XML", "TEXT/HTML", "Text/html", "xtext/html", " text/html", "texthtml", "app", "", "x", "image/html5",
         "video/x-ms-asf", "application", "application/", "text", "text/", "message/", "model/", "multipart/", "mode/l", "xm", "htm",
         "image/x-xmlish", "audio/xhtml", "font/sxml", "video/h.t.m.l"]


def fa_cases(ctx):
    rng = ctx.rng
    cases = []
    for m in MIMES:
        for a in ("-", "1", "true", "0", "yes", "T", "f", "TRUE", ""):
            if a == "":
                continue
            cases.append("FA %s %s" % (a, hx(m)))
    for _ in range(300 if ctx.tier == "quick" else 20000):
        m = rng.choice(MIMES)
        r = rng.random()
        if r < 0.4:
            i = rng.randrange(len(m) + 1)
            m = m[:i] + rng.choice(["x", "/", "html", "xml", "ml", "text/", " ", "\x00", "application/", "X", "h"]) + m[i:]
        elif r < 0.6 and m:
            i = rng.randrange(len(m))
            m = m[:i] + m[i + 1:]
        elif r < 0.7:
            m = "".join(rng.choice("htmlxapicon/tex") for _ in range(rng.randrange(12)))
        cases.append("FA %s %s" % (rng.choice(["-", "-", "-", "0", "1", "yes"]), hx(m)))
    return cases


# ---------------------------------------------------------------- gate matrix
KEYS = ["valid", "badsig", "short", "garbage", "crlf", "othersalt"]
CREDS_OK = ["good1", "good2"]
CREDS_BAD = ["zero", "badsig", "serial", "trunc", "expired", "notb64", "unknown"]
KINDS = ["html", "xml", "svg", "png", "jpeg", "gif", "pdf", "text", "js", "bin", "binhtml", "binsvg", "binbad", "mp4", "zip"]
UP_METHODS = ["POST", "PUT", "HEAD", "OPTIONS", "GET", "DELETE", "PATCH", "BREW", "post"]
SV_METHODS = ["GET", "HEAD", "OPTIONS", "POST", "PUT", "DELETE", "PATCH", "BREW", "get"]


class Gen:
    """builds the line list; knows which uploads exist (by intent) for templates"""

    def __init__(self, ctx):
        self.ctx = ctx
        self.rng = ctx.rng
        self.lines = []
        self.nfid = 0
        self.nuser = 0
        self.ntopic = 0
        self.meta = {}        # line index -> dict used by the monitors
        self.names = {}       # URL template -> upload it names (None: names nothing)

    def add(self, line, **meta):
        self.lines.append(line)
        return len(self.lines) - 1

    def up(self, m="POST", kh="-", kq="-", kf="-", kc="-", cx="-", ca="-", cq="-", cf="-", cc="-", sq="-", sf="-",
           tq="-", tf="-", mh="fs", lim=LIM, body=None, fault="none", kind=None, acrm="0"):
        self.nfid += 1
        if kind is None:
            kind = self.rng.choice(KINDS)
        if body is None:
            body = "form:%d:1:1" % self.rng.choice([1500, 2000, 3000, LIM - 1, LIM])
        if m in ("HEAD", "OPTIONS", "GET", "DELETE", "BREW", "get") and self.rng.random() < 0.8:
            body = "none"
        d = dict(m=m, kh=kh, kq=kq, kf=kf, kc=kc, cx=cx, ca=ca, cq=cq, cf=cf, cc=cc, sq=sq, sf=sf, tq=tq, tf=tf, mh=mh,
                 lim=lim, body=body, fault=fault, kind=kind, fid=self.nfid, acrm=acrm)
        self.add("UP " + " ".join("%s=%s" % kv for kv in d.items()))
        return self.nfid

    def sv(self, url, m="GET", kh="-", kq="-", kc="-", cx="-", ca="-", cq="-", cc="-", sq="-", mh="fs", asatt="-", acrm="0",
           target=None):
        d = dict(m=m, kh=kh, kq=kq, kc=kc, cx=cx, ca=ca, cq=cq, cc=cc, sq=sq, mh=mh, asatt=asatt, acrm=acrm, url=url)
        self.add("SV " + " ".join("%s=%s" % kv for kv in d.items()))

    def svx(self, url, m="GET", body="none", mh="fs", asatt="-", acrm="0", **a):
        d = dict(m=m)
        for k in ("kh", "kq", "kf", "kc", "cx", "ca", "cq", "cf", "cc", "sq", "sf", "tq", "tf", "tk"):
            d[k] = a.get(k, "-")
        if any(d[k] != "-" for k in ("kf", "cf", "sf", "tf")):
            body = "form"
        d.update(body=body, mh=mh, asatt=asatt, acrm=acrm, url=url)
        self.add("SVX " + " ".join("%s=%s" % kv for kv in d.items()))

    def inflight(self, kind=None, n=None):
        self.nfid += 1
        self.add("INFLIGHT %d %s %d" % (self.nfid, kind or self.rng.choice(KINDS), n or self.rng.choice([700, 1500, 3000])))
        return self.nfid

    def good_up(self, kind=None, **kw):
        r = self.rng
        a = {}
        a[r.choice(["kh", "kq", "kf", "kc"])] = "valid"
        a[r.choice(["cx", "ca", "cq", "cf", "cc"])] = r.choice(CREDS_OK)
        a.update(kw)
        return self.up(kind=kind, **a)

    def tpl(self, k, shape=None):
        """a URL template naming upload k: (template, names_k?)"""
        r = self.rng
        t = self.tpl0(k, shape)
        self.names[t] = str(k)
        return t

    def tpl0(self, k, shape=None):
        r = self.rng
        shape = shape or r.choice(["F", "F", "F", "id", "rel", "dot", "dd", "slash", "ext", "q"])
        s = hx(SERVE)
        if shape == "F":
            return "F%d" % k
        if shape == "id":
            return "h%s+f%d" % (s, k)
        if shape == "rel":
            return "f%d" % k
        if shape == "dot":
            return "h%s+f%d" % (hx("/v0/file/s/./"), k)
        if shape == "dd":
            return "h%s+f%d" % (hx("/v0/file/s/x/../"), k)
        if shape == "slash":
            return "h%s+f%d+h%s" % (hx("/v0//file/s/"), k, hx("/"))
        if shape == "ext":
            return "h%s+f%d+h%s" % (s, k, hx(r.choice([".jpg", ".html", ".x.y", "%00"])))
        if shape == "q":
            return "F%d+h%s" % (k, hx("?x=1"))
        if shape == "idq":
            return "h%s+f%d+h%s" % (s, k, hx("?x=1"))
        raise ValueError(shape)

    def bad_tpl(self, absolute=False):
        """a URL that names no upload"""
        r = self.rng
        k = max(1, self.nfid)
        t = r.choice([x for x in [
            "h" + hx("/etc/passwd"), "h%s+f%d" % (hx("/v0/file/u/"), k), "h%s+f%d" % (hx("/etc/"), k),
            "h%s+f%d" % (hx("https://evil.example/x/"), k), "h%s+f%d+h%s" % (hx(SERVE), k, hx("A")),
            "h%s+f%d+h%s" % (hx(SERVE), k, hx("/x")), "h" + hx(SERVE), "h" + hx("../../" + "etc"), "h" + hx(SERVE + "short"),
            "h%s+f%d" % (hx(SERVE + "../"), k), "h%s+f%d" % (hx("/v0/file/s/a/"), k), "h%s+f%d" % (hx("x/"), k),
            "h%s+f%d" % (hx(SERVE + "%2e%2e/s/"), k)] if not absolute or x.startswith("h2f")])
        self.names[t] = None
        return t


def gate_cases(g):
    rng = g.rng
    quick = g.ctx.tier == "quick"
    g.add("USER 1")
    g.add("USER 2")
    # fixtures for downloads, one per content kind
    fixtures = {}
    for kind in KINDS:
        fixtures[kind] = g.up(kh="valid", cx="good1", kind=kind, body="form:%d:1:1" % rng.choice([1200, 2500, LIM]))
    fx = list(fixtures.values())
    # --- upload: every method x each single API-key placement/kind x each single credential placement/kind
    keyopts = [{}] + [{p: k} for p in ("kh", "kq", "kf", "kc") for k in KEYS]
    credopts = ([{}] + [{p: c} for p in ("cx", "ca", "cq", "cf", "cc") for c in CREDS_OK + CREDS_BAD]
                + [{p: s} for p in ("sq", "sf") for s in ("live", "anon", "dead")])
    combos = [(m, ko, co) for m in UP_METHODS for ko in keyopts for co in credopts]
    if quick:
        keep = [c for c in combos if c[1].get(next(iter(c[1]), ""), "") in ("", "valid") or rng.random() < 0.08]
        combos = rng.sample(keep, 1100)
    for m, ko, co in combos:
        a = dict(ko)
        a.update(co)
        if m in ("HEAD", "OPTIONS", "GET", "DELETE", "BREW", "get") and ("kf" in a or "cf" in a or "sf" in a):
            continue
        g.up(m=m, **a)
    # precedence between placements: two API keys / two credentials
    for _ in range(150 if quick else 4000):
        ps = rng.sample(["kh", "kq", "kf", "kc"], 2)
        cs = rng.sample(["cx", "ca", "cq", "cf", "cc", "sq", "sf"], 2)
        a = {ps[0]: rng.choice(["valid", "badsig"]), ps[1]: rng.choice(["valid", "badsig", "short"])}
        for c in cs:
            a[c] = rng.choice(["live", "anon", "dead"]) if c[0] == "s" else rng.choice(CREDS_OK + CREDS_BAD)
        if rng.random() < 0.3:
            a[rng.choice(["tq", "tf"])] = rng.choice(["newacc", "other", "Newacc", "newacc2"])
        g.up(m=rng.choice(["POST", "PUT"]), **a)
    # a session id in the query and another one in the form
    for sq in ("live", "anon", "dead", "-"):
        for sf in ("live", "anon", "dead", "-"):
            g.up(kh="valid", sq=sq, sf=sf)
            g.up(kf="valid", sq=sq, sf=sf, cq="unknown" if sq == "dead" else "-")
    # the signup exception and its neighbours
    for tq, tf in [("newacc", "-"), ("-", "newacc"), ("other", "-"), ("-", "other"), ("Newacc", "-"), ("newacc", "other"), ("other", "newacc")]:
        for a in [{}, {"cx": "badsig"}, {"cq": "unknown"}, {"sq": "anon"}, {"sq": "dead"}, {"cc": "zero"}, {"cx": "good1"}]:
            for key in [{"kh": "valid"}, {"kf": "valid"}, {}, {"kq": "badsig"}]:
                b = dict(a)
                b.update(key)
                g.up(tq=tq, tf=tf, **b)
    # sizes around the limit x placements in header / form; limit off
    for lim in (LIM, 2000, 0, -1):
        for tot in (1500, 1999, 2000, 2001, LIM - 1, LIM, LIM + 1, LIM + 900, 3 * LIM):
            for a in [{"kh": "valid", "cx": "good1"}, {"kf": "valid", "cx": "good1"}, {"kh": "valid", "cf": "good1"},
                      {"kh": "valid", "sf": "live"}, {"kq": "valid", "tf": "newacc"}, {"kh": "valid", "tq": "newacc"}]:
                g.up(lim=lim, body="form:%d:1:1" % tot, **a)
    # bodies that are not a form / have no file part / an empty file
    for body in ("none", "text", "form:1500:0:1", "form:0:1:0"):
        for m in ("POST", "PUT"):
            g.up(m=m, kh="valid", cx="good1", body=body)
            g.up(m=m, kh="valid", body=body)
    # media handler: none configured, redirecting, failing; faults in the store / file system
    for mh in ("none", "stubs307", "stubs200", "stubs404", "stube", "fs"):
        for m in ("POST", "PUT", "HEAD", "OPTIONS", "DELETE"):
            for a in [{"kh": "valid", "cx": "good1"}, {"kh": "valid"}, {"cx": "good1"}, {"kh": "valid", "tq": "newacc"}]:
                g.up(m=m, mh=mh, acrm=rng.choice(["0", "1"]), **a)
    residues = []
    for fault in ("create", "start", "finish"):
        for a in [{"kh": "valid", "cx": "good1"}, {"kh": "valid"}, {"kq": "valid", "tf": "newacc"}, {"kc": "badsig", "cx": "good2"}]:
            k = g.up(fault=fault, body="form:2000:1:1", **a)
            if fault == "finish":
                residues.append(k)
    # content kinds
    for kind in KINDS:
        for n in (1400, LIM):
            g.good_up(kind=kind, body="form:%d:1:1" % n)
    # --- download
    keyopts = [{}] + [{p: k} for p in ("kh", "kq", "kc") for k in KEYS]
    credopts = ([{}] + [{p: c} for p in ("cx", "ca", "cq", "cc") for c in CREDS_OK + CREDS_BAD]
                + [{"sq": s} for s in ("live", "anon", "dead")])
    combos = [(m, ko, co) for m in SV_METHODS for ko in keyopts for co in credopts]
    if quick:
        combos = rng.sample(combos, 700)
    for m, ko, co in combos:
        a = dict(ko)
        a.update(co)
        k = rng.choice(fx)
        g.sv(g.tpl(k, "F"), m=m, target=k, **a)
    for _ in range(100 if quick else 3000):
        ps = rng.sample(["kh", "kq", "kc"], 2)
        cs = rng.sample(["cx", "ca", "cq", "cc", "sq"], 2)
        a = {ps[0]: rng.choice(["valid", "badsig"]), ps[1]: rng.choice(["valid", "badsig", "short"])}
        for c in cs:
            a[c] = rng.choice(["live", "anon", "dead"]) if c[0] == "s" else rng.choice(CREDS_OK + CREDS_BAD)
        k = rng.choice(fx)
        g.sv(g.tpl(k, "F"), target=k, **a)
    # every fixture, every URL shape, attachment flag
    for kind, k in fixtures.items():
        for shape in ("F", "id", "dot", "dd", "slash", "ext", "q"):
            g.sv(g.tpl(k, shape), kh="valid", cx="good2", asatt=rng.choice(["-", "-", "1", "0", "true", "yes"]), target=k)
        g.sv(g.tpl(k, "F"), kq="valid", cq="good1", target=k)
        g.sv(g.tpl(k, "F"), kc="valid", sq="live", target=k)
        g.sv(g.tpl(k, "F"), m="HEAD", kh="valid", ca="good1", target=k)
    for _ in range(60 if quick else 1500):
        g.sv(g.bad_tpl(True), kh="valid", cx="good1", target=None)
    for mh in ("none", "stubs307", "stubs200", "stubs404", "stube"):
        for m in ("GET", "HEAD", "OPTIONS", "POST"):
            for a in [{"kh": "valid", "cx": "good1"}, {"kh": "valid"}, {"cx": "good1"}]:
                k = rng.choice(fx)
                g.sv(g.tpl(k, "F"), m=m, mh=mh, acrm=rng.choice(["0", "1"]), target=k, **a)
    # the records a failed FinishUpload left behind: can they be downloaded?
    for k in residues:
        g.sv("h%s+f%d" % (hx(SERVE), k), kh="valid", cx="good1", target=k)
    # uploads that are running (between StartUpload and FinishUpload) or were abandoned there:
    # record in status 'started' WITH bytes.  No URL shape, credential placement or method serves them.
    for kind in rng.sample(KINDS, 4 if quick else len(KINDS)):
        k = g.inflight(kind)
        for shape in ("id", "dot", "dd", "slash", "ext", "idq"):
            g.sv(g.tpl(k, shape), kh="valid", cx="good1", asatt=rng.choice(["-", "1"]), target=k)
        g.sv(g.tpl(k, "id"), kq="valid", sq="live", target=k)
        g.sv(g.tpl(k, "id"), kc="valid", cc="good2", target=k)
        g.sv(g.tpl(k, "id"), m="HEAD", kh="valid", ca="good1", target=k)
    g.add("DUMP")
    g.add("GC past 0")
    g.add("DUMP")
    g.add("GC future 7")
    g.add("DUMP")
    g.add("GC zero 0")
    g.add("DUMP")


def history_cases(g, count, length):
    rng = g.rng
    for h in range(count):
        base_u = g.nuser = max(g.nuser, 2) + 1
        users = [1, base_u, base_u + 1]
        g.nuser += 1
        g.add("USER %d" % users[1])
        g.add("USER %d" % users[2])
        alive_users = users[1:]
        topics = []           # live topic indices
        owner = {}            # topic -> the user that created it (its owner)
        wedged = set()
        files = []            # uploads made in this history (may have been collected)
        pubs = {}             # publish index -> topic   (global publish counter in g)
        for step in range(length):
            r = rng.random()
            if r < 0.22 or not files:
                if files and rng.random() < 0.15:
                    k = g.inflight()          # never completed: linkable, never downloadable, collected when unlinked
                else:
                    k = g.good_up(body="form:%d:1:1" % rng.choice([1300, 1800]))
                files.append(k)
            elif r < 0.30 and len(topics) < 3:
                g.ntopic += 1
                att = "-"
                if rng.random() < 0.5:
                    att = g.tpl(rng.choice(files))
                # topics owned by a user that may be deleted later: its deletion removes the topic,
                # its messages and their links
                o = rng.choice([1, 1] + alive_users)
                owner[g.ntopic] = o
                g.add("TOPIC %d %d %s" % (g.ntopic, o, att), kind="TOPIC", t=g.ntopic)
                topics.append(g.ntopic)
            elif r < 0.52 and [t for t in topics if t not in wedged]:
                t = rng.choice([t for t in topics if t not in wedged])
                n = rng.choice([0, 1, 1, 2, 3])
                tp = []
                for _ in range(n):
                    q = rng.random()
                    if q < 0.75:
                        tp.append(g.tpl(rng.choice(files)))
                    elif q < 0.93:
                        tp.append(g.bad_tpl())
                    else:
                        tp.append("h%s+x" % hx(SERVE))       # well-formed id that was never issued
                g.add("PUB %d %d %s" % (owner[t], t, ",".join(tp) or "-"), kind="PUB", t=t)
            elif r < 0.62 and topics:
                t = rng.choice(topics)
                tp = [g.tpl(rng.choice(files)) if rng.random() < 0.8 else g.bad_tpl() for _ in range(rng.choice([1, 1, 2]))]
                g.add("TAV %d %d %s" % (owner[t], t, ",".join(tp)), kind="TAV", t=t)
            elif r < 0.66 and len(alive_users) < 4:
                # a new account: the avatar is uploaded BEFORE the account exists (topic=newacc, no
                # credentials; finding F1), then listed with the {acc} request that creates the account
                q = rng.random()
                if q < 0.6:
                    k = g.up(**{rng.choice(["kh", "kq", "kf"]): "valid", rng.choice(["tq", "tf"]): "newacc",
                                "body": "form:%d:1:1" % rng.choice([1300, 1800])})
                    files.append(k)
                    tp = [g.tpl(k)]
                elif q < 0.85:
                    tp = [g.tpl(rng.choice(files)) if rng.random() < 0.7 else g.bad_tpl() for _ in range(rng.choice([1, 2]))]
                else:
                    tp = []
                g.nuser += 1
                alive_users.append(g.nuser)
                g.add("NEWACC %d %s" % (g.nuser, ",".join(tp) or "-"), kind="NEWACC", u=g.nuser)
            elif r < 0.72 and alive_users:
                u = rng.choice(alive_users)
                tp = [g.tpl(rng.choice(files)) if rng.random() < 0.8 else g.bad_tpl() for _ in range(rng.choice([1, 1, 2]))]
                g.add("UAV %d %s" % (u, ",".join(tp)), kind="UAV", u=u)
            elif r < 0.80 and topics:
                t = rng.choice(topics)
                g.add("DELMSG %d %d %s" % (owner[t], t, ",".join(str(rng.randrange(1, 400)) for _ in range(3))), kind="DELMSG", t=t)
            elif r < 0.84 and topics:
                t = rng.choice(topics)
                topics.remove(t)
                g.add("DELTOPIC %d %d" % (owner[t], t), kind="DELTOPIC", t=t)
            elif r < 0.87 and len(alive_users) > 0 and rng.random() < 0.5:
                u = alive_users.pop()
                topics = [t for t in topics if owner[t] != u]          # deleted with their owner
                g.add("DELUSER %d" % u, kind="DELUSER", u=u)
            elif r < 0.97:
                g.add("GC %s %d" % (rng.choice(["future", "future", "future", "zero", "past"]), rng.choice([0, 0, 0, 1, 2, 100])), kind="GC")
            else:
                k = rng.choice(files)
                g.sv(g.tpl(k, rng.choice(["F", "id", "dot", "dd", "slash", "ext", "q"])), kh="valid", cx="good1", target=k)
            g.add("DUMP")
        for u in alive_users[1:]:
            # the owner goes first: its topics, their messages and all their links go with it
            topics = [t for t in topics if owner[t] != u]
            g.add("DELUSER %d" % u, kind="DELUSER", u=u)
            g.add("DUMP")
        for t in topics:
            g.add("DELTOPIC %d %d" % (owner[t], t), kind="DELTOPIC", t=t)
        for u in alive_users[:1]:
            g.add("DELUSER %d" % u, kind="DELUSER", u=u)
        g.add("DUMP")
        g.add("GC zero 0")
        g.add("DUMP")


# ---------------------------------------------------------------- senders of every mode shape (messagesMapper.Save)
# (want, given set by the owner or "-" = the topic's default JRWPS)
MODES_C16B = {
    "wonly": [("JWP", "-"), ("JW", "-"), ("JWPS", "-"), ("JRWPS", "JWP"), ("JRWP", "JW"), ("JWP", "JWPS")],
    "rw": [("JRWPS", "-"), ("JRWP", "JRWPS"), ("JRW", "-")],
    "ronly": [("JRP", "-"), ("JRWPS", "JRP")],
}


def sender_mode_cases_c16b(g, count, length):
    """histories in which the message with the attachment list comes from every kind of sender; every publish is
    followed by a dump, and the grace period + the garbage collector's own call come back regularly"""
    rng = g.rng
    g.add("SYSLOAD")
    npub = sum(1 for l in g.lines if l.startswith("PUB"))
    g.starts_c16b = []
    for h in range(count):
        g.starts_c16b.append(len(g.lines))          # each of these histories stands alone (users, uploads, topic of its own)
        base = g.nuser = max(g.nuser, 2) + 1
        a, b, c, o = base, base + 1, base + 2, base + 3
        g.nuser = base + 3
        for u in (a, b, c, o):
            g.add("USER %d" % u)
        files = [g.good_up(body="form:%d:1:1" % rng.choice([1300, 1800])) for _ in range(3)]
        g.ntopic += 1
        t = g.ntopic
        owner = rng.choice([1, a])
        g.add("TOPIC %d %d %s" % (t, owner, g.tpl(rng.choice(files)) if rng.random() < 0.3 else "-"))
        members = [u for u in (1, a, b, c) if u != owner]      # maxSubscriberCount = 4
        shape = {owner: "owner"}
        for u in members:
            kind = "rw" if u == 1 else rng.choice(["wonly", "wonly", "wonly", "rw", "ronly"])
            want, given = rng.choice(MODES_C16B[kind])
            shape[u] = kind
            g.add("MEMBER %d %d %d %s %s" % (t, owner, u, want, given))
        # a p2p topic between two users of its own (kept: deleting a party has its own cascade)
        p, q = g.nuser + 1, g.nuser + 2
        g.nuser += 2
        g.add("USER %d" % p)
        g.add("USER %d" % q)
        g.ntopic += 1
        tp2p = g.ntopic
        shape[p], shape[q] = rng.choice(["wonly", "wonly", "rw"]), rng.choice(["wonly", "rw", "ronly"])
        p2pwant = {"wonly": ["JWP", "JW", "JWPA"], "rw": ["JRWPA", "JRWP"], "ronly": ["JRP", "JRPA"]}
        g.add("P2P %d %d %d %s %s" % (tp2p, p, q, rng.choice(p2pwant[shape[p]]), rng.choice(p2pwant[shape[q]])))
        g.add("DUMP")

        likely = []          # uploads listed with a publish that is probably accepted: they stay when the GC has run

        def attachments(accepted):
            r = rng.random()
            if r < 0.08:
                return "-"
            ks = [rng.choice(files) for _ in range(rng.choice([1, 1, 1, 2]))]
            if accepted:
                likely.extend(ks)
            tp = [g.tpl(k) for k in ks]
            if rng.random() < 0.15:
                tp.insert(rng.randrange(len(tp) + 1), g.bad_tpl())      # names nothing: skipped by Save
            return ",".join(tp)

        forced = []

        def fault():
            if forced:
                return forced.pop()
            return str(rng.choice([1, 2, 3, 3, 4, 4])) if rng.random() < 0.12 else "-"

        # every shape at least once, then a random tail
        script = [("p2p", p), ("p2p", q), ("selffault", owner)] + [("self", u) for u in [owner] + members] + [("obo", rng.choice([a, b, c])), ("sys", rng.choice([a, b, c, o])),
                                                              ("sysobo", rng.choice([a, b, c, o])), ("gc", 0)]
        rng.shuffle(script)
        for step in range(length):
            if step < len(script):
                what, u = script[step]
            else:
                r = rng.random()
                what, u = (("p2p", rng.choice([p, q])) if r < 0.12 else
                           ("self", rng.choice([owner] + members)) if r < 0.40 else
                           ("obo", rng.choice([a, b, c, o])) if r < 0.52 else
                           ("sys", rng.choice([a, b, c, o, 1])) if r < 0.66 else
                           ("sysobo", rng.choice([a, b, c, o])) if r < 0.72 else
                           ("up", 0) if r < 0.80 else ("delmsg", 0) if r < 0.86 else ("gc", 0))
            if what == "selffault":
                # the owner reads and writes: call 3 is SubsUpdate (its failure is ignored), call 4 links the attachments
                what = "self"
                forced.append(str(rng.choice([3, 3, 4])))
            if what in ("self", "obo", "sys", "sysobo", "p2p"):
                f = fault()
                on_sys = what in ("sys", "sysobo")
                ok = f == "-" and (on_sys or shape.get(u, "none") in ("owner", "wonly", "rw"))
                g.add("PUBX %d %d %s %s %s %s" % (u if what in ("self", "sys", "p2p") else 1, u,
                                                  "sys" if on_sys else str(tp2p if what == "p2p" else t), f,
                                                  rng.choice(["-", "-", "-", "n", "h", "nh"]), attachments(ok)))
                npub += 1
            elif what == "up":
                files.append(g.inflight() if rng.random() < 0.15 else g.good_up(body="form:%d:1:1" % rng.choice([1300, 1800])))
            elif what == "delmsg":
                ks = sorted({rng.randrange(max(1, npub - 10), npub + 1) for _ in range(2)})
                g.add("DELMSG %d %d %s" % (owner, t, ",".join(map(str, ks))))
            else:
                # the grace period passes; then exactly what largeFileRunGarbageCollection calls
                g.add("AGE %d" % rng.choice([2, 2, 3, 24]))
                g.add("GC past %d" % rng.choice([100, 100, 0, 1]))
                g.add("DUMP")
                # what was not linked is gone now: go on with the uploads that were listed, and two new ones
                files = sorted(set(likely)) + [g.good_up(body="form:%d:1:1" % rng.choice([1300, 1800])) for _ in range(2)]
            g.add("DUMP")
        g.add("AGE 2")
        g.add("GC past 0")
        g.add("DUMP")
        g.add("DELTOPIC %d %d" % (owner, t))
        for u in (a, b, c, o):
            g.add("DELUSER %d" % u)
        g.add("DUMP")
        g.add("GC zero 0")
        g.add("DUMP")


# ---------------------------------------------------------------- download requests with every request field
NOCRED_C16C = ([{}] + [{p: c} for p in ("cx", "ca", "cq", "cf", "cc") for c in ("zero", "unknown")]
               + [{p: v} for p in ("sq", "sf") for v in ("anon", "dead")])
TOPICS_C16C = [{}, {"tq": "newacc"}, {"tf": "newacc"}, {"tk": "newacc"}, {"tq": "other"}, {"tf": "other"}, {"tq": "Newacc"},
               {"tq": "newacc", "tf": "other"}, {"tq": "other", "tf": "newacc"}, {"tq": "newacc", "tf": "newacc", "tk": "newacc"}]


def download_full_cases_c16c(g):
    """the matrix of the upload gate applied to the serve endpoint: GET / HEAD / OPTIONS (and methods it does not
    implement) x API key at header / query / form / cookie x credential at X-Tinode-Auth / Authorization / query / form /
    cookie / sid in query / form x the `topic` parameter (newacc and neighbours) in query / form / cookie"""
    rng = g.rng
    quick = g.ctx.tier == "quick"
    fx = [g.up(kh="valid", cx="good1", kind=kind, body="form:%d:1:1" % rng.choice([1200, 2500])) for kind in ("png", "html", "text", "bin")]
    # (a) every valid-key placement x every way of carrying NO valid credentials x the topic parameter: never served
    for m in ("GET", "HEAD"):
        for kp in ("kh", "kq", "kf", "kc"):
            for co in NOCRED_C16C:
                for to in (TOPICS_C16C if not quick else TOPICS_C16C[:4] + [rng.choice(TOPICS_C16C[4:])]):
                    a = {kp: "valid"}
                    a.update(co)
                    a.update(to)
                    g.svx(g.tpl(rng.choice(fx), "F"), m=m, **a)
    # (b) the full cross product, the topic parameter drawn per request
    keyopts = [{}] + [{p: k} for p in ("kh", "kq", "kf", "kc") for k in KEYS]
    credopts = ([{}] + [{p: c} for p in ("cx", "ca", "cq", "cf", "cc") for c in CREDS_OK + CREDS_BAD]
                + [{p: v} for p in ("sq", "sf") for v in ("live", "anon", "dead")])
    combos = [(m, ko, co) for m in ("GET", "HEAD", "OPTIONS", "POST", "PUT", "DELETE", "BREW") for ko in keyopts for co in credopts]
    if quick:
        keep = [c for c in combos if c[0] in ("GET", "HEAD") and (not c[1] or "valid" in c[1].values())]
        combos = rng.sample(keep, 420) + rng.sample(combos, 180)
    for m, ko, co in combos:
        a = dict(ko)
        a.update(co)
        a.update(rng.choice(TOPICS_C16C + [{"tq": "newacc"}, {"tf": "newacc"}]))
        g.svx(g.tpl(rng.choice(fx), "F"), m=m, body=rng.choice(["none", "none", "form"]), **a)
    # (c) precedence: two key placements, two credential placements, query before form
    for _ in range(120 if quick else 4000):
        ps = rng.sample(["kh", "kq", "kf", "kc"], 2)
        cs = rng.sample(["cx", "ca", "cq", "cf", "cc", "sq", "sf"], 2)
        a = {ps[0]: rng.choice(["valid", "badsig"]), ps[1]: rng.choice(["valid", "badsig", "short"])}
        for c in cs:
            a[c] = rng.choice(["live", "anon", "dead"]) if c[0] == "s" else rng.choice(CREDS_OK + CREDS_BAD)
        a.update(rng.choice(TOPICS_C16C))
        g.svx(g.tpl(rng.choice(fx), "F"), m=rng.choice(["GET", "GET", "HEAD"]), **a)
    for sq in ("live", "anon", "dead", "-"):
        for sf in ("live", "anon", "dead", "-"):
            g.svx(g.tpl(rng.choice(fx), "F"), kh="valid", sq=sq, sf=sf, tq=rng.choice(["-", "newacc"]))
            g.svx(g.tpl(rng.choice(fx), "F"), kf="valid", sq=sq, sf=sf, tf=rng.choice(["-", "newacc"]))
    # (d) media handler configurations and URL shapes with the topic parameter present
    for mh in ("none", "stubs307", "stubs200", "stubs404", "stube"):
        for m in ("GET", "HEAD", "OPTIONS"):
            for a in [{"kh": "valid", "cx": "good1"}, {"kh": "valid"}, {"kq": "valid", "tq": "newacc"}, {"kc": "valid", "tf": "newacc"}]:
                g.svx(g.tpl(rng.choice(fx), "F"), m=m, mh=mh, acrm=rng.choice(["0", "1"]), **a)
    for k in fx:
        for shape in ("F", "id", "dot", "dd", "slash", "ext"):
            g.svx(g.tpl(k, shape), kh="valid", tq="newacc")
            g.svx(g.tpl(k, shape), kf="valid", cf="good2", tf="newacc", asatt=rng.choice(["-", "1"]))
    g.add("DUMP")


# ---------------------------------------------------------------- {set desc} with attachments under store faults
def avatar_fault_cases_c16c(g, count, length):
    """histories of avatar updates on a group topic and on 'me' in which the k-th adapter call of the {set} request is
    made to fail, a non-owner tries, nothing changes, the grace period passes, the garbage collector runs and the old
    and the new avatar are downloaded; every step is followed by a dump"""
    rng = g.rng
    if not hasattr(g, "starts_c16b"):
        g.starts_c16b = []
    for h in range(count):
        g.starts_c16b.append(len(g.lines))          # stands alone: users, uploads, topic of its own
        base = g.nuser = max(g.nuser, 2) + 1
        a, b = base, base + 1
        g.nuser = base + 1
        g.add("USER %d" % a)
        g.add("USER %d" % b)
        files = [g.good_up(kind=rng.choice(["png", "jpeg", "gif"]), body="form:%d:1:1" % rng.choice([1300, 1800])) for _ in range(4)]
        g.ntopic += 1
        t = g.ntopic
        first = files[0]
        g.add("TOPIC %d %d %s" % (t, a, g.tpl(first) if rng.random() < 0.5 else "-"))
        g.add("MEMBER %d %d %d JRWPS -" % (t, a, b))
        g.add("DUMP")
        cur = {}              # target -> upload listed with the last update that is expected to be acknowledged

        def fresh(n=1):
            for _ in range(n):
                files.append(g.good_up(kind=rng.choice(["png", "jpeg", "gif"]), body="form:%d:1:1" % rng.choice([1300, 1800])))

        def pick(tg):
            c = [k for k in files if k != cur.get(tg)]
            return rng.choice(c)

        if g.lines[-3].split()[-1] != "-":
            cur[str(t)] = first

        def setx(u, tg, k, what, tpls):
            g.add("SETX %d %s %s %s %s" % (u, "me" if tg.startswith("me") else tg, k, what, tpls))
            g.add("DUMP")

        def gc_and_download(tg):
            g.add("AGE %d" % rng.choice([2, 2, 3, 24]))
            g.add("GC past %d" % rng.choice([100, 100, 0]))
            g.add("DUMP")
            for k in sorted(set(old_new)):
                g.sv(g.tpl(k, rng.choice(["F", "id"])), kh="valid", cx="good1", target=k)
            # what was not linked is gone: go on with the linked uploads and new ones
            keep = [k for k in set(cur.values()) if k is not None]
            del files[:]
            files.extend(keep)
            fresh(3)
            g.add("DUMP")

        # blocks: an acknowledged update (the owner object has a linked avatar), then the adversarial request, then
        # the grace period + the collector + downloads
        blocks = []
        for tg, u in ((str(t), a), ("me", a), ("me", b)):
            blocks += [[("ok", tg, u), ("fault1", tg, u), ("gc", tg, u)], [("ok", tg, u), ("faultsub", tg, u), ("gc", tg, u)],
                       [("ok", tg, u), ("faultlink", tg, u), ("gc", tg, u)]]
        blocks += [[("ok", str(t), a), ("nonowner", str(t), b), ("gc", str(t), a)], [("ok", str(t), a), ("privonly", str(t), b), ("gc", str(t), a)],
                   [("ok", str(t), a), ("none", str(t), a), ("gc", str(t), a)]]
        blocks += [[("newacc", k_, 0) for k_ in ("-", "1", "2", "3", "4", "5")] + [("gc", str(t), a)]]
        created = []
        if h % 2:
            rng.shuffle(blocks)
        if g.ctx.tier == "quick":
            # each history gets a part of the blocks, all histories together all of them (several times)
            blocks = [bl for j, bl in enumerate(blocks) if (j + h) % 2 == 0]
        script = [st_ for bl in blocks for st_ in bl]
        steps = script + [None] * max(0, length - len(script))
        old_new = []
        for stp in steps:
            if stp is None:
                tg, u = rng.choice([(str(t), a), ("me", a), ("me", b), (str(t), b)])
                r = rng.random()
                what = ("ok" if r < 0.25 else "fault1" if r < 0.45 else "faultsub" if r < 0.55 else "faultlink" if r < 0.62 else
                        "faultany" if r < 0.72 else "gc" if r < 0.84 else "none" if r < 0.86 else "newacc" if r < 0.93 else "privonly")
                if u == b and tg != "me" and what != "newacc":
                    what = rng.choice(["nonowner", "privonly", "nonowner"])
                stp = (what, tg, u)
                if what == "newacc":
                    stp = (what, rng.choice(["-", "-", "1", "2", "3", "4", "5", "6"]), 0)
            what, tg, u = stp
            if what == "gc":
                gc_and_download(tg)
                old_new = []
                continue
            if what == "newacc":
                # {acc user="new"} with an avatar: the account exists afterwards iff none of the four calls that
                # can refuse the request was made to fail
                g.nuser += 1
                k = rng.choice(files)
                old_new.append(k)
                g.add("NEWACCX %d %s %s" % (g.nuser, tg, g.tpl(k) if rng.random() < 0.9 else "-"))
                g.add("DUMP")
                if tg == "-" or int(tg) >= 5:
                    created.append(g.nuser)
                    if tg == "-" or int(tg) > 5:
                        cur["me%d" % g.nuser] = k
                continue
            wire = tg
            tg = tg if tg != "me" else "me%d" % u
            k = pick(tg)
            tpls = g.tpl(k) if rng.random() < 0.85 else ",".join([g.bad_tpl(), g.tpl(k)])
            old_new += [k] + ([cur[tg]] if cur.get(tg) else [])
            if what == "ok":
                setx(u, tg, "-", rng.choice(["pub", "pub", "both"]), tpls)
                cur[tg] = k
            elif what == "fault1":
                setx(u, tg, "1", rng.choice(["pub", "both"]), tpls)
            elif what == "faultsub":
                setx(u, tg, "2", "both", tpls)
            elif what == "faultlink":
                w = rng.choice(["pub", "both"])
                setx(u, tg, "2" if w == "pub" else "3", w, tpls)
                cur[tg] = None            # the store failed while linking: neither avatar is owed
            elif what == "faultany":
                w = rng.choice(["pub", "both", "priv"])
                kk = rng.choice([1, 2, 3, 4])
                setx(u, tg, str(kk), w, tpls)
                if w != "priv" and kk >= (3 if w == "pub" else 4):
                    cur[tg] = k
                elif w != "priv" and kk == (2 if w == "pub" else 3):
                    cur[tg] = None
            elif what == "nonowner":
                setx(u, tg, rng.choice(["-", "-", "1"]), rng.choice(["pub", "both"]), tpls)
            elif what == "privonly":
                setx(u, tg, rng.choice(["-", "1", "2"]), "priv", tpls)
            elif what == "none":
                setx(u, tg, "-", "none", tpls)
        g.add("AGE 2")
        g.add("GC past 0")
        g.add("DUMP")
        g.add("DELTOPIC %d %d" % (a, t))
        for u_ in [a, b] + created:
            g.add("DELUSER %d" % u_)
        g.add("DUMP")
        g.add("GC zero 0")
        g.add("DUMP")


# ---------------------------------------------------------------- part f: declared content types, the real GC loop
KINDS_C16F = ["png", "jpeg", "gif", "pdf", "zip", "gzip", "wasm", "ps", "rar", "ogg", "woff", "woff2", "ttf", "mp3", "wav", "webp",
              "webm", "bmp", "mp4", "html", "wshtml", "xml", "wsxml", "svg", "text", "js", "json", "utf16", "bin"]
DECLARED_C16F = ["image/png", "image/jpeg", "image/gif", "image/svg+xml", "video/mp4", "video/webm", "audio/mpeg", "font/woff2", "font/ttf",
                 "text/plain", "text/html", "text/xml; charset=utf-8", "text/css", "application/pdf", "application/zip", "application/x-gzip",
                 "application/wasm", "application/octet-stream", "application/json", "application/xhtml+xml", "application/x-msdownload",
                 "IMAGE/PNG", "Image/Png; Charset=UTF-8", "image/png; charset=utf-8", "video/mp4; codecs=\"avc1.42E01E, mp4a.40.2\"",
                 "chemical/x-pdb", "message/rfc822", "model/vrml", "multipart/mixed; boundary=x", "x/y", "image", "image/", "/png", "image/png;",
                 "image/png; charset", "image/png; =x", "image/png;;", "image/p ng", "image/png; a=1; a=2", "image/png/x", "imagepng", ";", "a b/c",
                 "text/plain; charset=\"utf-8", "image/png; name*=utf-8''x", "font/", "audio/x", "texthtml/x", "applicationx/pdf", ""]
SNIFF_OF_C16F = {"png": "image/png", "jpeg": "image/jpeg", "gif": "image/gif", "pdf": "application/pdf", "zip": "application/zip",
                 "gzip": "application/x-gzip", "wasm": "application/wasm", "ps": "application/postscript", "rar": "application/x-rar-compressed",
                 "ogg": "application/ogg", "woff": "font/woff", "woff2": "font/woff2", "mp3": "audio/mpeg", "wav": "audio/wave", "webp": "image/webp",
                 "webm": "video/webm", "bmp": "image/bmp", "mp4": "video/mp4", "html": "text/html; charset=utf-8",
                 "xml": "text/xml; charset=utf-8", "text": "text/plain; charset=utf-8"}


def declared_type_cases_c16f(g):
    """bodies of every sniff class x declared Content-Type of the part from {absent, the sniffed type, every other family,
    upper case, parameters, malformed}, each uploaded and downloaded again (UPT)"""
    rng = g.rng
    quick = g.ctx.tier == "quick"
    g.starts_upt_c16f = len(g.lines)
    tag = 0
    for kind in KINDS_C16F:
        decl = ["-"] + ([SNIFF_OF_C16F[kind]] if kind in SNIFF_OF_C16F else []) + DECLARED_C16F
        if quick and kind not in ("pdf", "zip", "bin", "html"):
            keep = ["-", "image/png", "video/mp4", "text/plain", "application/octet-stream", "font/woff2", "audio/mpeg"]
            decl = keep + rng.sample([d for d in decl if d not in keep], 6)
        for dct in decl:
            tag += 1
            n = rng.choice([16, 64, 511, 512, 513, 700, 2000]) if rng.random() < 0.5 else rng.choice([600, 900, 1500])
            g.add("UPT kind=%s n=%d tag=%d ct=%s asatt=%s" % (kind, n, tag, "-" if dct == "-" else (hx(dct) or "-"),
                                                              rng.choice(["-", "-", "-", "0", "1", "yes", "false"])))
    g.ends_upt_c16f = len(g.lines)


def gc_loop_cases_c16f(g, count):
    """the real largeFileRunGarbageCollection goroutine (periods of 20 ms .. 2 s) over uploads whose age is spread around
    the one-hour grace period: seconds, minutes, just under / just over one hour, hours; some of them linked"""
    rng = g.rng
    g.starts_c16f = []
    for h in range(count):
        g.starts_c16f.append(len(g.lines))
        g.ntopic += 1
        t = g.ntopic
        g.add("TOPIC %d 1 -" % t)
        # unlinked uploads left by earlier histories have real ages the model does not know to the second: collect them first
        g.add("GC zero 0")
        g.add("DUMP")
        # ages (seconds) in decreasing order: each AGES adds the difference to everything uploaded so far
        ages = sorted(rng.sample([7500, 3900, 3660, 3540, 3300, 1800, 600, 125, 61, 30, 2, 0], rng.choice([4, 5, 6, 7])), reverse=True)
        for j, a in enumerate(ages):
            k = g.good_up(body="form:%d:1:1" % rng.choice([1300, 1800]))
            if rng.random() < 0.25:
                g.add("PUB 1 %d %s" % (t, g.tpl(k, "F")))
            nxt = ages[j + 1] if j + 1 < len(ages) else 0
            if a - nxt > 0:
                g.add("AGES %d" % (a - nxt))
        g.add("DUMP")
        g.add("GCRUN %d %d" % (rng.choice([20, 20, 35, 50, 120, 400, 1000] if h else [20]), rng.choice([100, 100, 1000, 7])))
        g.add("DUMP")
        if rng.random() < 0.6:
            g.add("AGES %d" % rng.choice([240, 3480, 3720]))     # no sum with the ages above comes within 59 s under one hour
            g.add("GCRUN %d %d" % (rng.choice([20, 30, 60]), 100))
            g.add("DUMP")
        # leave nothing behind for the next history
        g.add("DELTOPIC 1 %d" % t)
        g.add("DUMP")
        g.add("GC zero 0")
        g.add("DUMP")


def model_line_c16f(line, ans):
    """the line given to the model: for UPT the results of the stdlib functions observed by the driver are appended"""
    if line.startswith("UPT "):
        _, side = split(ans)
        return line + " sniff=%s pok=%s pmt=%s pfmt=%s" % (side.get("sniff") or "-", side.get("pok", "0"), side.get("pmt") or "-", side.get("pfmt") or "-")
    return line


ALLOWED_C16F = ("application/", "audio/", "font/", "image/", "text/", "video/")
HOUR_NS_C16F = 3600 * 10 ** 9


def monitors_c16f(lines, answers):
    fails = []
    for i, (line, ans) in enumerate(zip(lines, answers)):
        w = line.split()
        cmp_, side = split(ans)
        a = cmp_.split()
        if w[0] == "UPT" and a[1:3] == ["200", "200"] and "sniff" in side:
            d = kvs(cmp_)
            tx = lambda h: unhx(h or "").decode("latin1")
            sniff, stored, ct = tx(side.get("sniff")), tx(d.get("stored")), tx(d.get("ct"))
            pok, pmt, pfmt = side.get("pok") == "1", tx(side.get("pmt")), tx(side.get("pfmt"))
            declared = tx(kvs(line).get("ct")) if kvs(line).get("ct") != "-" else None
            usable = pok and pfmt != "" and pmt.startswith(ALLOWED_C16F)
            if sniff != "application/octet-stream":
                if stored != sniff:
                    fails.append(("stored-type-is-detected", i, "body sniffed as %r, declared %r, stored as %r" % (sniff, declared, stored)))
            elif stored != sniff and not (usable and stored == pfmt):
                fails.append(("stored-type-is-detected", i, "undetectable body, declared %r (parsed %r), stored as %r" % (declared, pfmt if pok else None, stored)))
            if ct != stored or d.get("bytes") != "1":
                fails.append(("download-exact", i, "stored as %r, served as %r, bytes equal: %s" % (stored, ct, d.get("bytes"))))
            if is_active(sniff) and (sniff != "application/octet-stream" or not usable) and d.get("cd") != "1":
                fails.append(("application-forced-download", i, "body sniffed as %r, declared %r, served as %r without Content-Disposition: attachment" % (sniff, declared, ct)))
            if is_active(ct) and d.get("cd") != "1":
                fails.append(("active-attached", i, "type %r served inline" % ct))
        elif w[0] == "GCRUN" and a[1:2] == ["ok"]:
            if int(side.get("mincut_ns", "0")) < HOUR_NS_C16F:
                fails.append(("gc-respects-grace-period", i, "the loop with period %s ms called DeleteUnused with a cut-off only %.3f s in the past" % (w[1], int(side.get("mincut_ns", "0")) / 1e9)))
            for x in (side.get("gonerec") or "").split(","):
                if x and int(x.split(":")[1]) < 3600 * 1000:
                    fails.append(("gc-respects-grace-period", i, "upload %s, updated %.1f s ago, was removed by the loop with period %s ms" % (x.split(":")[0], int(x.split(":")[1]) / 1e3, w[1])))
    return fails


def delmsg_indices(g):
    """DELMSG lines were generated with random publish numbers; nothing to fix up: the driver
    and the runner both ignore numbers that are not publishes of that topic."""
    return


# ---------------------------------------------------------------- monitors
def kvs(line):
    d = {}
    for w in line.split()[1:]:
        if "=" in w:
            k, v = w.split("=", 1)
            d[k] = v
    return d


def split(ans):
    if " |" in ans:
        a, b = ans.split(" |", 1)
        return a, kvs("x " + b)
    return ans, {}


def is_active(mime):
    m = mime
    return m.startswith("text/") or m.startswith("application/") or "html" in m or "xml" in m


def monitors(lines, answers):
    """laws on the implementation's answers; returns (law, line index, detail)"""
    fails = []
    last_dump = None          # (files dict k->status, links set, disk set)
    expect_links = {}         # "k>m3" -> line index where it was established (accepted publish/avatar)
    npub = 0
    pub_topic = {}
    pending_gc = None
    pending = None            # op between two dumps: (kind, ...) for nothing-else-removed
    made = set()              # uploads that left a record (by request number)
    aged = set()              # ... and were made before an AGE line (the generator ages by two hours or more)
    import re
    cleaned = {}
    for line, ans in zip(lines, answers):
        if line.startswith("CL "):
            cleaned[line.split()[1]] = ans.split()[1] if len(ans.split()) > 1 else None
    name_re = re.compile(rb"^[-_A-Za-z0-9]{11}($|[^-_A-Za-z0-9])")
    for i, (line, ans) in enumerate(zip(lines, answers)):
        w = line.split()
        cmp_, side = split(ans)
        a = cmp_.split()
        if a and a[0] == "PANIC":
            fails.append(("no-panic", i, ans))
            continue
        if w[0] == "ID" and a[1] != "0" and cleaned.get(w[2]) is not None:
            c = unhx(cleaned[w[2]])
            k = c.rfind(b"/")
            dirp, name = c[:k + 1], c[k + 1:]
            if dirp not in (b"", unhx(w[1])) or not name_re.match(name):
                fails.append(("url-names-upload", i, "id %s from cleaned path %r with serve prefix %r" % (a[1], c, unhx(w[1]))))
        if w[0] == "FA":
            mime = unhx(w[2]).decode("latin1")
            if is_active(mime) and a[1] != "1":
                fails.append(("active-attached", i, "type %r sent without Content-Disposition: attachment" % mime))
        elif w[0] in ("UP", "SV", "SVX"):
            d = kvs(line)
            status, effect = a[1], a[2]
            worked = effect != "none"
            anykey = any(d.get(p) == "valid" for p in ("kh", "kq", "kf", "kc"))
            anycred = any(d.get(p, "-").startswith("good") for p in ("cx", "ca", "cq", "cf", "cc")) or \
                any(d.get(p) == "live" for p in ("sq", "sf"))
            impl_methods = ("POST", "PUT", "HEAD", "OPTIONS") if w[0] == "UP" else ("GET", "HEAD", "OPTIONS")
            if effect.startswith("odd") or effect.startswith("driver"):
                fails.append(("refused-no-effect", i, "unexpected effect " + effect))
            if worked and not anykey:
                fails.append(("gate-valid-key", i, "effect %s without a valid API key" % effect))
            if worked and not anycred:
                if w[0] == "UP" and "newacc" in (d.get("tq"), d.get("tf")):
                    fails.append(("c16-unauthenticated-newacc-upload", i, "upload %s with no credentials (topic=newacc)" % effect))
                else:
                    fails.append(("gate-credentials", i, "effect %s without valid credentials" % effect))
            if w[0] in ("SV", "SVX") and d["m"] in ("GET", "HEAD") and status == "200" and not worked:
                # a 200 without bytes (HEAD, the media handler's own status) also lies behind both checks
                if not anykey:
                    fails.append(("gate-valid-key", i, "%s answered 200 without a valid API key" % d["m"]))
                elif not anycred:
                    fails.append(("gate-credentials", i, "%s answered 200 without valid credentials" % d["m"]))
            if d["m"] not in impl_methods and not (status == "405" and not worked):
                fails.append(("methods", i, "method %s answered %s %s" % (d["m"], status, effect)))
            if status == "CRASH" and d.get("mh") != "none":
                fails.append(("upload-answered", i, "handler panicked, request unanswered, left %s: %s" % (effect, unhx(side.get("panic", "-")).decode("latin1"))))
            elif status == "500" and effect in ("residue", "residue-nobytes") and d.get("fault") in ("finish", "start", "create"):
                pass        # a FAILED upload (store failure): the record stays for the GC, as the property says
            elif status != "200" and status != "CRASH" and worked:
                fails.append(("refused-no-effect", i, "status %s but effect %s" % (status, effect)))
            if w[0] == "UP" and effect in ("stored", "residue", "residue-nobytes"):
                made.add(d.get("fid"))
            if w[0] == "UP" and d["body"].startswith("form:"):
                tot, lim = int(d["body"].split(":")[1]), int(d["lim"])
                if lim > 0 and tot > lim and (worked or status == "200"):
                    fails.append(("size-limit", i, "body of %d bytes accepted with limit %d" % (tot, lim)))
            if w[0] in ("SV", "SVX") and effect.startswith("served"):
                if side.get("ct") != side.get("recmime"):
                    fails.append(("download-exact", i, "Content-Type differs from the type detected at upload"))
                if effect == "served:?":
                    fails.append(("download-exact", i, "bytes served are not the bytes of any upload"))
                mime = unhx(side.get("recmime", "-")).decode("latin1")
                if is_active(mime) and unhx(side.get("cd", "-")) != b"attachment":
                    fails.append(("active-attached", i, "type %r served inline" % mime))
                if side.get("recstatus") != "1":
                    fails.append(("download-completed-only", i, "served the bytes of an upload record whose status is %s (0 = started, 1 = completed)" % side.get("recstatus")))
        elif w[0] == "PUB":
            if a[1] == "saved=1":
                npub += 1
                pub_topic[npub] = w[2]
                pending = ("PUB", i, npub, side.get("code"))
        elif w[0] == "INFLIGHT":
            if a[1:2] == ["ok"]:
                made.add(w[1])
        elif w[0] == "AGE":
            # every upload record made so far is now at least two hours old: past the grace period
            aged |= made
        elif w[0] == "GC":
            pending_gc = (i, w[1], int(w[2]), side.get("gonerec", ""), int(side.get("gonefiles", "0")))
        elif w[0] == "GCRUN":
            # the loop's tick = DeleteUnused(now - 1h, block); gonerec carries k:age
            pending_gc = (i, "run", int(w[2]), ",".join(x.split(":")[0] for x in (side.get("gonerec") or "").split(",") if x), int(side.get("gonefiles", "0")))
        elif w[0] == "DUMP":
            d = kvs(cmp_)
            files = dict(x.split(":") for x in d["files"].split(",")) if d["files"] != "-" else {}
            links = set(d["links"].split(",")) if d["links"] != "-" else set()
            disk = set(d["disk"].split(",")) if d["disk"] != "-" else set()
            completed = {k for k, st in files.items() if st == "1"}
            if "orphan" in disk or not completed <= disk or not disk <= set(files):
                fails.append(("nothing-else-removed" if not completed <= disk else "gc-exact", i,
                              "upload directory and upload records differ: completed=%s disk=%s" % (sorted(completed), sorted(disk))))
            for l in links:
                if l.split(">")[0] not in files:
                    fails.append(("linked-while-referenced", i, "link %s to a missing record" % l))
            if last_dump is not None:
                pf, pl, pd = last_dump
                gone = set(pf) - set(files)
                if pending_gc is not None:
                    gi, kind, lim, gonerec, gonefiles = pending_gc
                    unlinked = {k for k in pf if not any(l.split(">")[0] == k for l in pl)}
                    removed = set(gonerec.split(",")) if gonerec else set()
                    if removed != gone:
                        fails.append(("gc-exact", gi, "records reported removed %s, records gone %s" % (sorted(removed), sorted(gone))))
                    if not removed <= unlinked:
                        fails.append(("gc-exact", gi, "GC removed linked uploads %s" % sorted(removed - unlinked)))
                    if gonefiles != len(removed & pd):
                        fails.append(("gc-exact", gi, "%d records with bytes removed but %d files deleted" % (len(removed & pd), gonefiles)))
                    want = (unlinked & aged) if kind == "past" else unlinked
                    n = len(want) if lim <= 0 else min(lim, len(want))
                    if kind != "run" and len(removed) != n:
                        fails.append(("gc-exact", gi, "GC(%s, limit %d) removed %d of %d collectable uploads" % (kind, lim, len(removed), len(want))))
                elif gone:
                    fails.append(("nothing-else-removed", i, "uploads %s disappeared after %s" % (sorted(gone), lines[i - 1][:60])))
            pending_gc = None
            last_dump = (files, links, disk)
    return fails


def history_expectations(g, lines, answers):
    """linked-while-referenced, evaluated with the generator's knowledge of which upload each
    template names: after an accepted PUB/TAV/UAV/TOPIC whose templates name existing uploads the
    link must be present, and stay until the message / topic / user is deleted or the avatar replaced."""
    fails = []
    exist = set()          # uploads with a record (from DUMP)
    held = {}              # link text -> line index
    owed = {}              # the same obligations, kept after a missing link row was reported: for the GC law
    npub = 0
    pub_topic = {}
    topic_owner = {}
    import re
    prev_dump = None          # (files, links, disk) text of the last dump
    refused_set = None        # a {set desc} that was answered with an error since the last dump: (line index, code)
    for i, (line, ans) in enumerate(zip(lines, answers)):
        w = line.split()
        cmp_, side = split(ans)
        if w[0] == "TOPIC":
            topic_owner[w[1]] = w[2]
        if w[0] == "DUMP":
            d = kvs(cmp_)
            files = dict(x.split(":") for x in d["files"].split(",")) if d["files"] != "-" else {}
            links = set(d["links"].split(",")) if d["links"] != "-" else set()
            if refused_set is not None and prev_dump is not None:
                # a refused {set desc} has no effect on upload records, link rows and bytes
                at, code = refused_set
                now_ = (d["files"], d["links"], d["disk"])
                if now_ != prev_dump:
                    pl = set(prev_dump[1].split(",")) - {"-"}
                    fails.append(("refused-no-effect-links", at,
                                  "{set desc} / {acc} answered %s changed the store: link rows lost %s, gained %s; records %s -> %s"
                                  % (code, sorted(pl - links), sorted(links - pl), prev_dump[0], d["files"])))
            refused_set = None
            prev_dump = (d["files"], d["links"], d["disk"])
            if i > 0 and lines[i - 1].startswith("GC "):
                # the GC law: an attachment of an accepted, still existing message (the avatar of the last
                # acknowledged update of an existing topic / user) survives the collector
                for l, at in list(owed.items()):
                    if l.split(">")[0] not in files:
                        fails.append(("linked-never-removed", i - 1,
                                      "upload %s, listed with the accepted %s of line %d (%s), was garbage-collected by %s while the %s exists"
                                      % (l.split(">")[0], "message" if ">m" in l else "avatar update", at, lines[at][:70], lines[i - 1],
                                         "message" if ">m" in l else "topic / user")))
                        del owed[l]
            for l, at in list(held.items()):
                if l not in links:
                    fails.append(("linked-while-referenced", i, "link %s established by line %d (%s) is gone" % (l, at, lines[at][:70])))
                    del held[l]
                elif l.split(">")[0] not in files:
                    fails.append(("linked-while-referenced", i, "upload of link %s was removed" % l))
                    del held[l]
            exist = {k for k, s in files.items()}
            done = {k for k, s in files.items() if s == "1"}
            continue
        if w[0] not in ("PUB", "PUBX", "TAV", "UAV", "TOPIC", "NEWACC", "NEWACCX", "SETX", "DELMSG", "DELTOPIC", "DELUSER"):
            continue
        named = []
        tpls = w[-1] if w[0] in ("PUB", "PUBX", "TAV", "UAV", "TOPIC", "NEWACC", "NEWACCX", "SETX") else "-"
        if tpls != "-":
            named = [g.names.get(t) for t in tpls.split(",")]
        if w[0] in ("PUB", "PUBX"):
            if cmp_.split()[1] != "saved=1":
                continue
            npub += 1
            pub_topic[npub] = w[2] if w[0] == "PUB" else w[3]
            ks = [k for k in named if k is not None]
            if side.get("code") == "202":
                for k in ks:
                    if k in exist:
                        held["%s>m%d" % (k, npub)] = i
                        owed["%s>m%d" % (k, npub)] = i
            elif w[0] == "PUBX" and w[4] != "-":
                pass        # an adapter call was made to fail: a store failure, not a refusal of the attachments
            elif any(k in exist for k in ks):
                fails.append(("c16-attachment-link-all-or-nothing", i,
                              "message %d stored (reply %s) but its existing attachments %s are not linked" % (npub, side.get("code"), [k for k in ks if k in exist])))
        elif w[0] in ("TAV", "TOPIC", "UAV", "NEWACC"):
            tgt = ("u" + w[1]) if w[0] in ("UAV", "NEWACC") else ("t" + (w[2] if w[0] == "TAV" else w[1]))
            first = named[0] if named else None
            # only the first resolvable attachment counts; a replaced avatar loses its link
            firstres = next((k for k in named if k is not None), None)
            if firstres is not None and firstres in exist and cmp_.split()[1] in ("200", "201"):
                for hd in (held, owed):
                    for l in [l for l in hd if l.endswith(">" + tgt)]:
                        del hd[l]
                    hd["%s>%s" % (firstres, tgt)] = i
            elif w[0] in ("TAV", "UAV") and cmp_.split()[1].isdigit() and int(cmp_.split()[1]) >= 400:
                refused_set = (i, cmp_.split()[1])
        elif w[0] == "NEWACCX":
            # NEWACCX <u> <k|-> <tpls> -> NEWACCX code=<c> calls=<..>
            a = kvs(cmp_)
            code, calls = a.get("code", "?"), a.get("calls", "-")
            tgt = "u" + w[1]
            firstres = next((k for k in named if k is not None), None)
            if code != "201":
                refused_set = (i, code)          # an account creation that failed leaves no trace in the file slice
            elif code == "201" and "L!" not in calls.split(",") and firstres is not None and firstres in exist:
                for hd in (held, owed):
                    hd["%s>%s" % (firstres, tgt)] = i
        elif w[0] == "SETX":
            # SETX <user> <t|me> <k|-> <what> <tpls> -> SETX code=<c> calls=<..>
            a = kvs(cmp_)
            code, calls = a.get("code", "?"), a.get("calls", "-")
            tgt = ("u" + w[1]) if w[2] == "me" else ("t" + w[2])
            firstres = next((k for k in named if k is not None), None)
            if code.isdigit() and int(code) >= 400:
                # refused: nothing may change (checked at the next dump); what was owed stays owed
                refused_set = (i, code)
            elif code == "200" and w[4] in ("pub", "both"):
                if "L!" in calls.split(","):
                    # the store failed while linking (error ignored by the handler): a store failure, neither
                    # the old nor the new avatar is demanded
                    for hd in (held, owed):
                        for l in [l for l in hd if l.endswith(">" + tgt)]:
                            del hd[l]
                elif firstres is not None and firstres in exist:
                    for hd in (held, owed):
                        for l in [l for l in hd if l.endswith(">" + tgt)]:
                            del hd[l]
                        hd["%s>%s" % (firstres, tgt)] = i
        elif w[0] == "DELMSG":
            if cmp_.split()[1] == "200":
                for ks in w[3].split(","):
                    if pub_topic.get(int(ks)) == w[2]:
                        for hd in (held, owed):
                            for l in [l for l in hd if l.endswith(">m" + ks)]:
                                del hd[l]
        elif w[0] == "DELTOPIC":
            for hd in (held, owed):
                for l in list(hd):
                    tg = l.split(">")[1]
                    if tg == "t" + w[2] or (tg[0] == "m" and pub_topic.get(int(tg[1:])) == w[2]):
                        del hd[l]
        elif w[0] == "DELUSER":
            # the account, the topics it owns and the messages in them are gone
            for hd in (held, owed):
                for l in list(hd):
                    tg = l.split(">")[1]
                    if tg == "u" + w[1] or (tg[0] == "t" and topic_owner.get(tg[1:]) == w[1]) or \
                            (tg[0] == "m" and topic_owner.get(pub_topic.get(int(tg[1:]))) == w[1]):
                        del hd[l]
    return fails


# ---------------------------------------------------------------- SQL of the real MySQL adapter
# The histories above run on memverif.  The statements the REAL adapter sends for FileDeleteUnused /
# FileLinkAttachments / FileFinishUpload are recorded by harness/overlay/server/db/mysql/zz_verif_c16_test.go
# and executed here on sqlite over enumerated small tables; the GC and link laws are evaluated on the result,
# and the result is compared with the store contract of the model (gc_candidate / link_single / publish).
SQL_SCHEMA = """
CREATE TABLE users(id INTEGER PRIMARY KEY);
CREATE TABLE topics(name TEXT PRIMARY KEY);
CREATE TABLE messages(id INTEGER PRIMARY KEY);
CREATE TABLE fileuploads(id INTEGER NOT NULL PRIMARY KEY, createdat TEXT NOT NULL, updatedat TEXT NOT NULL, userid INTEGER,
  status INT NOT NULL, mimetype TEXT NOT NULL, size INTEGER NOT NULL, location TEXT NOT NULL);
CREATE TABLE filemsglinks(id INTEGER PRIMARY KEY AUTOINCREMENT, createdat TEXT NOT NULL,
  fileid INTEGER NOT NULL REFERENCES fileuploads(id) ON DELETE CASCADE,
  msgid INTEGER REFERENCES messages(id) ON DELETE CASCADE,
  topic TEXT REFERENCES topics(name) ON DELETE CASCADE,
  userid INTEGER REFERENCES users(id) ON DELETE CASCADE);
"""
T_OLD, T_BOUND, T_NEW = "2026-01-01T00:00:00.000Z", "2026-01-01T12:00:00.000Z", "2026-01-02T00:00:00.000Z"
SQL_TOPICS = ["grpAAAAAAAAAAA", "grpBBBBBBBBBBB"]
SQL_MSGS = [11, 12]
SQL_UIDS = [7001, 7002]          # plain Uid values; the adapter stores store.DecodeUid(uid)


def build_sql_driver(ctx):
    ov = {}
    base = os.path.join(vlib.ROOT, "harness", "overlay")
    for dp, _, fs in os.walk(base):
        for f in fs:
            if f.endswith(".go"):
                src = os.path.join(dp, f)
                ov[os.path.join(vlib.REPO, os.path.relpath(src, base))] = src
    ovp = os.path.join(vlib.BUILD, "overlay_c16sql.json")
    json.dump({"Replace": ov}, open(ovp, "w"), indent=1)
    out_bin = os.path.join(vlib.BUILD, "mysqldrv_c16.test")
    rc, out = vlib.sh("timeout 1500 go test -c -o %s -vet=off -tags 'mysql verif' -overlay %s ./db/mysql/" % (out_bin, ovp),
                      cwd=os.path.join(vlib.REPO, "server"), env=vlib.GOENV)
    open(os.path.join(ctx.work, "mysqldrv_c16_build.log"), "w").write(out)
    return rc == 0, out


def run_sql_driver(ctx, calls, tag):
    fin = os.path.join(ctx.work, "sql_%s_in.jsonl" % tag)
    fout = os.path.join(ctx.work, "sql_%s_out.jsonl" % tag)
    open(fin, "w").write("".join(json.dumps(c) + "\n" for c in calls))
    if os.path.exists(fout):
        os.remove(fout)
    env = dict(vlib.GOENV, VERIF_IN=fin, VERIF_OUT=fout)
    p = subprocess.run([os.path.join(vlib.BUILD, "mysqldrv_c16.test"), "-test.run", "^TestVerifC16Sql$", "-test.count=1"],
                       stdout=subprocess.PIPE, stderr=subprocess.STDOUT, text=True, timeout=1200, env=env,
                       cwd=os.path.join(vlib.REPO, "server", "db", "mysql"))
    out = [json.loads(l) for l in open(fout)] if os.path.exists(fout) else []
    return p.returncode, out, p.stdout


def sql_args(args):
    return [a["time"] if isinstance(a, dict) else a for a in (args or [])]


class SqlDb:
    """the tables of one case: files = [(id, updatedat, status, location)], links = [(fileid, kind, target)]"""

    def __init__(self):
        import sqlite3
        self.c = sqlite3.connect(":memory:", isolation_level=None)
        self.c.executescript(SQL_SCHEMA)
        self.c.execute("PRAGMA foreign_keys=ON")

    def load(self, files, links, users):
        c = self.c
        for tb in ("filemsglinks", "fileuploads", "messages", "topics", "users"):
            c.execute("DELETE FROM " + tb)
        c.executemany("INSERT INTO users(id) VALUES (?)", [(u,) for u in users])
        c.executemany("INSERT INTO topics(name) VALUES (?)", [(x,) for x in SQL_TOPICS])
        c.executemany("INSERT INTO messages(id) VALUES (?)", [(m,) for m in SQL_MSGS])
        c.executemany("INSERT INTO fileuploads(id,createdat,updatedat,userid,status,mimetype,size,location) VALUES (?,?,?,?,?,?,?,?)",
                      [(i, T_OLD, upd, 1, st, "x/y", 1, loc) for i, upd, st, loc in files])
        col = {"msg": "msgid", "topic": "topic", "user": "userid"}
        for f, kind, tg in links:
            c.execute("INSERT INTO filemsglinks(createdat,fileid,%s) VALUES (?,?,?)" % col[kind], (T_OLD, f, tg))

    def files(self):
        return sorted(r[0] for r in self.c.execute("SELECT id FROM fileuploads"))

    def links(self):
        res = []
        for f, m, tp, u in self.c.execute("SELECT fileid,msgid,topic,userid FROM filemsglinks"):
            res.append((f, "msg", m) if m is not None else (f, "topic", tp) if tp is not None else (f, "user", u))
        return sorted(res, key=repr)

    def run_tx(self, stmts):
        """the recorded statements in order; an error rolls the transaction back (what the adapter's
        deferred tx.Rollback does).  Returns (rows of the last SELECT, error text or None)"""
        rows, intx = None, False
        try:
            for st in stmts:
                k = st["kind"]
                if k == "BEGIN":
                    self.c.execute("BEGIN")
                    intx = True
                elif k == "COMMIT":
                    self.c.execute("COMMIT")
                    intx = False
                elif k == "ROLLBACK":
                    if intx:
                        self.c.execute("ROLLBACK")
                    intx = False
                elif k == "QUERY":
                    rows = self.c.execute(st["q"], sql_args(st.get("args"))).fetchall()
                else:
                    self.c.execute(st["q"], sql_args(st.get("args")))
        except Exception as e:          # sqlite3.Error
            if intx:
                self.c.execute("ROLLBACK")
            return rows, "%s: %s" % (type(e).__name__, e)
        return rows, None


def sql_tables(ctx, ids):
    """enumerated file / link tables: every file old or new, with one of several link sets"""
    import itertools
    linksets = [(), (("msg", SQL_MSGS[0]),), (("topic", SQL_TOPICS[0]),), (("user", "U0"),),
                (("msg", SQL_MSGS[0]), ("msg", SQL_MSGS[1])), (("msg", SQL_MSGS[1]), ("user", "U1")), (("topic", SQL_TOPICS[1]), ("user", "U0"))]
    variants = [(upd, ls) for upd in (T_OLD, T_NEW) for ls in linksets]
    tables = [([], [])]
    for n in (1, 2, 3):
        combos = list(itertools.product(variants, repeat=n))
        if n == 3 and ctx.tier == "quick":
            combos = ctx.rng.sample(combos, 250)
        for combo in combos:
            files, links = [], []
            for i, (upd, ls) in enumerate(combo):
                files.append((ids[i], upd, 0 if (i + len(ls)) % 3 == 0 else 1, "" if (i == 2 and upd == T_OLD) else "loc%d" % i))
                links += [(ids[i], kind, tg) for kind, tg in ls]
            tables.append((files, links))
    return tables


def sql_tie(ctx):
    """returns (law failures, correspondence differences, coverage dict); each failure carries the tables and
    the statements as its concrete input"""
    fails, diffs = [], []
    ok, out = build_sql_driver(ctx)
    if not ok:
        return fails, [("sql-driver-build", "recording driver for the MySQL adapter no longer builds: " + out[-800:], {})], {}
    combos = [(older, lim) for older in ("", T_BOUND) for lim in (0, 1, 2)]
    calls = [{"op": "ids", "n": 4}] + [{"op": "gc", "older": o, "limit": l, "rows": []} for o, l in combos]
    # link calls: files 0 and 1 exist, 2 does not
    link_calls = []
    for kind, tg in (("msg", SQL_MSGS[0]), ("topic", SQL_TOPICS[0]), ("user", SQL_UIDS[0])):
        for fl in ([0], [1], [0, 1], [1, 0], [2], [0, 2], [2, 0], [0, 0]):
            link_calls.append({"op": "link", "kind": kind, "topic": tg if kind == "topic" else "", "uid": tg if kind != "topic" else 0, "files": fl})
    fin_calls = [{"op": "finish", "files": [0], "ok": True}, {"op": "finish", "files": [0], "ok": False}]
    rc, ans, log = run_sql_driver(ctx, calls + link_calls + fin_calls, "p1")
    if rc != 0 or len(ans) != len(calls) + len(link_calls) + len(fin_calls) or any(a.get("panic") for a in ans):
        return fails, [("sql-driver-run", "recording driver failed: rc=%s %s %s" % (rc, [a.get("panic") for a in ans if a.get("panic")][:2], log[-600:]), {})], {}
    ids = ans[0]["ids"]
    # decoded ids of the two users: taken from a user-link call's recorded target
    udec = {}
    db = SqlDb()
    select = {}
    for (o, l), a in zip(combos, ans[1:1 + len(combos)]):
        q = [s for s in a["stmts"] if s["kind"] == "QUERY"]
        if len(q) != 1 or a.get("err"):
            return fails, [("sql-gc-shape", "FileDeleteUnused(%r,%d) sent %d SELECTs, err=%r" % (o, l, len(q), a.get("err")), {"stmts": a["stmts"]})], {}
        select[(o, l)] = q[0]
    users_dec = [ids[3] + 1, ids[3] + 2]      # any two database ids for users U0 / U1 of the GC tables
    tables = sql_tables(ctx, ids)
    pass2, nsel = [], 0
    for files, links in tables:
        links = [(f, k, users_dec[int(tg[1])] if k == "user" else tg) for f, k, tg in links]
        linked = {f for f, _, _ in links}
        for (o, l) in combos:
            db.load(files, links, users_dec)
            st = select[(o, l)]
            try:
                rows = db.c.execute(st["q"], sql_args(st.get("args"))).fetchall()
            except Exception as e:
                return fails, [("sql-gc-unsupported", "the GC query of the adapter cannot be evaluated: %s: %s" % (e, st["q"]), {"stmt": st})], {}
            nsel += 1
            got = [r[0] for r in rows]
            cand = [i for i, upd, _, _ in files if i not in linked and (o == "" or upd < o)]
            case = {"files": files, "links": links, "older": o, "limit": l, "select": st, "selected": got}
            if len(set(got)) != len(got) or any(g not in cand for g in got):
                bad = [g for g in got if g in linked]
                fails.append(("gc-exact", "the adapter's GC query selects %s" % (
                    "LINKED uploads %s" % bad if bad else "uploads that are not collectable (%s of candidates %s)" % (got, cand)), case))
            elif len(got) != (len(cand) if l <= 0 else min(l, len(cand))):
                fails.append(("gc-exact", "the adapter's GC query selects %d of %d collectable uploads with limit %d" % (len(got), len(cand), l), case))
            pass2.append((files, links, o, l, rows))
    # second pass: what the adapter does with the selected rows
    keys = {}
    for files, links, o, l, rows in pass2:
        keys.setdefault((o, l, tuple(rows)), None)
    calls2 = [{"op": "gc", "older": o, "limit": l, "rows": [[str(r[0]), r[1]] for r in rows]} for (o, l, rows) in keys]
    rc, ans2, log = run_sql_driver(ctx, calls2, "p2")
    if rc != 0 or len(ans2) != len(calls2):
        return fails, [("sql-driver-run", "recording driver failed (second pass): rc=%s %s" % (rc, log[-600:]), {})], {}
    for k, a in zip(list(keys), ans2):
        keys[k] = a
    for files, links, o, l, rows in pass2:
        a = keys[(o, l, tuple(rows))]
        db.load(files, links, users_dec)
        _, err = db.run_tx([s for s in a["stmts"] if s["kind"] != "QUERY"])
        sel = {r[0] for r in rows}
        case = {"files": files, "links": links, "older": o, "limit": l, "selected": sorted(sel), "stmts": a["stmts"], "returned": a.get("ret")}
        want_files = sorted(i for i, _, _, _ in files if i not in sel)
        if err or a.get("err") or a.get("panic"):
            diffs.append(("sql-gc-delete", "FileDeleteUnused failed after selecting %s: %s %s" % (sorted(sel), err, a.get("err") or a.get("panic")), case))
        elif db.files() != want_files:
            fails.append(("gc-exact", "after selecting %s the adapter leaves records %s, expected %s" % (sorted(sel), db.files(), want_files), case))
        elif sorted(a.get("ret") or []) != sorted(loc for i, _, _, loc in files if i in sel and loc != ""):
            fails.append(("gc-exact", "locations handed to the media handler %s are not those of the removed records %s" % (a.get("ret"), sorted(sel)), case))
        elif db.links() != sorted([x for x in links if x[0] not in sel], key=repr):
            fails.append(("nothing-else-removed", "a GC run changed link rows of uploads it did not remove", case))
    # links
    f0, f1, fmiss = ids[0], ids[1], ids[2]
    nlink = 0
    for c, a in zip(link_calls, ans[1 + len(combos):1 + len(combos) + len(link_calls)]):
        kind = c["kind"]
        tg = c["topic"] if kind == "topic" else (a.get("target") if kind == "user" else c["uid"])
        other = {"msg": SQL_MSGS[1], "topic": SQL_TOPICS[1], "user": (a.get("target") or 0) + 1}[kind]
        users = [tg, other] if kind == "user" else [1, 2]
        listed = [ids[k] for k in c["files"]]
        for before in ([], [(f1, kind, tg)], [(f0, kind, other), (f1, "msg", SQL_MSGS[1])], [(f0, kind, tg), (f1, kind, other)]):
            if kind == "msg" and any(b[1] == "msg" and b[2] == tg for b in before):
                continue          # a message is linked once, when it is saved
            files = [(f0, T_OLD, 1, "l0"), (f1, T_NEW, 0, "l1")]
            db.load(files, before, users)
            _, err = db.run_tx(a["stmts"])
            nlink += 1
            after = db.links()
            use = listed if kind == "msg" else listed[:1]
            case = {"files": files, "links_before": before, "call": c, "target": tg, "stmts": a["stmts"], "links_after": after, "error": err or a.get("err")}
            if a.get("err") or a.get("panic"):
                diffs.append(("sql-link", "FileLinkAttachments(%s) answered %s" % (c, a.get("err") or a.get("panic")), case))
                continue
            if fmiss in use:
                want = sorted(before, key=repr)          # FOREIGN KEY: nothing is linked, nothing is unlinked
            else:
                keep = [b for b in before if kind == "msg" or not (b[1] == kind and b[2] == tg)]
                want = sorted(keep + [(f, kind, tg) for f in use], key=repr)
            if after == want:
                continue
            lost = [b for b in before if b not in after and not (b[1] == kind and b[2] == tg)]
            missing = [w for w in want if w not in after and w not in before]
            if lost:
                fails.append(("linked-while-referenced", "linking to %s %s removed the link rows %s of another message / topic / user" % (kind, tg, lost), case))
            elif missing and fmiss not in use:
                fails.append(("linked-while-referenced", "FileLinkAttachments(%s %s, %s) succeeded without the link rows %s" % (kind, tg, listed, missing), case))
            else:
                diffs.append(("sql-link", "link rows after FileLinkAttachments(%s %s, %s): %s, store contract of the model: %s" % (kind, tg, listed, after, want), case))
    # FinishUpload
    for c, a in zip(fin_calls, ans[1 + len(combos) + len(link_calls):]):
        files = [(f0, T_OLD, 0, "l0"), (f1, T_OLD, 0, "l1")]
        links = [(f0, "msg", SQL_MSGS[0])]
        db.load(files, links, [1, 2])
        _, err = db.run_tx(a["stmts"])
        st = dict(db.c.execute("SELECT id,status FROM fileuploads").fetchall())
        want = {f0: 1, f1: 0} if c["ok"] else {f1: 0}
        case = {"call": c, "stmts": a["stmts"], "rows_after": st, "links_after": db.links(), "error": err or a.get("err")}
        if err or a.get("err") or st != want or db.links() != (sorted(links, key=repr) if c["ok"] else []):
            diffs.append(("sql-finish", "FileFinishUpload(ok=%s) leaves %s / links %s, store contract of the model: %s" % (c["ok"], st, db.links(), want), case))
    cov = {"tables": len(tables), "gc_selects_evaluated": nsel, "gc_runs_replayed": len(pass2), "distinct_gc_calls_second_pass": len(calls2),
           "link_cases": nlink, "finish_cases": len(fin_calls), "engine": "sqlite " + __import__("sqlite3").sqlite_version,
           "gc_queries": sorted({s["q"] for s in select.values()})}
    return fails, diffs, cov


# ---------------------------------------------------------------- running
def run_impl(ctx, lines, tag="main"):
    fin = os.path.join(ctx.work, tag + "_in.txt")
    fout = os.path.join(ctx.work, tag + "_out.txt")
    open(fin, "w").write("\n".join(lines) + "\n")
    if os.path.exists(fout):
        os.remove(fout)
    env = dict(vlib.GOENV, VERIF_IN=fin, VERIF_OUT=fout)
    p = subprocess.run([os.path.join(vlib.BUILD, "maindrv.test"), "-test.run", "^TestVerifC16$", "-test.count=1"],
                       stdout=subprocess.PIPE, stderr=subprocess.STDOUT, text=True, timeout=6000, env=env,
                       cwd=os.path.join(vlib.REPO, "server"))
    out = open(fout).read().split("\n") if os.path.exists(fout) else []
    if out and out[-1] == "":
        out.pop()
    return p.returncode, out, p.stdout


def neighbours(rng, line):
    w = line.split()
    res = []
    if w[0] in ("CL", "ID"):
        s = unhx(w[-1])
        for i in range(len(s) + 1):
            for ch in b"/.a?":
                res.append(" ".join(w[:-1] + [hx(s[:i] + bytes([ch]) + s[i:])]))
            if i < len(s):
                res.append(" ".join(w[:-1] + [hx(s[:i] + s[i + 1:])]))
    return res


def run(ctx):
    ctx.coq_props()
    vlib.proof_violation(ctx)
    ok, out = ctx.build_runner()
    if not ok:
        ctx.violation("proof", "extraction-broken", "model extraction/runner build failed: " + out[-1500:],
                      {"theorem_or_obligation": "extraction of the model"})
        ctx.finish()
    ok, out = ctx.build_main()
    if not ok:
        ctx.violation("corr", "harness-build-broken", "package-main driver no longer builds against /repo: " + out[-1500:],
                      {"correspondence": "build of harness/overlay against /repo"})
        ctx.finish()
    quick = ctx.tier == "quick"
    sql_only = False
    if ctx.replay:
        rp = json.load(open(ctx.replay))
        sql_only = "sql_case" in rp["replay"]
        lines = ["USER 1"] if sql_only else (rp["replay"].get("lines") or [rp["replay"]["case"]])
        g = None
        if rp["replay"].get("names") is not None:
            # which upload each URL template of the replayed lines names: the link laws are evaluated on the replay too
            class NamesC16b:
                names = rp["replay"]["names"]
            g = NamesC16b()
    else:
        pure = list(dict.fromkeys(url_cases(ctx) + fa_cases(ctx)))
        g = Gen(ctx)
        gate_cases(g)
        history_cases(g, 12 if quick else 160, 40 if quick else 45)
        sender_mode_cases_c16b(g, 8 if quick else 100, 16 if quick else 22)
        gap0_c16c = len(g.lines)          # the request lines in between do not belong to a stand-alone history
        download_full_cases_c16c(g)
        g.gap_c16c = (gap0_c16c, len(g.lines))
        avatar_fault_cases_c16c(g, 6 if quick else 50, 24 if quick else 32)
        declared_type_cases_c16f(g)
        gc_loop_cases_c16f(g, 6 if quick else 60)
        # USER 1 must come before the FA lines (they authenticate as user 1)
        lines = ["USER 1"] + pure + g.lines[1:]
    rc, impl, err = run_impl(ctx, lines)
    if rc != 0 or len(impl) != len(lines):
        ctx.violation("corr", "driver-crashed", "implementation driver failed rc=%s (%d of %d answers): %s" % (rc, len(impl), len(lines), err[-1500:]),
                      {"correspondence": "driver run", "stderr": err[-3000:]})
        ctx.finish()
    rc, model, err = ctx.run_model("c16", [model_line_c16f(l, a) for l, a in zip(lines, impl)])
    if rc != 0 or len(model) != len(lines):
        ctx.violation("proof", "runner-crashed", "model runner failed: " + err[-1500:], {"theorem_or_obligation": "model runner"})
        ctx.finish()

    import bisect
    import re as _re
    stateful_idx = [j for j, l in enumerate(lines) if l.split(None, 1)[0] not in ("CL", "ID", "FA", "UPT")]
    maker = {}
    for j in stateful_idx:
        l = lines[j]
        if l.startswith("UP "):
            maker[kvs(l).get("fid")] = l
        elif l.startswith("INFLIGHT "):
            maker[l.split()[1]] = l
    tpl_re = _re.compile(r"(?:^|\+)[fF](\d+)")

    starts_c16b = [len(pure) + j for j in getattr(g, "starts_c16b", [])] if not ctx.replay else []

    def with_names(rp):
        """the upload each URL template of the replay names (None: names nothing), for the link laws"""
        if g is not None:
            nm = {}
            for l in rp.get("lines", []):
                if l.split(None, 1)[0] in ("PUB", "PUBX", "TAV", "UAV", "TOPIC", "NEWACC", "NEWACCX", "SETX") and l.split()[-1] != "-":
                    for t in l.split()[-1].split(","):
                        nm[t] = g.names.get(t)
            rp["names"] = nm
        return rp

    def prefix(i):
        """replay of a stateful line = all stateful lines up to it"""
        k0 = lines[i].split(None, 1)[0]
        s1 = max([len(pure) + j for j in getattr(g, "starts_c16f", []) if len(pure) + j <= i], default=None) if not ctx.replay else None
        if s1 is not None and k0 != "UPT":
            # a GC-loop history: its own lines up to the dump that follows the failing line
            e = i
            while e + 1 < len(lines) and lines[e] != "DUMP":
                e += 1
            return with_names({"case": lines[i], "lines": ["USER 1", "USER 2"] + lines[s1:e + 1]})
        s0 = max([j for j in starts_c16b if j <= i], default=None)
        gap = getattr(g, "gap_c16c", None)
        if s0 is not None and gap is not None and len(pure) + gap[0] <= i < len(pure) + gap[1]:
            s0 = None
        if s0 is not None:
            # a sender-mode history: its own lines, up to the dump that follows the failing line
            e = i
            while e + 1 < len(lines) and lines[e] != "DUMP":
                e += 1
            return with_names({"case": lines[i], "lines": ["USER 1", "USER 2", "SYSLOAD"] + lines[s0:e + 1]})
        if k0 in ("CL", "ID"):
            return {"case": lines[i]}
        if k0 in ("FA", "UPT"):
            return {"case": lines[i], "lines": ["USER 1", lines[i]]}

        if k0 in ("UP", "SV", "SVX"):
            # a request line depends only on the users and on the uploads its URL template names
            ks = tpl_re.findall(kvs(lines[i]).get("url", ""))
            made = [maker[k] for k in dict.fromkeys(ks) if k in maker and maker[k] != lines[i]]
            return {"case": lines[i], "lines": ["USER 1", "USER 2"] + made + [lines[i]]}
        n = bisect.bisect_right(stateful_idx, i)
        # setup (users, fixtures) + the tail; uploads made in the cut part are then unknown ids
        idx = stateful_idx[:n] if n <= 3060 else stateful_idx[:60] + stateful_idx[n - 3000:n]
        return with_names({"case": lines[i], "lines": [lines[j] for j in idx]})

    fails = monitors(lines, impl) + monitors_c16f(lines, impl) + (history_expectations(g, lines, impl) if g is not None else [])
    known = {f["key"] for f in ctx.load_findings() if f["property"] == ctx.pid}
    unknown_fails = [f for f in fails if f[0] not in known]
    per_law = {}
    for law, i, detail in fails:
        per_law[law] = per_law.get(law, 0) + 1
        # full replays for the first failures of each law; the rest carry the failing line only
        rp = prefix(i) if per_law[law] <= 25 else {"case": lines[i]}
        rp.update({"impl": impl[i], "law": law, "law_text": LAWS.get(law, ""), "detail": detail})
        ctx.violation("monitor", law, "law %s fails on the implementation: %s -> %s (%s)" % (law, lines[i][:200], impl[i][:200], detail), rp)
    mism = [(i, l, a.split(" |")[0].rstrip(), m) for i, (l, a, m) in enumerate(zip(lines, impl, model)) if a.split(" |")[0].rstrip() != m]
    searched = 0
    if (mism or not ctx.proof_ok()) and not unknown_fails:
        pool = []
        for i, l, _, _ in mism[:200]:
            pool += neighbours(ctx.rng, l)
        pool = list(dict.fromkeys(pool))[:20000]
        if pool:
            rc, impl2, _ = run_impl(ctx, pool, "search")
            f2 = (monitors(pool, impl2) + monitors_c16f(pool, impl2)) if len(impl2) == len(pool) else []
            searched = len(pool)
            for law, i, detail in f2:
                ctx.violation("monitor", law, "law %s fails on the implementation: %s -> %s (%s)" % (law, pool[i], impl2[i], detail),
                              {"case": pool[i], "impl": impl2[i], "law": law, "detail": detail, "found_by": "search near a correspondence mismatch"})
            unknown_fails = [f for f in f2 if f[0] not in known]
    if mism and not unknown_fails:
        i, l, a, m = mism[0]
        rp = prefix(i)
        rp.update({"correspondence": "projection " + l.split()[0], "impl": a, "model": m,
                   "more": [{"case": b, "impl": c, "model": d} for _, b, c, d in mism[1:10]]})
        ctx.violation("corr", "correspondence-" + l.split()[0],
                      "model and implementation disagree on %d of %d lines, e.g. %s: impl=%s model=%s; no law failure found on %d neighbouring inputs"
                      % (len(mism), len(lines), l[:300], a, m, searched), rp)
    # the file / link SQL of the real MySQL adapter (the histories above run on memverif)
    sql_cov = {}
    if not ctx.replay or sql_only:
        sfails, sdiffs, sql_cov = sql_tie(ctx)
        seen = {}
        for law, detail, case in sfails:
            seen[law] = seen.get(law, 0) + 1
            if seen[law] <= 3:
                ctx.violation("monitor", law, "law %s fails on the SQL of the real MySQL adapter (executed on sqlite): %s" % (law, detail),
                              {"case": "SQL " + detail[:200], "sql_case": case, "law": law, "law_text": LAWS.get(law, ""), "failing_cases": seen[law]})
        if sdiffs and not sfails:
            key, detail, case = sdiffs[0]
            ctx.violation("corr", "correspondence-" + key, "the SQL of the real MySQL adapter and the store contract of the model disagree in %d cases, e.g. %s" % (len(sdiffs), detail),
                          {"case": "SQL " + detail[:200], "sql_case": case, "correspondence": key})
    kinds, outs = {}, {}
    nontrivial = set()
    for l, a in zip(lines, impl):
        k = l.split()[0]
        kinds[k] = kinds.get(k, 0) + 1
        c = a.split(" |")[0].split()
        o = k + ":" + (" ".join(c[1:3]) if k in ("UP", "SV", "SVX") else (" ".join(c[1:3]) if k in ("SETX", "NEWACCX") else ""))
        o = o if k in ("UP", "SV", "SVX", "SETX", "NEWACCX") else k + ":" + ( ("0" if c[1:] in (["0"], ["-"]) else "x") if k in ("ID", "FA") else "")
        outs[o] = outs.get(o, 0) + 1
        if (k == "ID" and c[1] != "0") or (k in ("UP", "SV", "SVX") and c[2] != "none") or k in ("PUB", "PUBX", "MEMBER", "P2P", "TAV", "UAV", "NEWACC", "NEWACCX", "SETX", "GC", "DELMSG", "DELTOPIC", "DELUSER", "INFLIGHT") \
                or (k == "FA" and c[1] == "1") or (k == "CL" and c[1] != l.split()[1]):
            nontrivial.add(l)
    ctx.coverage.update({
        "evaluations": len(lines), "distinct_nontrivial": len(nontrivial),
        "rule": "path.Clean on every string over {/,.,a} up to length %d plus seeded structured and junk URLs; GetIdFromUrl on the same URLs for several serve prefixes; "
                "the disposition rule on a list of real and mutated content types through the real handler; the upload and download handlers on method x API-key placement/kind x "
                "credential placement/kind (sampled in quick, complete in thorough), pairs of placements, the newacc exception and its neighbours, body sizes around the limit for "
                "four limits, non-form / no-file / empty-file bodies, four media-handler configurations, three injected faults (create / StartUpload / FinishUpload), uploads stopped between StartUpload and FinishUpload and downloads of them by every URL shape, 15 content kinds, every URL shape per fixture; "
                "%d seeded histories of uploads, publishes with attachment lists, topic and account avatar updates, hard message deletion, topic and user deletion and GC runs "
                "(DeleteUnused with future / past / zero bound and limits), each followed by a dump of memverif's file and link tables and the directory listing; "
                "%d seeded sender-mode histories: a group topic (owner = root or a user) with members that write without reading (by want or by given), read and write, or only read, a p2p topic, "
                "{pub} with attachment lists (noecho / head variants) by each of them, by a root session on behalf of members and outsiders, and to 'sys' by users without a subscription, "
                "the k-th adapter call of the request made to fail (SubsUpdate and FileLinkAttachments at least once per history), memverif's log of the adapter calls of every publish compared with the call log of the Save model, "
                "upload records aged past the grace period followed by the garbage collector's own call DeleteUnused(now - 1h, limit), dumps after every step; "
                "download requests with every field of the upload request (SVX: every valid-key placement x every way of carrying no valid credentials x the topic parameter - newacc and neighbours - in query / form / cookie for GET and HEAD; the method x key x credential cross product with form fields in a multipart body, sampled in quick; precedence pairs; handler configurations; URL shapes); "
                "%d seeded avatar histories under store faults: a group topic with a member and the 'me' topics of both users, blocks of [acknowledged {set desc public+attachments}; the adversarial request - k-th adapter call failing (core update, subscription update, link call), a non-owner, private only, nothing to change -; AGE + DeleteUnused(now - 1h) + downloads of the old and the new avatar], {acc user=new} with an avatar and the k-th adapter call failing, memverif's call log of every such request compared with the model's, dumps after every step; "
                "UPT: bodies of 29 sniff classes x declared Content-Type of the multipart part (absent, the sniffed type, every family, upper case, parameters, malformed) x asatt, uploaded and downloaded through the real handlers, stored type / Content-Type / Content-Disposition / bytes compared with Sys/FilesTypeC16f.v; "
                "GCRUN: the real largeFileRunGarbageCollection goroutine (periods 20 ms .. 1 s, block 7 / 100 / 1000) over uploads aged 0 s .. 2 h 5 min around the one-hour grace period (AGES), some linked, memverif recording the bound of every FileDeleteUnused call; "
                "the statements of the real MySQL adapter for GC / linking / FinishUpload executed on sqlite over enumerated tables of up to 3 uploads (old / new, 7 link sets each) x 6 (bound, limit) pairs; "
                "non-trivial = an id was extracted / a request had an effect / a history operation ran" % (7 if quick else 11, 12 if quick else 400, 8 if quick else 250, 6 if quick else 120),
        "samples": [{"case": lines[i][:300], "impl": impl[i][:300]} for i in ([i for i in (1, 2, 3) if i < len(lines)] + ctx.rng.sample(range(len(lines)), min(6, len(lines))))],
        "traces_validated_against_impl": len(lines), "correspondence_mismatches": len(mism),
        "monitor_failures": len(fails), "search_pool": searched,
        "input_distribution": {"by_request_kind": kinds, "by_outcome": dict(sorted(outs.items(), key=lambda kv: -kv[1])[:60])},
        "laws": LAWS,
        "mysql_adapter_sql": sql_cov,
        "trusted_base": [
            "harness/overlay/server/db/mysql/zz_verif_c16_test.go (recording database/sql driver: statement texts and arguments of the REAL MySQL adapter's FileDeleteUnused / FileLinkAttachments / FileFinishUpload) + python sqlite3 as the SQL engine standing in for MySQL for these statements, tables with the foreign keys of adapter.go:526-555 written by hand in tools/props/c16.py; the message / topic / user deletion statements (MySQL multi-table DELETE, ON DELETE CASCADE) are NOT executed",
            "harness/overlay/server/zz_verif_c16_test.go (builds the HTTP requests, observes memverif's tables and the upload directory before/after each request, calls the real handlers; a stub media handler overrides only Headers())",
            "harness/overlay/server/db/memverif (in-memory adapter with the MySQL adapter's file/link semantics: modelled from db/mysql/adapter.go:3171-3396, not verified)",
            "harness/runner/r_c16.ml glue: text of a placement kind -> constructor (valid key / good token / bad signature ...), upload k <-> model id; for PUBX lines: the sender's (want, given) taken from the MEMBER / P2P / TOPIC lines (the mode algebra itself is C05/C07's), position k of the failing adapter call -> fault plan of the Save model, model time = sum of the AGE lines",
            "harness/overlay/server/zz_verif_c16b_test.go (sender-mode part of the driver: builds the {sub}/{set}/{pub} requests, reads memverif's call log and subscription rows) and memverif.AgeFilesC16b (moves updatedat of the upload records back)",
            "harness/overlay/server/zz_verif_c16c_test.go (SVX: builds GET / HEAD requests with a multipart body, cookies and query for the real largeFileServe; SETX / NEWACCX: builds the {set} / {acc} requests, arms memverif.SetFault(k), reads memverif's call log, the stored public of the topic / user and the users table via memverif.DumpUsersC16c) and the runner's glue for these lines in r_c16.ml: the request environment of the {set desc} model (pre-check outcome, core / sub non-empty) is derived from the line - a group topic is changed by its owner only, the driver's values always differ from the stored ones -, position k of the failing call -> fault plan by a fault-free run of the model",
            "harness/overlay/server/zz_verif_c16f_test.go (UPT: builds the multipart body with the declared type, computes http.DetectContentType on the zero-padded first 512 bytes and mime.ParseMediaType / FormatMediaType on the declared text - these three results are INPUTS of the model line -, removes the upload afterwards; GCRUN: starts the real GC goroutine, waits for the first recorded FileDeleteUnused call, stops it through its channel) and memverif.RecordGcC16f / noteGcC16f (one line at the entry of memverif's FileDeleteUnused); runner glue: model time in ns, one model tick per GCRUN line (later ticks of the same run, ms apart, remove nothing more: ages are kept 59 s away from one hour)",
            "tools/props/c16.py law monitors (python restatement of the theorems, evaluated on the implementation's answers)",
            "outside the model: bytes on disk, http.DetectContentType, http.ServeContent, multipart parsing, MaxBytesReader (checked by the correspondence only)",
            "FinishUpload / StartUpload store failures are injected through memverif.SetFault; a media handler that is not configured is obtained by UseMediaHandler of an unknown name (recovered)",
        ],
    })
    ctx.finish()
