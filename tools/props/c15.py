"""C15 peer-to-peer call life cycle: theorems in coq/Props/PropC15.v over Sys/Call.v and
Sys/CallCat.v (the topic category as a parameter of the invitation gate; the world of the p2p
topic + group topic / channel, 'me', 'fnd', 'sys'); correspondence + monitors through the call
driver (TestVerifCallX = TestVerifCall + requests addressed to the other kinds of topic) which
runs the real hub / topics / sessions above memverif, against the extracted model (runner c15x)."""
import json
import os
import re
import subprocess
import time
import vlib

EVENTS = ["ringing", "accept", "offer", "answer", "ice-candidate", "hang-up", "bogus"]
END_STATES = ("finished", "declined", "missed", "disconnected")
SESSIONS = {1: 1, 2: 1, 3: 2, 4: 2, 5: 3, 6: 1, 7: 2}
ROOT_SESSION = 8            # extended scenarios: a root-level connection of user 3 (may attach to 'sys')
OTHER_TOPICS = ("G", "C", "sys", "fnd")      # canonical names of topics that are not the p2p topic ('me' apart)
TREFS = ("grp", "chn", "sys", "me", "fnd")


def kvs(text):
    return dict(p.split("=", 1) for p in text.split() if "=" in p)


class Scn:
    def __init__(self, sid, cfg=1, sessions=None, ext=False, gw2=1, xatt=(), roots=()):
        self.id = sid
        self.cfg = cfg
        self.sessions = dict(sessions or SESSIONS)
        self.ext = ext              # the other kinds of topic exist (group/channel, fnd, sys attachments)
        self.gw2 = gw2              # user 2 may write to the group topic
        self.xatt = [tuple(x) for x in xatt]      # (session, grp|chn|fnd|sys) attached before the first op
        self.roots = set(roots)
        self.ops = []

    @property
    def head(self):
        h = ["scn %s cfg=%d" % (self.id, self.cfg) + (" x=1 gw2=%d" % self.gw2 if self.ext else "")]
        h += ["sess %d %d" % (s, u) + (" root" if s in self.roots else "") for s, u in sorted(self.sessions.items())]
        return h + ["xatt %d %s" % (s, t) for s, t in self.xatt]

    def lines(self):
        return self.head + ["op %s %s" % (k, " ".join(str(a) for a in args)) if args else "op %s" % k for k, args in self.ops] + ["end"]

    def clone(self, ops, sid=None):
        s = Scn(sid or self.id, self.cfg, self.sessions, self.ext, self.gw2, self.xatt, self.roots)
        s.ops = [(k, list(a)) for k, a in ops]
        return s

    def key_of(self, tref, s):
        """the driver's name of the topic a session means by grp|chn|sys|me|fnd"""
        if tref in ("grp", "chn"):
            return "G"
        if tref == "sys":
            return "sys"
        return "%s%d" % (tref, self.sessions.get(s, 0))

    @staticmethod
    def from_replay(rp, sid):
        w0 = rp["head"][0].split()
        kv = kvs(rp["head"][0])
        cfg = 1 if kv.get("cfg") == "1" else 0
        sess, xatt, roots = {}, [], set()
        for l in rp["head"][1:]:
            w = l.split()
            if w[0] == "sess":
                sess[int(w[1])] = int(w[2])
                if len(w) > 3 and w[3] == "root":
                    roots.add(int(w[1]))
            elif w[0] == "xatt":
                xatt.append((int(w[1]), w[2]))
        s = Scn(sid, cfg, sess, kv.get("x") == "1", int(kv.get("gw2", "1")), xatt, roots)
        s.ops = [(k, list(a)) for k, a in rp["ops"]]
        return s


class View:
    """one op block of the driver (or of the model runner)"""
    def __init__(self, lines):
        self.frames = []     # (sid, text) without pres/meta
        self.other = []      # pres / meta frames (not compared)
        self.call = None
        self.timer = 0
        self.lastid = 0
        self.users = {}
        self.att = set()
        self.loaded = 0
        self.storeseq = None
        self.msgs = []
        self.fired = None
        self.hang = None
        self.xt = {}         # other topics: key -> dict(call, timer, seqid, att)
        self.xmsgs = []      # rows added to other topics by this op
        for ln in lines:
            if "=?" in ln:
                # frames printed by the p2p driver's renderer name the group topic / channel by its raw name
                ln = re.sub(r"=\?sys\b", "=sys", re.sub(r"=\?fnd\S*", "=fnd", re.sub(r"=\?grp\S*", "=G", re.sub(r"=\?chn\S*", "=C", ln))))
            w = ln.split(" ", 1)
            if w[0][0] == "S" and w[0][1:].isdigit():
                if w[1].startswith(("pres ", "meta")):
                    self.other.append((int(w[0][1:]), w[1]))
                else:
                    self.frames.append((int(w[0][1:]), w[1]))
            elif w[0] == "call":
                if w[1] != "none":
                    d = kvs(w[1])
                    self.call = dict(seq=int(d["seq"]), orig=int(d["orig"]), ouser=int(d["ouser"]), callee=int(d["callee"]),
                                     content=d["content"], accepted=d["accepted"] == "1", parties=int(d["parties"]))
            elif w[0] == "timer":
                self.timer = int(w[1])
            elif w[0] == "lastid":
                self.lastid = int(w[1])
            elif w[0] == "user":
                d = kvs(w[1])
                self.users[int(w[1].split()[0])] = dict(w=d["w"] == "1", r=d["r"] == "1", p=d["p"] == "1", deleted=d["deleted"] == "1")
            elif w[0] == "att":
                self.att = set(int(x) for x in (w[1].split(",") if len(w) > 1 else []) if x)
            elif w[0] == "loaded":
                self.loaded = int(w[1])
            elif w[0] == "store":
                self.storeseq = w[1]
            elif w[0] == "msg":
                d = kvs(w[1])
                self.msgs.append(dict(seq=int(w[1].split()[0]), frm=int(d["from"]), replace=d["replace"], webrtc=d["webrtc"],
                                      sender=int(d["sender"]), content=d["content"]))
            elif w[0] == "fired":
                self.fired = int(w[1])
            elif w[0] == "xt":
                d = kvs(w[1])
                self.xt[w[1].split()[0]] = dict(call=d["call"], timer=int(d["timer"]), seqid=int(d["seqid"]),
                                                att=tuple(int(x) for x in d["att"].split(",") if x))
            elif w[0] == "xmsg":
                d = kvs(w[1])
                ww = w[1].split()
                self.xmsgs.append(dict(key=ww[0], seq=int(ww[1]), frm=int(d["from"]), replace=d["replace"], webrtc=d["webrtc"],
                                       sender=int(d["sender"]), content=d["content"]))
            elif w[0] == "HANG":
                self.hang = ln

    def state_key(self):
        c = self.call
        return (self.loaded, None if c is None else tuple(sorted(c.items())), self.timer, self.lastid,
                tuple(sorted((u, tuple(sorted(p.items()))) for u, p in self.users.items() if u in (1, 2))),
                tuple(sorted(self.att)), self.storeseq, tuple(tuple(sorted(m.items())) for m in self.msgs), self.fired,
                tuple(sorted((k, tuple(sorted(d.items()))) for k, d in self.xt.items())),
                tuple(tuple(sorted(m.items())) for m in self.xmsgs))


def parse_blocks(lines):
    res, cur, blk = {}, None, None
    for ln in lines:
        if not ln:
            continue
        w = ln.split(" ", 1)
        if w[0] == "scn":
            cur = []
            res[w[1]] = cur
            blk = None
        elif w[0] == "op":
            blk = []
            cur.append(blk)
        elif w[0] == "end":
            cur, blk = None, None
        elif blk is not None:
            blk.append(ln)
    return {k: [View(b) for b in v] for k, v in res.items()}


class ModelProc:
    """the extracted model stepped interactively (model-guided generation)"""
    def __init__(self):
        self.p = subprocess.Popen([os.path.join(vlib.BUILD, "runner"), "c15x"], stdin=subprocess.PIPE, stdout=subprocess.PIPE,
                                  text=True, bufsize=1)

    def line(self, l):
        self.p.stdin.write(l + "\n")
        self.p.stdin.flush()
        return self.p.stdout.readline().rstrip("\n")

    def start(self, sc):
        for l in sc.head:
            self.line(l)

    def op(self, kind, args):
        self.p.stdin.write(("op %s %s" % (kind, " ".join(str(a) for a in args))).rstrip() + "\n\n")
        self.p.stdin.flush()
        out = []
        while True:
            l = self.p.stdout.readline()
            if l == "" or l == "\n":
                break
            out.append(l.rstrip("\n"))
        return View(out[1:])

    def close(self):
        try:
            self.p.stdin.close()
            self.p.wait(timeout=5)
        except Exception:
            self.p.kill()


def wchoice(rng, pairs):
    tot = sum(w for _, w in pairs)
    r = rng.random() * tot
    for x, w in pairs:
        r -= w
        if r <= 0:
            return x
    return pairs[-1][0]


def gen_tail(rng, mp, sc, v, n, st):
    """append n model-guided ops to sc; v = the model's view after the ops so far; st = generator bookkeeping"""
    sess = sc.sessions
    for _ in range(n):
        # the root-level connection is used only for requests to the other topics
        live = [s for s in sess if s not in st["dead"] and s not in sc.roots]
        if not live:
            break
        if sc.ext and rng.random() < 0.2:
            kind, args = gen_xop(rng, sc, v, st)
            sc.ops.append((kind, args))
            v = mp.op(kind, args)
            continue
        att = [s for s in live if s in v.att]
        cur = v.call
        anydel = any(p["deleted"] for p in v.users.values())
        if cur is None:
            kind = wchoice(rng, [("invite", 30), ("pub", 7), ("event", 12), ("attach", 8), ("leave", 5), ("setw", 9), ("timeout", 2),
                                 ("disc", 1.5), ("unsub", 1.2), ("attachme", 3)])
        else:
            kind = wchoice(rng, [("event", 52), ("invite", 5), ("pub", 5), ("leave", 6), ("disc", 3), ("timeout", 5), ("setw", 9),
                                 ("attach", 4), ("unsub", 1.5), ("attachme", 2)])
        args = None
        if kind == "invite":
            s = rng.choice(att) if att and rng.random() < 0.88 else rng.choice(live)
            args = [s, 100 + len(sc.ops), wchoice(rng, [("started", 9), ("finished", 0.5), ("bogus", 0.5)])]
        elif kind == "pub":
            s = rng.choice(att) if att and rng.random() < 0.85 else rng.choice(live)
            args = [s, 100 + len(sc.ops)]
        elif kind == "event":
            if cur is None:
                e = rng.choice(EVENTS)
                s = rng.choice(live)
                seq = rng.choice([st["lastcall"], v.lastid, 1, v.lastid + 1, 0, max(1, v.lastid - 1)])
            else:
                callee_user = 2 if cur["ouser"] == 1 else 1
                cs = [x for x in live if sess[x] == callee_user]
                parties = [x for x in (cur["orig"], cur["callee"]) if x and x in live]
                if not cur["accepted"]:
                    e = wchoice(rng, [("ringing", 3), ("accept", 4.5), ("hang-up", 2.2), ("offer", 0.8), ("answer", 0.6),
                                      ("ice-candidate", 0.6), ("bogus", 0.4)])
                else:
                    e = wchoice(rng, [("offer", 3), ("answer", 3), ("ice-candidate", 3), ("hang-up", 3.5), ("accept", 1), ("ringing", 0.8),
                                      ("bogus", 0.4)])
                if e in ("ringing", "accept"):
                    s = rng.choice(cs) if cs and rng.random() < 0.72 else rng.choice(live)
                elif e == "hang-up":
                    pool = parties + (cs if not cur["accepted"] else [])
                    s = rng.choice(pool) if pool and rng.random() < 0.7 else rng.choice(live)
                else:
                    s = rng.choice(parties) if parties and rng.random() < 0.75 else rng.choice(live)
                seq = cur["seq"] if rng.random() < 0.78 else rng.choice([cur["seq"] - 1, cur["seq"] + 1, v.lastid, v.lastid + 1,
                                                                          st["prevcall"], 0, -1])
            args = [s, e, seq, rng.randint(1, 9)]
        elif kind == "attach":
            pool = [s for s in live if sess[s] in (1, 2) and not v.users.get(sess[s], {}).get("deleted")]
            if not pool:
                continue
            args = [rng.choice(pool)]
        elif kind == "attachme":
            args = [rng.choice(live)]
        elif kind == "leave":
            pool = att if att and rng.random() < 0.85 else live
            if cur is not None and rng.random() < 0.5:
                pp = [x for x in (cur["orig"], cur["callee"]) if x in pool]
                pool = pp or pool
            args = [rng.choice(pool)]
        elif kind == "disc":
            pool = live
            if cur is not None and rng.random() < 0.6:
                pool = [x for x in (cur["orig"], cur["callee"]) if x in live] or live
            args = [rng.choice(pool)]
        elif kind == "unsub":
            if anydel or not att:
                continue
            args = [rng.choice(att)]
        elif kind == "timeout":
            args = []
        elif kind == "setw":
            if anydel or not att:
                continue
            s = rng.choice(att)
            tgt = 0 if rng.random() < 0.6 else (2 if sess[s] == 1 else 1)
            if cur is not None and rng.random() < 0.6:
                # aim at the originator's permission
                own = [x for x in att if sess[x] == cur["ouser"]]
                oth = [x for x in att if sess[x] != cur["ouser"]]
                if own and (rng.random() < 0.6 or not oth):
                    s, tgt = rng.choice(own), 0
                elif oth:
                    s, tgt = rng.choice(oth), cur["ouser"]
            args = [s, tgt, 0 if rng.random() < 0.55 else 1]
        sc.ops.append((kind, args))
        v2 = mp.op(kind, args)
        if kind == "disc":
            st["dead"].add(args[0])
        if v2.call is not None and (v.call is None or v.call["seq"] != v2.call["seq"]):
            st["prevcall"] = st["lastcall"]
            st["lastcall"] = v2.call["seq"]
        v = v2
    return v


def gen_xop(rng, sc, v, st):
    """a request addressed to a topic that is NOT the p2p topic: an invitation, a client-made replacement, an
    ordinary message or a call event, aimed by the model's view of those topics"""
    sess = sc.sessions
    live = [s for s in sess if s not in st["dead"]]
    tref = wchoice(rng, [("grp", 30), ("chn", 12), ("sys", 30), ("me", 14), ("fnd", 14)])
    fixed = [s for s, t in sc.xatt if t == tref and s in live]
    if tref == "me":
        fixed = [s for s in live if s in v.xt.get("me%d" % sess[s], {}).get("att", ())]
    if tref == "sys":
        s = rng.choice(live)
    else:
        s = rng.choice(fixed) if fixed and rng.random() < 0.8 else rng.choice(live)
    xt = v.xt.get(sc.key_of(tref, s), {})
    cur = v.call
    seqs = [1, xt.get("seqid", 0), xt.get("seqid", 0) + 1, v.lastid, st["lastcall"]] + ([cur["seq"]] * 3 if cur else [])
    if rng.random() < 0.68:
        r = rng.random()
        if r < 0.6:
            w, repl = "started", "-"
        elif r < 0.8:
            w, repl = rng.choice(["accepted", "finished", "declined", "missed", "disconnected", "bogus"]), ":%d" % max(1, rng.choice(seqs))
        else:
            w, repl = "-", ("-" if rng.random() < 0.8 else ":%d" % max(1, rng.choice(seqs)))
        return "xpub", [s, tref, 100 + len(sc.ops), w, repl]
    return "xnote", [s, tref, rng.choice(EVENTS), rng.choice(seqs + [0, -1]), rng.randint(1, 9)]


def gen_scn(rng, mp, sid, nops=(8, 28)):
    sc = Scn(sid, 1 if rng.random() < 0.92 else 0)
    if rng.random() < 0.5:
        # the other kinds of topic: a channel-enabled group topic (user 1 owner, user 2 member, user 3 reads it as a
        # channel), each user's 'me' and 'fnd', and 'sys' with a root-level connection of user 3 attached
        sc.ext = True
        sc.gw2 = 1 if rng.random() < 0.8 else 0
        sc.sessions[ROOT_SESSION] = 3
        sc.roots = {ROOT_SESSION}
        xa = [(x, "grp") for x in (1, 2, 3, 4, 6, 7) if rng.random() < 0.45]
        if rng.random() < 0.8:
            xa.append((5, "chn"))
        xa += [(x, "fnd") for x in (1, 3, 5) if rng.random() < 0.35]
        if rng.random() < 0.8:
            xa.append((ROOT_SESSION, "sys"))
        sc.xatt = xa
    mp.start(sc)
    st = dict(dead=set(), lastcall=1, prevcall=1)
    v = View([])
    pre = []
    for s, p in ((1, 0.92), (3, 0.9), (2, 0.5), (4, 0.5)):
        if rng.random() < p:
            pre.append(("attach", [s]))
    for s in (1, 2, 3, 4, 5):
        if rng.random() < 0.5:
            pre.append(("attachme", [s]))
    rng.shuffle(pre)
    for k, a in pre:
        sc.ops.append((k, a))
        v = mp.op(k, a)
    gen_tail(rng, mp, sc, v, rng.randint(*nops), st)
    return sc


def gen_scenarios(ctx, count, prefix="g"):
    mp = ModelProc()
    try:
        return [gen_scn(ctx.rng, mp, "%s%d" % (prefix, i)) for i in range(count)]
    finally:
        mp.close()


def extend(ctx, base, count, prefix="n"):
    """histories that continue `base` (used by the failing-input search)"""
    mp = ModelProc()
    res = []
    try:
        for j in range(count):
            sc = base.clone(base.ops, "%s%d" % (prefix, j))
            mp.start(sc)
            st = dict(dead=set(), lastcall=1, prevcall=1)
            v = View([])
            for k, a in sc.ops:
                v2 = mp.op(k, a)
                if k == "disc":
                    st["dead"].add(a[0])
                if v2.call is not None and (v.call is None or v.call["seq"] != v2.call["seq"]):
                    st["prevcall"], st["lastcall"] = st["lastcall"], v2.call["seq"]
                v = v2
            gen_tail(ctx.rng, mp, sc, v, ctx.rng.randint(1, 6), st)
            res.append(sc)
    finally:
        mp.close()
    return res


def run_impl(ctx, scns, tag="t"):
    fin = os.path.join(ctx.work, "scn_%s.in" % tag)
    fout = os.path.join(ctx.work, "scn_%s.impl" % tag)
    with open(fin, "w") as f:
        for sc in scns:
            f.write("\n".join(sc.lines()) + "\n")
    if os.path.exists(fout):
        os.remove(fout)
    env = dict(vlib.GOENV, VERIF_IN=fin, VERIF_OUT=fout)
    p = subprocess.run([os.path.join(vlib.BUILD, "maindrv.test"), "-test.run", "^TestVerifCallX$", "-test.count=1", "-test.timeout=3000s"],
                       stdout=subprocess.PIPE, stderr=subprocess.STDOUT, env=env, cwd=os.path.join(vlib.REPO, "server"), timeout=3400)
    out = p.stdout.decode("utf8", "replace")
    lines = open(fout).read().split("\n") if os.path.exists(fout) else []
    log = "\n".join(l for l in out.split("\n") if not (len(l) > 3 and l[0] in "IWE" and l[1:3] == "20"))
    return p.returncode, parse_blocks(lines), log


def run_model(ctx, scns):
    lines = []
    for sc in scns:
        lines += sc.lines()
    rc, out, err = ctx.run_model("c15x", lines)
    flat = []
    for o in out:
        flat += o.split("\n")
    return rc, parse_blocks(flat), err


# ---------------------------------------------------------------------------
# the property as predicates on the IMPLEMENTATION's trace

def init_view():
    v = View([])
    v.users = {1: dict(w=True, r=True, p=True, deleted=False), 2: dict(w=True, r=True, p=True, deleted=False)}
    return v


def other_laws(sc, k, kind, args, prev, v, fail):
    """'A call can be started only in a peer-to-peer topic': the laws about every topic that is NOT the p2p topic
    (group topic / channel, 'me', 'fnd', 'sys'), on the implementation's answers and state dumps"""
    what = "%s %s" % (kind, " ".join(str(a) for a in args))
    for key, d in sorted(v.xt.items()):
        if d["call"] != "none" or d["timer"]:
            fail("no-call-outside-p2p", k, "after `%s` topic %s (not peer-to-peer) has Topic.currentCall=%s, establishment timer armed=%d"
                 % (what, key, d["call"], d["timer"]))
    for m in v.xmsgs:
        if m["webrtc"] != "-":
            fail("no-call-message-outside-p2p", k, "after `%s` topic %s (not peer-to-peer) stores message #%d with head.webrtc=%s head.replace=%s"
                 % (what, m["key"], m["seq"], m["webrtc"], m["replace"]))
    for x, t in v.frames:
        d = kvs(t)
        if t.startswith("data ") and d.get("topic") in OTHER_TOPICS + ("me",) and d.get("webrtc") != "-":
            fail("no-call-message-outside-p2p", k, "after `%s` session %d received on topic %s: %s" % (what, x, d.get("topic"), t))
        if t.startswith("info ") and d.get("what") == "call" and d.get("topic") in OTHER_TOPICS:
            fail("no-call-info-outside-p2p", k, "after `%s` session %d received a call event on topic %s: %s" % (what, x, d.get("topic"), t))
    if kind not in ("xpub", "xnote"):
        return
    s = args[0]
    vv = carry(prev, v)
    frames_self = [t for x, t in v.frames if x == s]
    frames_other = [(x, t) for x, t in v.frames if x != s]
    p2p_changed = (prev.call != vv.call or vv.lastid != prev.lastid or bool(v.msgs) or vv.timer != prev.timer)
    core = lambda d: (d["call"], d["timer"], d["seqid"])
    before = lambda key: core(prev.xt[key]) if key in prev.xt else ("none", 0, 0)     # every scenario starts from fresh topics
    xt_changed = sorted(key for key, d in v.xt.items() if before(key) != core(d))
    infos = [(x, t) for x, t in v.frames if t.startswith("info ")]
    if infos:
        fail("no-call-info-outside-p2p", k, "`%s` (addressed to a topic that is not peer-to-peer) produced %s" % (what, infos))
    if p2p_changed:
        fail("other-topic-request-touches-call", k, "`%s` changed the p2p topic: call %s -> %s, lastid %d -> %d, rows %s"
             % (what, prev.call, vv.call, prev.lastid, vv.lastid, v.msgs))
    if kind == "xpub" and args[3] != "-":
        if any(t.startswith("ctrl 2") for t in frames_self):
            fail("invite-outside-p2p-refused", k, "`%s`: a {pub} with head.webrtc addressed to %s (not peer-to-peer) was acknowledged: %s"
                 % (what, sc.key_of(args[1], s), frames_self))
        if xt_changed or v.xmsgs or frames_other:
            fail("invite-outside-p2p-no-trace", k, "`%s` left a trace: topics changed %s, rows %s, frames to others %s"
                 % (what, [(key, before(key), core(v.xt[key])) for key in xt_changed], v.xmsgs, frames_other))
    if kind == "xnote":
        if xt_changed or v.xmsgs or frames_other:
            fail("call-note-outside-p2p-ignored", k, "`%s` had an effect: topics changed %s, rows %s, frames to others %s"
                 % (what, [(key, before(key), core(v.xt[key])) for key in xt_changed], v.xmsgs, frames_other))


def monitor(sc, views):
    res = []
    prev = init_view()
    calls = {}
    dead = set()
    sess = sc.sessions

    def fail(law, k, detail):
        res.append((law, k, detail))

    for k, v in enumerate(views):
        kind, args = sc.ops[k]
        s = args[0] if args else None
        su = sess.get(s)
        if v.hang:
            fail("hang", k, v.hang)
        if sc.ext:
            other_laws(sc, k, kind, args, prev, v, fail)
        if s is not None and (s in dead or s not in sess):
            prev = carry(prev, v)
            continue
        if kind == "disc":
            dead.add(s)
        pc, vc = prev.call, v.call
        users = prev.users if prev.users else init_view().users
        frames_self = [t for x, t in v.frames if x == s]
        frames_other = [(x, t) for x, t in v.frames if x != s]
        changed = (pc != vc or v.lastid != prev.lastid or bool(v.msgs) or (v.timer != prev.timer and v.loaded and prev.loaded))
        stay = [x for x in prev.att if x in v.att and x not in dead]

        # nobody outside the conversation ever sees anything of it
        for x, t in v.frames:
            if sess.get(x) not in (1, 2) and (t.startswith("data ") or t.startswith("info ")) and kvs(t).get("topic") not in OTHER_TOPICS:
                fail("third-user-gets-nothing", k, "session %d of user %s received: %s" % (x, sess.get(x), t))

        if v.loaded and v.timer != (1 if (vc is not None and not vc["accepted"]) else 0):
            fail("timer-armed-iff-establishing", k, "timer=%d call=%s" % (v.timer, vc))

        # ---- a call starts
        if vc is not None and (pc is None or pc["seq"] != vc["seq"]):
            if pc is not None:
                fail("slot-overwritten", k, "call %d replaced by call %d without an ending" % (pc["seq"], vc["seq"]))
            if kind != "invite":
                fail("call-started-only-by-invite", k, "call %d appeared after %s" % (vc["seq"], kind))
            calls[vc["seq"]] = dict(orig=vc["orig"], ouser=vc["ouser"], content=vc["content"], acc=0, end=0)

        # ---- messages written by this step
        for i, m in enumerate(v.msgs):
            if m["replace"] == "-":
                continue
            q = int(m["replace"][1:]) if re.match(r"^:\d+$", m["replace"]) else None
            c = calls.get(q)
            if c is None or pc is None or pc["seq"] != q:
                fail("replacement-for-non-current-call", k, "message %d replaces %s while the current call is %s" % (m["seq"], m["replace"], pc))
                continue
            if m["frm"] != c["ouser"]:
                fail("replacement-author-originator", k, "replacement %d of call %d authored by user %d, originator is %d" % (m["seq"], q, m["frm"], c["ouser"]))
            if m["content"] != c["content"]:
                fail("replacement-content", k, "replacement %d of call %d carries content %s, invitation had %s" % (m["seq"], q, m["content"], c["content"]))
            if m["webrtc"] not in ("accepted",) + END_STATES:
                fail("replacement-state", k, "replacement %d has head.webrtc=%s" % (m["seq"], m["webrtc"]))
            if m["seq"] != prev.lastid + 1 + i:
                fail("replacement-consumes-next-id", k, "replacement got id %d after lastid %d" % (m["seq"], prev.lastid))
            if m["webrtc"] == "accepted":
                c["acc"] += 1
                if c["acc"] > 1:
                    fail("accepted-published-twice", k, "call %d" % q)
            elif m["webrtc"] in END_STATES:
                c["end"] += 1
                if c["end"] > 1:
                    fail("ends-at-most-once", k, "a second ending (%s) was published for call %d" % (m["webrtc"], q))
            for x in stay:
                if not any(y == x and t.startswith("data seq=%d " % m["seq"]) for y, t in v.frames):
                    fail("replacement-broadcast", k, "attached session %d did not get replacement %d" % (x, m["seq"]))

        # ---- acceptance
        if pc is not None and vc is not None and pc["seq"] == vc["seq"] and not pc["accepted"] and vc["accepted"]:
            if not (kind == "event" and args[1] == "accept" and int(args[2]) == pc["seq"]):
                fail("accepted-only-by-accept", k, "call %d became accepted after %s %s" % (pc["seq"], kind, args))
            elif vc["callee"] != s:
                fail("accepted-only-by-accept", k, "callee session recorded as %d, accept came from %d" % (vc["callee"], s))
            if len([m for m in v.msgs if m["webrtc"] == "accepted" and m["replace"] == ":%d" % pc["seq"]]) != 1:
                fail("acceptance-published", k, "call %d accepted, messages written: %s" % (pc["seq"], v.msgs))

        # ---- ending
        if pc is not None and (vc is None or vc["seq"] != pc["seq"]):
            q = pc["seq"]
            party = s is not None and s in (pc["orig"], pc["callee"])
            exp = None
            if kind == "event" and args[1] == "hang-up":
                exp = "finished" if pc["accepted"] else ("missed" if su == pc["ouser"] else "declined")
            elif kind == "timeout":
                exp = "missed"
            elif kind in ("leave", "disc", "unsub") and party:
                exp = "disconnected"
            elif kind == "unsub" and any(x and sess.get(x) == su for x in (pc["orig"], pc["callee"])):
                exp = "disconnected"      # the unsubscription detaches every session of the user, a party's among them
            else:
                fail("call-ended-by-unexpected-step", k, "call %d ended by %s %s" % (q, kind, args))
            ends = [m for m in v.msgs if m["replace"] == ":%d" % q and m["webrtc"] in END_STATES]
            if not ends:
                if not users.get(pc["ouser"], {}).get("w", True):
                    fail("ending-lost-when-originator-cannot-write", k,
                         "call %d ended by %s %s but no ending was published: originator user %d has no W now; replies: %s"
                         % (q, kind, args, pc["ouser"], v.frames))
                else:
                    fail("ending-published", k, "call %d ended by %s %s, no ending message written" % (q, kind, args))
            elif exp is not None and ends[0]["webrtc"] != exp:
                fail("ending-kind", k, "call %d ended by %s %s: published %s, expected %s" % (q, kind, args, ends[0]["webrtc"], exp))
            for x in stay:
                if not any(y == x and t.startswith("info what=call event=hang-up seq=%d " % q) and "topic=me" not in t for y, t in v.frames):
                    fail("ending-notified", k, "attached session %d was not told that call %d is over" % (x, q))

        # ---- a party's session leaves the topic
        if kind in ("leave", "disc", "unsub") and pc is not None and s in prev.att:
            if s in (pc["orig"], pc["callee"]) and vc is not None:
                fail("party-leave-ends-call", k, "party session %d left by %s, call %d still current" % (s, kind, pc["seq"]))
            if kind == "unsub" and vc is not None:
                gone = [x for x in (pc["orig"], pc["callee"]) if x and x in prev.att and x not in v.att]
                if gone:
                    fail("evicted-party-keeps-call", k, "party session(s) %s were detached by the unsubscription of user %d, call %d still current"
                         % (gone, su, pc["seq"]))

        # ---- invitation gate
        if kind == "invite":
            acked = [t for t in frames_self if t.startswith("ctrl 202")]
            u = users.get(su, {})
            should = bool(sc.cfg and s in prev.att and u.get("w") and not u.get("deleted") and pc is None)
            if bool(acked) != should:
                fail("gate-accept-iff", k, "invitation by session %d (user %s attached=%s W=%s configured=%s current=%s) %s: %s"
                     % (s, su, s in prev.att, u.get("w"), sc.cfg, pc, "accepted" if acked else "refused", frames_self))
            if acked:
                n = int(kvs(acked[0])["seq"])
                if vc is None or vc["seq"] != n or vc["orig"] != s or vc["ouser"] != su or vc["content"] != str(args[1]) or vc["accepted"]:
                    fail("invite-creates-call", k, "acked as %d, current call is %s" % (n, vc))
            else:
                if pc is not None and sc.cfg and s in prev.att:
                    if frames_self != ["ctrl 486"]:
                        fail("busy-486-no-trace", k, "second invitation answered %s" % frames_self)
                if changed or frames_other:
                    fail("busy-486-no-trace" if pc is not None else "refused-invite-no-trace", k,
                         "refused invitation left a trace: state changed=%s frames to others=%s" % (changed, frames_other))

        # ---- call events
        if kind == "event":
            e, seq = args[1], int(args[2])
            stale = pc is None or pc["seq"] != seq
            quiet_self = all(t.startswith("ctrl 409") or t.startswith("ctrl 403") for t in frames_self)
            taken = changed or bool(frames_other) or not quiet_self
            if stale:
                if changed or frames_other or not all(t.startswith("ctrl 409") for t in frames_self):
                    fail("stale-ignored", k, "event %s seq=%d (current call %s) had an effect: changed=%s frames=%s"
                         % (e, seq, pc and pc["seq"], changed, v.frames))
            else:
                callee_user = 2 if pc["ouser"] == 1 else 1
                deleted = users.get(su, {}).get("deleted", False)
                topic_infos = [(x, t) for x, t in v.frames if t.startswith("info ") and "topic=me" not in t]
                me_infos = [(x, t) for x, t in v.frames if t.startswith("info ") and "topic=me" in t]
                if taken and su in (1, 2) and deleted:
                    fail("event-from-unsubscribed-user-accepted", k, "%s for call %d from session %d of user %d who has left the topic was acted upon: %s"
                         % (e, seq, s, su, v.frames))
                elif e in ("ringing", "accept") and taken:
                    if not (su == callee_user and s != pc["orig"] and not pc["accepted"]):
                        fail("roles-ringing-accept", k, "%s taken from session %d (user %s); originator %d/%d accepted=%s"
                             % (e, s, su, pc["orig"], pc["ouser"], pc["accepted"]))
                elif e in ("offer", "answer", "ice-candidate") and taken:
                    if not (pc["accepted"] and s in (pc["orig"], pc["callee"])):
                        fail("roles-exchange", k, "%s taken from session %d; parties %d/%d accepted=%s" % (e, s, pc["orig"], pc["callee"], pc["accepted"]))
                elif e == "hang-up" and taken:
                    ok = (s in (pc["orig"], pc["callee"])) if pc["accepted"] else (s == pc["orig"] or su == callee_user)
                    if not ok:
                        fail("roles-hangup", k, "hang-up taken from session %d (user %s); parties %d/%d accepted=%s"
                             % (s, su, pc["orig"], pc["callee"], pc["accepted"]))
                elif e == "bogus" and taken:
                    fail("unknown-event-ignored", k, "unknown event had an effect: %s" % v.frames)
                if e != "hang-up":
                    relayed = [(x, t) for x, t in topic_infos if kvs(t)["event"] == e]
                    if e in ("ringing", "accept"):
                        want = [pc["orig"]]
                    else:
                        want = [pc["callee"] if s == pc["orig"] else pc["orig"]]
                    if relayed and [x for x, _ in relayed] != want:
                        fail("relay-target", k, "%s from session %d relayed to sessions %s, the other party is %s" % (e, s, [x for x, _ in relayed], want))
                    for x, t in relayed:
                        if int(kvs(t)["from"]) != su:
                            fail("relay-true-sender", k, "relayed %s names user %s, sent by %s" % (e, kvs(t)["from"], su))
                        if int(kvs(t)["seq"]) != seq:
                            fail("relay-call-id", k, t)
                    if [t for x, t in topic_infos if kvs(t)["event"] not in (e, "hang-up")]:
                        fail("relay-target", k, "other events emitted: %s" % topic_infos)
                    for x, t in me_infos:
                        if sess.get(x) != su or x == s or kvs(t)["event"] != "accept":
                            fail("accept-notice-own-user-only", k, "session %d of user %s got %s" % (x, sess.get(x), t))
        elif kind != "event":
            for x, t in v.frames:
                if t.startswith("info ") and kvs(t)["event"] != "hang-up":
                    fail("relay-only-from-events", k, "%s produced %s" % (kind, t))
        prev = carry(prev, v)
    return res


def carry(prev, v):
    """the state lines are absent while the topic is not loaded: keep the previous ones"""
    if v.loaded:
        return v
    nv = View([])
    nv.users, nv.att, nv.call, nv.lastid, nv.timer = prev.users, prev.att, prev.call, prev.lastid, prev.timer
    nv.xt = v.xt or prev.xt
    return nv


# ---------------------------------------------------------------------------

def proj_frames(sc, k, v, leaving=()):
    kind = sc.ops[k][0]
    d = {}
    for x, t in v.frames:
        if kind in ("setw",) and (t.startswith("ctrl 200") or t.startswith("ctrl 304")):
            continue
        if kind == "xpub" and t.startswith("data ") and kvs(t).get("webrtc") == "-":
            # the fan-out of an ordinary message on a group topic / channel / sys (who reads it, under which name) is not
            # part of this property's projection (C02); a {data} carrying head.webrtc there is, and is a law violation
            continue
        src = "me" if (t.startswith("info ") and "topic=me" in t) else "t"
        if src == "me" and x in leaving:
            # schedule-dependent in the real server: the 'me' topic applies the "not attached to the p2p topic"
            # filter (Info.SkipTopic) in its own goroutine, before or after the p2p topic has detached the
            # leaving / evicted session; both outcomes are accepted for exactly these sessions
            continue
        d.setdefault((x, src), []).append(t)
    return d


def diff_op(sc, k, iv, mv, prev_att=()):
    res = []
    leaving = [x for x in prev_att if x not in iv.att] if sc.ops[k][0] in ("leave", "unsub") else ()
    a, b = proj_frames(sc, k, iv, leaving), proj_frames(sc, k, mv, leaving)
    if a != b:
        res.append(("frames", {str(x): t for x, t in a.items() if b.get(x) != t}, {str(x): t for x, t in b.items() if a.get(x) != t}))
    if iv.state_key() != mv.state_key():
        ik, mk = iv.state_key(), mv.state_key()
        names = ("loaded", "call", "timer", "lastid", "users", "att", "store", "msgs", "fired", "other_topics", "other_topic_rows")
        res.append(("state", {n: x for n, x, y in zip(names, ik, mk) if x != y}, {n: y for n, x, y in zip(names, ik, mk) if x != y}))
    return res


def shrink(sc, still_bad, budget):
    t0 = time.time()
    ops = list(sc.ops)
    chunk = max(1, len(ops) // 2)
    while chunk >= 1 and time.time() - t0 < budget:
        i, changed = 0, False
        while i < len(ops) and time.time() - t0 < budget:
            cand = ops[:i] + ops[i + chunk:]
            if cand and still_bad(sc.clone(cand)):
                ops, changed = cand, True
            else:
                i += chunk
        if not changed:
            chunk //= 2
    return sc.clone(ops)


CORPUS = [
    # a full call; busy; stale ids; every ending kind
    (1, [("attach", [1]), ("attach", [3]), ("attachme", [4]), ("invite", [1, 101, "started"]), ("invite", [3, 102, "started"]),
         ("event", [4, "ringing", 1, 1]), ("event", [2, "accept", 1, 2]), ("event", [3, "accept", 1, 2]), ("event", [4, "accept", 1, 2]),
         ("event", [1, "offer", 1, 3]), ("event", [3, "answer", 1, 4]), ("event", [4, "hang-up", 1, 5]), ("event", [3, "hang-up", 2, 5]),
         ("event", [3, "hang-up", 1, 5]), ("event", [3, "hang-up", 1, 5]), ("invite", [3, 103, "started"]), ("event", [1, "hang-up", 4, 1]),
         ("invite", [1, 104, "started"]), ("event", [1, "hang-up", 6, 1]), ("invite", [1, 105, "started"]), ("timeout", []),
         ("invite", [1, 106, "started"]), ("event", [3, "accept", 10, 1]), ("leave", [3]), ("invite", [1, 107, "started"]), ("disc", [1])]),
    # the originator loses W while the call is in progress / being established
    (1, [("attach", [1]), ("attach", [3]), ("invite", [1, 101, "started"]), ("event", [3, "accept", 1, 2]), ("setw", [1, 0, 0]),
         ("event", [3, "hang-up", 1, 1]), ("setw", [1, 0, 1]), ("invite", [1, 102, "started"]), ("setw", [3, 1, 0]), ("event", [3, "accept", 3, 1]),
         ("timeout", [])]),
    # a participant unsubscribes with another session while the call is pending
    (1, [("attach", [1]), ("attach", [2]), ("attach", [3]), ("attach", [4]), ("invite", [1, 101, "started"]), ("unsub", [4]),
         ("event", [3, "accept", 1, 2]), ("event", [3, "hang-up", 1, 2]), ("invite", [1, 102, "started"]), ("timeout", [])]),
    (1, [("attach", [1]), ("attach", [2]), ("attach", [3]), ("invite", [1, 101, "started"]), ("unsub", [2]), ("event", [3, "ringing", 1, 2]),
         ("timeout", [])]),
    (0, [("attach", [1]), ("attach", [3]), ("invite", [1, 101, "started"]), ("event", [3, "accept", 1, 2]), ("pub", [1, 5])]),
]


# the other kinds of topic (cfg, gw2, attachments before the first op, ops)
XATT = [(1, "grp"), (3, "grp"), (5, "chn"), (4, "fnd"), (ROOT_SESSION, "sys")]
XCORPUS = [
    # invitations, client-made replacements, ordinary messages and call events to a group topic (as member, as channel
    # reader, unattached), 'me', 'fnd' and 'sys' (attached root session, unattached ordinary sessions), before, while and
    # after a p2p call
    (1, 1, XATT,
     [("attach", [1]), ("attach", [3]), ("attachme", [2]), ("xpub", [1, "grp", 7, "-", "-"]), ("xpub", [1, "grp", 8, "started", "-"]),
      ("xpub", [3, "grp", 9, "accepted", ":1"]), ("xpub", [5, "chn", 10, "started", "-"]), ("xpub", [5, "chn", 10, "-", "-"]),
      ("xpub", [2, "me", 11, "started", "-"]), ("xpub", [2, "me", 11, "-", "-"]), ("xpub", [4, "fnd", 12, "started", "-"]),
      ("xpub", [5, "sys", 13, "started", "-"]), ("xpub", [5, "sys", 14, "-", "-"]), ("xpub", [8, "sys", 14, "started", "-"]),
      ("xpub", [6, "grp", 15, "started", "-"]), ("xpub", [6, "me", 15, "started", "-"]), ("xnote", [3, "grp", "accept", 1, 4]),
      ("xnote", [6, "grp", "hang-up", 1, 4]), ("xnote", [6, "grp", "offer", 1, 4]), ("xnote", [5, "sys", "accept", 1, 4]),
      ("xnote", [8, "sys", "ringing", 1, 4]), ("xnote", [2, "me", "ringing", 1, 4]), ("invite", [1, 101, "started"]),
      ("xpub", [3, "grp", 16, "started", "-"]), ("xpub", [4, "sys", 16, "started", "-"]), ("xnote", [3, "grp", "accept", 1, 4]),
      ("xnote", [4, "sys", "accept", 1, 4]), ("event", [3, "accept", 1, 2]), ("xpub", [3, "sys", 17, "finished", ":1"]),
      ("xnote", [3, "grp", "hang-up", 1, 4]), ("disc", [1]), ("xpub", [5, "sys", 18, "missed", ":1"]), ("xpub", [3, "grp", 19, "started", "-"]),
      ("invite", [3, 102, "started"]), ("timeout", [])]),
    # calling not configured; user 2 cannot write to the group
    (0, 0, XATT,
     [("attach", [1]), ("attach", [3]), ("xpub", [1, "grp", 7, "started", "-"]), ("xpub", [3, "grp", 7, "started", "-"]),
      ("xpub", [3, "grp", 8, "-", "-"]), ("xpub", [5, "sys", 9, "started", "-"]), ("xpub", [8, "sys", 9, "started", "-"]),
      ("xpub", [4, "fnd", 10, "started", "-"]), ("xpub", [5, "chn", 11, "started", "-"]), ("invite", [1, 101, "started"]),
      ("xnote", [5, "sys", "accept", 1, 1])]),
    # nobody attached anywhere: 'sys' still takes the request, everything else wants an attachment first
    (1, 1, [],
     [("xpub", [1, "sys", 7, "started", "-"]), ("xpub", [5, "sys", 8, "bogus", ":1"]), ("xpub", [1, "grp", 9, "started", "-"]),
      ("xpub", [5, "chn", 9, "started", "-"]), ("xpub", [3, "me", 9, "started", "-"]), ("xpub", [3, "fnd", 9, "started", "-"]),
      ("xpub", [1, "sys", 10, "-", "-"]), ("xpub", [3, "sys", 11, "started", "-"]), ("xnote", [1, "sys", "hang-up", 1, 1]),
      ("attach", [1]), ("invite", [1, 101, "started"]), ("xpub", [3, "sys", 12, "started", "-"]), ("timeout", [])]),
]


def run(ctx):
    ctx.coq_props()
    vlib.proof_violation(ctx)
    ok, out = ctx.build_runner()
    if not ok:
        ctx.violation("proof", "extraction-broken", "model extraction/runner build failed: " + out[-1500:],
                      {"theorem_or_obligation": "extraction of the model"})
        ctx.finish()
    ok, out = ctx.build_main()
    if not ok:
        ctx.violation("corr", "harness-build-broken", "package-main driver no longer builds against /repo: " + out[-1500:],
                      {"correspondence": "build of harness/overlay against /repo/server"})
        ctx.finish()
    quick = ctx.tier == "quick"
    if ctx.replay:
        rp = json.load(open(ctx.replay))
        scns = [Scn.from_replay(rp["replay"], "replay")]
    else:
        scns = []
        for i, (cfg, ops) in enumerate(CORPUS):
            sc = Scn("c%d" % i, cfg)
            sc.ops = [(k, list(a)) for k, a in ops]
            scns.append(sc)
        for i, (cfg, gw2, xatt, ops) in enumerate(XCORPUS):
            sc = Scn("x%d" % i, cfg, dict(list(SESSIONS.items()) + [(ROOT_SESSION, 3)]), True, gw2, xatt, {ROOT_SESSION})
            sc.ops = [(k, list(a)) for k, a in ops]
            scns.append(sc)
        cdir = os.path.join(vlib.ROOT, "corpus", ctx.pid)
        if os.path.isdir(cdir):
            for f in sorted(os.listdir(cdir)):
                scns.append(Scn.from_replay(json.load(open(os.path.join(cdir, f))), "f_" + f.split(".")[0]))
        scns += gen_scenarios(ctx, 400 if quick else 6000)
    t0 = time.time()
    rc, impl, log = run_impl(ctx, scns)
    t_impl = time.time() - t0
    bad = next((sc for sc in scns if sc.id not in impl or len(impl[sc.id]) != len(sc.ops)), None)
    if rc != 0 or bad is not None:
        ctx.violation("monitor", "server-crashed", "the server process died or stopped answering while running scenario %s: %s"
                      % (bad.id if bad else "?", log[-1500:]),
                      {"head": bad.head if bad else [], "ops": bad.ops if bad else [], "log": log[-4000:]})
        ctx.finish()
    rc, model, err = run_model(ctx, scns)
    if rc != 0:
        ctx.violation("proof", "runner-crashed", "model runner failed: " + err[-1500:], {"theorem_or_obligation": "model runner"})
        ctx.finish()

    fails = []
    for sc in scns:
        for law, k, detail in monitor(sc, impl[sc.id]):
            fails.append((sc, law, k, detail))
    seen = {}
    for sc, law, k, detail in fails:
        seen.setdefault(law, []).append((sc, k, detail))
    nshrunk = 0
    for law, lst in seen.items():
        sc, k, detail = min(lst, key=lambda x: x[1])
        small = sc.clone(sc.ops[:k + 1])
        if nshrunk < 5 and not ctx.replay:
            nshrunk += 1

            def still_bad(c, law=law):
                rc2, im2, _ = run_impl(ctx, [c], tag="shrink")
                return rc2 == 0 and c.id in im2 and len(im2[c.id]) == len(c.ops) and any(l == law for l, _, _ in monitor(c, im2[c.id]))
            small = shrink(small, still_bad, 12 if quick else 120)
            rc2, im2, _ = run_impl(ctx, [small], tag="shrink")
            dd = [d for l, _, d in monitor(small, im2.get(small.id, [])) if l == law]
            detail = dd[0] if dd else detail
        ctx.violation("monitor", law, "law %s fails on the implementation's trace (%d scenarios this run): %s" % (law, len(lst), detail),
                      {"head": small.head, "ops": small.ops, "law": law, "detail": detail, "scenarios_failing": len(lst)})

    mism = []
    for sc in scns:
        io, mo = impl[sc.id], model.get(sc.id, [])
        if len(io) != len(mo):
            mism.append((sc, -1, [("shape", len(io), len(mo))]))
            continue
        patt = ()
        for k in range(len(io)):
            d = diff_op(sc, k, io[k], mo[k], patt)
            if d:
                mism.append((sc, k, d))
                break
            if io[k].loaded:
                patt = io[k].att
    searched = 0
    known = set(f["key"] for f in ctx.load_findings() if f["property"] == ctx.pid)
    fails = [f for f in fails if f[1] not in known]     # known findings do not excuse a correspondence mismatch
    if mism and not fails:
        sc, k, d = min(mism, key=lambda x: x[1] if x[1] >= 0 else 10 ** 6)
        base = sc.clone(sc.ops[:k + 1]) if k >= 0 else sc
        pool = [base] + extend(ctx, base, 60 if quick else 600)
        rc2, im2, _ = run_impl(ctx, pool, tag="search")
        searched = len(pool)
        if rc2 == 0:
            for c in pool:
                if c.id in im2 and len(im2[c.id]) == len(c.ops):
                    for law, kk, detail in monitor(c, im2[c.id]):
                        ctx.violation("monitor", law, "law %s fails on the implementation's trace: %s" % (law, detail),
                                      {"head": c.head, "ops": c.ops[:kk + 1], "law": law, "detail": detail,
                                       "found_by": "search near a correspondence mismatch"})
                        fails.append((c, law, kk, detail))
                        break
                if fails:
                    break
        if not fails:
            ctx.violation("corr", "correspondence-" + (sc.ops[k][0] if k >= 0 else "shape"),
                          "model and implementation disagree on %d of %d scenarios on this property's projection; first (prefix): op %d %s: %s; no law failure found on %d neighbouring histories"
                          % (len(mism), len(scns), k, sc.ops[k] if k >= 0 else "", json.dumps(d, default=str)[:900], searched),
                          {"correspondence": "projection of C15", "head": base.head, "ops": base.ops, "diff": d})

    # coverage
    kinds, codes, endings, events, outside = {}, {}, {}, {}, {}
    nops = 0
    nt = set()
    for sc in scns:
        full = False
        for k, (kind, args) in enumerate(sc.ops):
            nops += 1
            kinds[kind] = kinds.get(kind, 0) + 1
            v = impl[sc.id][k]
            if kind in ("xpub", "xnote"):
                what = "note" if kind == "xnote" else ("invite" if args[3] == "started" else ("replacement" if args[3] != "-" else "plain"))
                ans = ",".join(sorted(t.split()[1] for x, t in v.frames if x == args[0] and t.startswith("ctrl "))) or "silent"
                key = "%s %s -> %s" % (what, args[1], ans)
                outside[key] = outside.get(key, 0) + 1
            if kind == "event":
                tk = "taken" if (v.msgs or [1 for x, t in v.frames if x != args[0]]) else "ignored"
                events["%s/%s" % (args[1], tk)] = events.get("%s/%s" % (args[1], tk), 0) + 1
            for x, t in v.frames:
                if t.startswith("ctrl "):
                    c = t.split()[1]
                    codes[c] = codes.get(c, 0) + 1
            for m in v.msgs:
                if m["webrtc"] in END_STATES + ("accepted",) and m["replace"] != "-":
                    endings[m["webrtc"]] = endings.get(m["webrtc"], 0) + 1
                    full = True
        if full:
            nt.add(hash(repr([(o, tuple(impl[sc.id][k].frames)) for k, o in enumerate(sc.ops)])))
    ctx.coverage.update({
        "evaluations": len(scns), "distinct_nontrivial": len(nt),
        "rule": "corpus of 5 hand-written call histories + 3 hand-written histories with requests to the other kinds of topic + seeded model-guided random histories: 3 users (two participants of the p2p topic + a third user naming it by its p2p name), 7 connections, calls configured in ~92% of the histories; ops attach/attach-me/leave/unsubscribe/disconnect/invite(head.webrtc started|other)/pub/call event (7 kinds, seq right 78% else cur-1|cur+1|lastid|lastid+1|previous call|0|-1, from party, callee-user, originator-user, third-user and unattached sessions)/timeout/W-permission change (own want, other's given), 8-28 ops after the skeleton; in half of the histories the other kinds of topic exist as well (a channel-enabled group topic: user 1 owner, user 2 member with or without W, user 3 channel reader; 'me' and 'fnd' of each user; 'sys' with a root-level connection attached in 80%) and ~20% of the ops are addressed to them: {pub} with head.webrtc=started (60%), with a server call state + head.replace=:<id> (20%), ordinary (20%), and {note what=call} of all 7 kinds with the id of the p2p call / of that topic's last message, from attached and unattached sessions ('sys' needs no attachment); non-trivial = at least one acceptance or ending published; distinct by (ops, frames)",
        "operations_executed": nops,
        "samples": [{"head": sc.head, "ops": sc.ops} for sc in scns[8:10]],
        "traces_validated_against_impl": len(scns), "correspondence_mismatches": len(mism), "monitor_failures_not_known": len(fails),
        "monitor_failures_by_law": {l: len(v) for l, v in seen.items()},
        "search_pool": searched,
        "input_distribution": {"op_kinds": kinds, "ctrl_codes": codes, "published_call_states": endings, "events_taken_or_ignored": events, "requests_outside_p2p": outside,
                               "ops_per_scenario_max": max(len(sc.ops) for sc in scns)},
        "impl_wall_s": round(t_impl, 1),
        "trusted_base": [
            "harness/overlay/server/zz_verif_c15x_test.go: the same driver plus real {pub}/{note} to a real group topic / channel, 'me', 'fnd' and 'sys' (reloaded per scenario, ids relative); reads currentCall/timer/lastID/sessions of those topics and their memverif rows at quiescence",
            "harness/overlay/server/zz_verif_c15_test.go (+ helpers of zz_verif_topic_test.go): drives the real Hub/Topic/Session code through Session.dispatchRaw; quiescence by goroutine-state snapshot; reads Topic.currentCall/lastID/perUser/sessions and probes/fires Topic.callEstablishmentTimer only at quiescence (time.Timer methods are goroutine-safe)",
            "Go >= 1.23 timer semantics (no stale tick after Stop/Reset); go.mod says go 1.23",
            "harness/overlay/server/db/memverif: in-memory adapter written from db/mysql/adapter.go (store contract modelled, not verified)",
            "tools/props/c15.py monitors: python restatement of the property on the implementation's trace",
            "model scope (coq/Sys/CallCat.v header): other topics never paused/read-only in the runs (the gate theorem covers both bits), attachments to them fixed before the first op (+ disconnect), recipients of ordinary {data} there over-approximated and not compared",
            "model scope (coq/Sys/Call.v header): one p2p topic, R and P bits constant, no cluster/proxy sessions, topic never paused/deleted/unloaded, store never fails, no re-subscription after unsubscribing",
            "projection compared for C15: ctrl/data/info frames per session (p2p topic and 'me' separately), current call (seq, parties, content, accepted), timer armed, lastID, W/deleted per participant, attached sessions, message rows written (seq, from, head.replace, head.webrtc, head.sender, content); for every other topic: current call, timer armed, lastID, attached sessions, rows written, ctrl answers, {data} carrying head.webrtc, {info}"],
    })
    ctx.finish()
