"""C10 presence converges to the truth and never leaks: theorems in coq/Props/PropC10.v over
coq/Sys/Pres.v; correspondence + monitors through the presence driver
(harness/overlay/server/zz_verif_c10_test.go: real hub, real 'me'/p2p/group topics above memverif)
and the extracted model (harness/runner/r_pres.ml) on the same multi-user scenarios."""
import json
import os
import re
import subprocess
import time
import vlib
from props import topiclib as T

P, J, R = 8, 1, 2


class Scn:
    def __init__(self, sid):
        self.id = sid
        self.nusers = 0
        self.sessions = {}   # sid -> user
        self.ops = []        # (kind, [args])
        self.profile = ""

    @property
    def head(self):
        return ["scn %s users=%d" % (self.id, self.nusers)] + ["sess %d %d" % (s, u) for s, u in sorted(self.sessions.items())]

    def lines(self):
        return self.head + ["op %s %s" % (k, " ".join(str(a) for a in args)) for k, args in self.ops] + ["end"]

    def clone(self, ops):
        s = Scn(self.id)
        s.nusers, s.sessions, s.profile = self.nusers, self.sessions, self.profile
        s.ops = [tuple(o) for o in ops]
        return s


def fixed_cases():
    """The concrete histories behind the recorded findings and the plain handshakes; always run first."""
    res = []

    def mk(name, nusers, sessions, ops, profile="fixed"):
        s = Scn(name)
        s.nusers, s.sessions, s.profile = nusers, sessions, profile
        s.ops = [(o.split()[0], o.split()[1:]) for o in ops]
        res.append(s)
    mk("f_handshake", 2, {1: 1, 2: 2}, ["att 1 me 0", "att 2 me 0", "att 1 p2 0", "unloadall", "det 1 me", "unloadall", "att 1 me 0", "unloadall"])
    mk("f_group", 3, {1: 1, 2: 2, 3: 3}, ["att 1 me 0", "att 2 me 0", "new 1 1", "given 1 g1 2 47", "att 3 me 0", "given 1 g1 3 47",
                                        "att 2 g1 0", "pub 1 g1", "det 2 g1", "det 1 g1", "unloadall", "att 2 g1 0", "unloadall",
                                        "evict 2 g1 3", "want 2 g1 39", "unloadall", "want 2 g1 47", "unloadall"])
    mk("f_p2p_unmute", 2, {1: 1, 2: 2}, ["att 1 me 0", "att 2 me 0", "att 1 p2 0", "att 2 p1 0", "want 2 p1 23", "unloadall",
                                       "want 2 p1 31", "unloadall"])
    mk("f_banned", 2, {1: 1, 2: 2}, ["att 1 me 0", "att 2 me 0", "new 1 1", "given 1 g1 2 47", "given 1 g1 2 46", "pub 1 g1"])
    mk("f_bkg_disc", 1, {1: 1, 2: 1}, ["att 1 me 0", "att 2 me 1", "disc 2"], "bkg")
    mk("f_bkg_p2p_fg", 2, {1: 1, 2: 2}, ["att 1 p2 1", "fg 1", "det 1 p2"], "bkg")
    mk("f_unload_race", 2, {1: 1, 2: 2}, ["att 1 me 0", "att 2 me 0", "att 1 p2 0", "det 2 me", "unload1 m2", "att 2 me 0", "unload2 m2",
                                        "unloadall"], "race")
    # removals while the topic stays loaded (sessions 1,3 = users 1,2 on 'me' only; 2,4 = their topic sessions)
    mk("f_p2p_removed", 2, {1: 1, 2: 1, 3: 2, 4: 2},
       ["att 1 me 0", "att 3 me 0", "att 2 p2 0", "att 4 p1 0", "pub 4 p1", "pub 2 p2", "note 2 p2 read 1", "unsub 2 p2",
        "note 4 p1 kp 0", "note 4 p1 read 2", "note 4 p1 recv 2", "pub 4 p1", "note 2 p2 recv 3", "note 1 p2 recv 3", "delmsg 4 p1 0", "want 4 p1 23", "want 4 p1 31",
        "det 4 p1", "att 4 p1 0", "note 4 p1 kp 0", "att 2 p2 0", "note 4 p1 kp 0", "unloadall"], "rm")
    mk("f_grp_removed", 3, {1: 1, 2: 1, 3: 2, 4: 2, 5: 3, 6: 3},
       ["att 1 me 0", "att 3 me 0", "att 5 me 0", "new 2 1", "given 2 g1 2 47", "given 2 g1 3 47", "att 4 g1 0", "att 6 g1 0",
        "pub 2 g1", "pub 4 g1", "det 6 g1", "note 4 g1 read 2", "note 4 g1 kp 0", "unsub 4 g1", "note 2 g1 kp 0", "note 2 g1 read 2",
        "delmsg 2 g1 1", "evict 2 g1 3", "pub 2 g1", "note 2 g1 kp 0", "delmsg 2 g1 0", "given 2 g1 2 47", "note 2 g1 kp 0",
        "pub 2 g1", "unloadall"], "rm")
    mk("f_muted_no_r", 3, {1: 1, 2: 1, 3: 2, 4: 2, 5: 3, 6: 3},
       ["att 1 me 0", "att 3 me 0", "att 5 me 0", "new 2 1", "given 2 g1 2 45", "given 2 g1 3 39", "pub 2 g1", "note 2 g1 kp 0",
        "delmsg 2 g1 1", "att 4 g1 0", "note 4 g1 kp 0", "note 2 g1 kp 0", "unloadall"], "rm")
    # findings/C10.md #5 and #6: a deleted p2p subscription re-created by the OTHER party
    mk("f_p2p_resub_by_partner", 2, {1: 1, 2: 1, 3: 2, 4: 2},
       ["att 1 me 0", "att 3 me 0", "att 2 p2 0", "unsub 2 p2", "unloadall", "att 4 p1 0", "unloadall"], "rm")
    mk("f_p2p_reinvite", 2, {1: 1, 2: 1, 3: 2, 4: 2},
       ["att 1 me 0", "att 3 me 0", "att 2 p2 0", "att 4 p1 0", "unsub 2 p2", "given 4 p1 1 31", "unloadall"], "rm")
    # slow consumers (Sys/PresStuckC10.v): a user's second session is stuck while the first one notes / others publish
    mk("f_stuck_grp", 2, {1: 1, 2: 1, 3: 1, 4: 2, 5: 2},
       ["att 1 me 0", "att 4 me 0", "new 5 1 0", "given 5 g1 1 47", "att 2 g1 0", "att 3 g1 0", "pub 5 g1", "clog 2",
        "note 3 g1 read 1", "det 3 g1", "unclog 2", "att 2 g1 0", "att 3 g1 0", "clog 3", "pub 5 g1", "note 2 g1 recv 2",
        "clog 2", "note 5 g1 kp 0", "disc 2", "unloadall"], "stuck")
    mk("f_stuck_p2p", 2, {1: 1, 2: 1, 3: 1, 4: 2, 5: 2},
       ["att 1 me 0", "att 4 me 0", "att 2 p2 0", "att 3 p2 0", "att 5 p1 0", "pub 5 p1", "clog 3", "note 2 p2 recv 1",
        "note 2 p2 read 1", "unclog 3", "att 3 p2 0", "clog 2", "pub 5 p1", "pub 3 p2", "det 3 p2", "unclog 2", "unloadall"], "stuck")
    mk("f_stuck_me", 2, {1: 1, 2: 1, 3: 1, 4: 2, 5: 2},
       ["att 1 me 0", "att 2 me 0", "att 4 me 0", "att 3 p2 0", "clog 2", "att 5 p1 0", "pub 5 p1", "det 4 me", "att 4 me 0",
        "det 1 me", "unclog 2", "unloadall"], "stuck")
    return res


def gen_stuck(rng, sid):
    """Slow consumers: user u has an observer session 3u-2 (attached to 'me' only) and two worker sessions 3u-1, 3u
    (attached to p2p/group topics only, both in the foreground).  Sessions get clogged (the connection stops reading,
    the send queue is full: every queueOut on it fails and the next fan-out of a topic detaches it) while the user's
    OTHER session and other users note (read/recv/kp), publish, delete messages, change permissions, evict and
    unsubscribe - every handler that fans out to the attached sessions runs with a drop in the middle.  A clogged
    session is attached either to 'me' only or to p2p/group topics only, so that no topic reads Session.subs of a
    session another topic is detaching at that moment (getSub(SkipTopic) in broadcastToSessions races with the drop
    otherwise: both outcomes are legal, the comparison with the model would be flaky)."""
    sc = Scn(sid)
    sc.profile = "stuck"
    # permission changes / removals while a session is clogged: the {pres acs} they fan out is not emitted by the
    # model (manifest), so the comparison of such a history stops there; two thirds of the histories keep them for
    # the moments when nothing is clogged and are compared to the end
    perm_while_clogged = rng.random() < 0.34
    n = rng.choice([2, 2, 3])
    sc.nusers = n
    users = list(range(1, n + 1))
    for u in users:
        sc.sessions[3 * u - 2] = u
        sc.sessions[3 * u - 1] = u
        sc.sessions[3 * u] = u
    ops = []
    for u in users:
        if rng.random() < 0.85:
            ops.append(("att", [3 * u - 2, "me", 0]))
    kind = rng.choice(["p2p", "grp", "grp", "both"])
    refs = {}
    pubs = {}
    owner = None

    def key(u, ref):
        return ref if ref[0] == "g" else "p%d.%d" % (min(u, int(ref[1:])), max(u, int(ref[1:])))

    def workers(u):
        return [3 * u - 1, 3 * u]
    if kind in ("p2p", "both"):
        a, b = rng.sample(users, 2)
        for (x, y) in ((a, b), (b, a)):
            refs.setdefault(x, set()).add("p%d" % y)
            for w in workers(x):
                if w == 3 * x - 1 or rng.random() < 0.85:
                    ops.append(("att", [w, "p%d" % y, 0]))
    if kind in ("grp", "both"):
        owner = rng.choice(users)
        ops.append(("new", [3 * owner - 1, 1, 0]))
        refs.setdefault(owner, set()).add("g1")
        if rng.random() < 0.7:
            ops.append(("att", [3 * owner, "g1", 0]))
        for v in users:
            if v != owner:
                ops.append(("given", [3 * owner - 1, "g1", v, rng.choice([47, 47, 47, 111, 39, 45])]))
                refs.setdefault(v, set()).add("g1")
                for w in workers(v):
                    if rng.random() < 0.85:
                        ops.append(("att", [w, "g1", 0]))

    def someref(u):
        c = sorted(refs.get(u, ()))
        return rng.choice(c) if c else None

    def do_pub(u=None):
        u = u or rng.choice(users)
        ref = someref(u)
        if ref:
            ops.append(("pub", [rng.choice(workers(u)), ref]))
            pubs[key(u, ref)] = pubs.get(key(u, ref), 0) + 1
    for _ in range(rng.randint(1, 2)):
        do_pub()
    clogged = []

    def do_clog():
        u = rng.choice(users)
        sx = rng.choice(workers(u) * 3 + [3 * u - 2])
        if sx not in clogged and len(clogged) < 2:
            ops.append(("clog", [sx]))
            clogged.append(sx)
    do_clog()
    for i in range(rng.randint(9, 22)):
        r = rng.random()
        # the acting user: mostly one who has a clogged session (its other session acts), else anybody
        cu = [sc.sessions[x] for x in clogged]
        u = rng.choice(cu) if cu and rng.random() < 0.55 else rng.choice(users)
        free = [w for w in workers(u) if w not in clogged] or workers(u)
        sx = rng.choice(free)
        ref = someref(u)
        if r < 0.10:
            do_clog()
        elif r < 0.16 and clogged:
            ops.append(("unclog", [clogged.pop(rng.randrange(len(clogged)))]))
        elif ref is None:
            continue
        elif r < 0.44:
            top = pubs.get(key(u, ref), 0)
            what = rng.choice(["kp", "read", "read", "recv", "recv"])
            seq = 0 if what == "kp" else rng.choice([top, top, top, max(1, top - 1), 1, top + 1])
            ops.append(("note", [sx, ref, what, seq]))
        elif r < 0.58:
            do_pub(u)
        elif r < 0.63:
            ops.append(("delmsg", [sx, ref, rng.choice([0, 1])]))
        elif r < 0.79 and r >= 0.63 and clogged and not perm_while_clogged:
            do_pub(u)
        elif r < 0.71:
            if ref[0] == "p":
                ops.append(("want", [sx, ref, rng.choice([23, 31, 31, 29])]))
            elif u == owner:
                ops.append(("want", [sx, ref, rng.choice([255, 247, 253])]))
            else:
                ops.append(("want", [sx, ref, rng.choice([47, 39, 45, 47])]))
        elif r < 0.76 and owner is not None:
            v = rng.choice(users)
            if v != owner:
                ops.append(("given", [rng.choice([w for w in workers(owner) if w not in clogged] or workers(owner)), "g1", v,
                            rng.choice([47, 47, 39, 45, 111, 46])]))
        elif r < 0.79 and owner is not None and ref[0] == "g":
            v = rng.choice(users)
            if v != owner:
                ops.append(("evict" if rng.random() < 0.6 else "unsub", [3 * owner - 1, "g1", v] if rng.random() < 0.6 else [sx, "g1"]))
                if ops[-1][0] == "evict" and len(ops[-1][1]) == 2:
                    ops[-1] = ("unsub", ops[-1][1])
                elif ops[-1][0] == "unsub" and len(ops[-1][1]) == 3:
                    ops[-1] = ("evict", ops[-1][1])
        elif r < 0.88:
            ops.append(("att", [rng.choice(workers(u)), ref, 0]))
        elif r < 0.93:
            ops.append(("det", [sx, ref]))
        elif r < 0.96:
            d = rng.choice(clogged) if clogged and rng.random() < 0.6 else rng.choice(workers(u) + [3 * u - 2])
            ops.append(("disc", [d]))
            if d in clogged:
                clogged.remove(d)
        elif r < 0.98:
            ops.append(("att" if rng.random() < 0.5 else "det", [3 * u - 2, "me"] + ([0] if False else [])))
            if ops[-1][0] == "att":
                ops[-1] = ("att", [3 * u - 2, "me", 0])
        else:
            ops.append(("unloadall", []))
    for c in clogged:
        if rng.random() < 0.5:
            ops.append(("unclog", [c]))
    ops.append(("unloadall", []))
    sc.ops = ops
    return sc


def gen_rm(rng, sid):
    """Removal histories: p2p and group subscriptions deleted (leave unsub / del sub / ban) while the topic stays
    loaded, then notes, publishes, message deletions, permission changes, attach/detach by the remaining members.
    User u has session 2u-1 (observer: mostly on 'me' only) and 2u (worker: attaches to the topics)."""
    sc = Scn(sid)
    sc.profile = "rm"
    n = rng.choice([2, 3, 3, 4])
    sc.nusers = n
    users = list(range(1, n + 1))
    for u in users:
        sc.sessions[2 * u - 1] = u
        sc.sessions[2 * u] = u
    ops = []
    for u in users:
        if rng.random() < 0.85:
            ops.append(("att", [2 * u - 1, "me", 0]))
    kind = rng.choice(["p2p", "p2p", "grp", "grp", "both", "both"])
    pubs = {}        # topic key -> messages published so far (upper bound of lastID)
    refs = {}        # user -> topic refs the user takes part in
    owner = None
    unsubbed = set()  # p2p pairs one side of which asked to unsubscribe: no {set sub user} there afterwards (findings/C10.md #5)

    def key(u, ref):
        return ref if ref[0] == "g" else "p%d.%d" % (min(u, int(ref[1:])), max(u, int(ref[1:])))
    if kind in ("p2p", "both"):
        for _ in range(rng.choice([1, 1, 2])):
            a, b = rng.sample(users, 2)
            ops.append(("att", [2 * a, "p%d" % b, 0]))
            refs.setdefault(a, set()).add("p%d" % b)
            refs.setdefault(b, set()).add("p%d" % a)
            if rng.random() < 0.8:
                ops.append(("att", [2 * b, "p%d" % a, 0]))
            r = rng.random()
            if r < 0.15:
                ops.append(("want", [2 * b, "p%d" % a, rng.choice([23, 29])]))
    if kind in ("grp", "both"):
        owner = rng.choice(users)
        ops.append(("new", [2 * owner, 1, 0]))
        refs.setdefault(owner, set()).add("g1")
        for v in users:
            if v != owner and rng.random() < 0.85:
                ops.append(("given", [2 * owner, "g1", v, rng.choice([47, 47, 47, 47, 39, 45, 111])]))
                refs.setdefault(v, set()).add("g1")
                if rng.random() < 0.7:
                    ops.append(("att", [2 * v, "g1", 0]))

    def someref(u):
        c = sorted(refs.get(u, ()))
        return rng.choice(c) if c else None

    def do_pub():
        u = rng.choice(users)
        ref = someref(u)
        if ref:
            ops.append(("pub", [2 * u, ref]))
            pubs[key(u, ref)] = pubs.get(key(u, ref), 0) + 1
    for _ in range(rng.randint(1, 3)):
        do_pub()

    def removal():
        u = rng.choice(users)
        ref = someref(u)
        if not ref:
            return
        gone = None      # (user, the user's name for the topic) just removed or banned
        if ref[0] == "p":
            v = int(ref[1:])
            if rng.random() < 0.75:
                ops.append(("unsub", [rng.choice([2 * u, 2 * u, 2 * u - 1]), ref]))
                unsubbed.add(key(u, ref))
                gone = (u, ref)
            elif key(u, ref) not in unsubbed:
                ops.append(("given", [2 * u, ref, v, rng.choice([30, 22, 0])]))      # ban / ban+mute the partner
                gone = (v, "p%d" % u)
        else:
            r = rng.random()
            v = rng.choice(users)
            if r < 0.4 and u != owner:
                ops.append(("unsub", [2 * u, "g1"]))
                gone = (u, "g1")
            elif r < 0.75 and v != owner:
                ops.append(("evict", [2 * owner, "g1", v]))
                gone = (v, "g1")
            elif v != owner:
                ops.append(("given", [2 * owner, "g1", v, rng.choice([46, 14, 0, 6])]))
                gone = (v, "g1")
        if gone and rng.random() < 0.5:
            # the removed user's (now detached) session acknowledges receipt: routed by the hub to the loaded topic
            w, gref = gone
            top = pubs.get(key(w, gref), 0)
            ops.append(("note", [rng.choice([2 * w, 2 * w - 1]), gref, "recv", rng.choice([top, top, max(1, top - 1), top + 1])]))
    nrem = 0
    for i in range(rng.randint(10, 24)):
        r = rng.random()
        u = rng.choice(users)
        ref = someref(u)
        if (r < 0.14 or (i == 1 and nrem == 0)):
            removal()
            nrem += 1
        elif ref is None:
            continue
        elif r < 0.44:
            top = pubs.get(key(u, ref), 0)
            what = rng.choice(["kp", "kp", "read", "read", "recv"])
            seq = 0 if what == "kp" else rng.choice([top, top, max(1, top - 1), top + 1, 1])
            ops.append(("note", [rng.choice([2 * u, 2 * u, 2 * u, 2 * u - 1]), ref, what, seq]))
        elif r < 0.54:
            do_pub()
        elif r < 0.62:
            ops.append(("delmsg", [2 * u, ref, rng.choice([0, 1])]))
        elif r < 0.72:
            if ref[0] == "p":
                ops.append(("want", [2 * u, ref, rng.choice([23, 31, 31, 29, 19])]))
            elif u == owner:
                ops.append(("want", [2 * u, ref, rng.choice([255, 247, 253])]))
            else:
                ops.append(("want", [2 * u, ref, rng.choice([47, 39, 45, 35, 47])]))
        elif r < 0.78 and ref[0] == "g" and owner is not None:
            v = rng.choice(users)
            if v != owner:
                ops.append(("given", [2 * owner, "g1", v, rng.choice([47, 47, 39, 45, 111, 63])]))
                refs.setdefault(v, set()).add("g1")
        elif r < 0.88:
            sx = rng.choice([2 * u, 2 * u, 2 * u - 1])
            ops.append(("att", [sx, rng.choice([ref, ref, "me"]), 0]))
        elif r < 0.95:
            sx = rng.choice([2 * u, 2 * u, 2 * u - 1])
            ops.append(("det", [sx, rng.choice([ref, ref, "me"])]))
        elif r < 0.97:
            ops.append(("disc", [rng.choice([2 * u, 2 * u - 1])]))
        else:
            ops.append(("unloadall", []))
    ops.append(("unloadall", []))
    sc.ops = ops
    return sc


def gen_scn(rng, sid, profile):
    sc = Scn(sid)
    sc.profile = profile
    n = rng.choice([2, 3, 3, 4])
    sc.nusers = n
    s = 0
    for u in range(1, n + 1):
        for _ in range(rng.choice([1, 2, 2])):
            s += 1
            sc.sessions[s] = u
    sids = sorted(sc.sessions)
    ops = []
    bkgp = 0.25 if profile == "bkg" else 0.0

    def bkg():
        return 1 if rng.random() < bkgp else 0
    groups = {}     # k -> owner sid
    p2ps = set()
    zombies = []
    # skeleton: most users come online, some p2p topics and a group with invitations
    for sx in sids:
        if rng.random() < 0.7:
            ops.append(("att", [sx, "me", bkg()]))
    for _ in range(rng.choice([1, 1, 2])):
        sx = rng.choice(sids)
        v = rng.choice([u for u in range(1, n + 1) if u != sc.sessions[sx]])
        ops.append(("att", [sx, "p%d" % v, bkg()]))
        p2ps.add((sc.sessions[sx], v))
    ngr = 0
    for _ in range(rng.choice([0, 1, 1, 2])):
        ngr += 1
        sx = rng.choice(sids)
        groups[ngr] = sx
        ops.append(("new", [sx, ngr, bkg()]))
        for v in range(1, n + 1):
            if v != sc.sessions[sx] and rng.random() < 0.7:
                ops.append(("given", [sx, "g%d" % ngr, v, rng.choice([47, 47, 47, 39, 3])]))

    def anyref(sx):
        u = sc.sessions[sx]
        c = ["me"] + ["p%d" % v for v in range(1, n + 1) if v != u] + ["g%d" % k for k in groups]
        return rng.choice(c)

    def topicref(sx):
        u = sc.sessions[sx]
        c = ["p%d" % v for v in range(1, n + 1) if v != u] * 2 + ["g%d" % k for k in groups] * 3
        return rng.choice(c) if c else "p%d" % (u % n + 1)
    for _ in range(rng.randint(8, 26)):
        sx = rng.choice(sids)
        u = sc.sessions[sx]
        r = rng.random()
        if r < 0.22:
            ops.append(("att", [sx, anyref(sx), bkg()]))
        elif r < 0.36:
            ops.append(("det", [sx, anyref(sx)]))
        elif r < 0.42:
            ops.append(("disc", [sx]))
        elif r < 0.52:
            ref = topicref(sx)
            own = ref[0] == "g" and sc.sessions[groups[int(ref[1:])]] == u
            if ref[0] == "p":
                ops.append(("want", [sx, ref, rng.choice([23, 31, 23, 31, 19])]))
            elif own:
                ops.append(("want", [sx, ref, rng.choice([255, 247])]))
            else:
                ops.append(("want", [sx, ref, rng.choice([47, 39, 47, 39, 35, 3, 11])]))
        elif r < 0.62 and groups:
            k = rng.choice(sorted(groups))
            gs = groups[k] if rng.random() < 0.8 else sx
            v = rng.choice([x for x in range(1, n + 1) if x != sc.sessions[gs]])
            ops.append(("given", [gs, "g%d" % k, v, rng.choice([47, 47, 39, 46, 0, 3, 63])]))
        elif r < 0.66:
            ref = topicref(sx)
            if ref[0] == "p":
                ops.append(("given", [sx, ref, int(ref[1:]), rng.choice([31, 23, 31, 23])]))
        elif r < 0.71 and groups:
            k = rng.choice(sorted(groups))
            gs = groups[k] if rng.random() < 0.8 else sx
            ops.append(("evict", [gs, "g%d" % k, rng.randint(1, n)]))
        elif r < 0.75 and groups:
            ops.append(("unsub", [sx, "g%d" % rng.choice(sorted(groups))]))
        elif r < 0.83:
            ops.append(("pub", [sx, topicref(sx)]))
        elif r < 0.88 and profile == "bkg":
            ops.append(("fg", [sx]))
        elif r < 0.93:
            ops.append(("unloadall", []))
        elif r < 0.97:
            c = ["m%d" % x for x in range(1, n + 1)] + ["g%d" % k for k in groups]
            t = rng.choice(c)
            if profile == "race" and rng.random() < 0.7:
                ops.append(("unload1", [t]))
                zombies.append(t)
            else:
                ops.append(("unload", [t]))
        elif zombies:
            ops.append(("unload2", [zombies.pop(0)]))
        if profile == "race" and zombies and rng.random() < 0.25:
            ops.append(("unload2", [zombies.pop(0)]))
    for z in zombies:
        ops.append(("unload2", [z]))
    ops.append(("unloadall", []))
    sc.ops = ops
    return sc


# ---------------------------------------------------------------------------

def parse_blocks(lines):
    res = {}
    cur = None
    op = None
    for ln in lines:
        if not ln:
            continue
        w = ln.split(" ", 1)
        if w[0] == "scn":
            cur = []
            res[w[1]] = cur
        elif w[0] == "op":
            op = {"frames": [], "ctrl": [], "state": [], "hang": None, "skipped": False, "unmodelled": False}
            cur.append(op)
        elif w[0] == "end":
            cur = None
        elif op is None:
            continue
        elif w[0] == "F":
            op["frames"].append(w[1])
        elif w[0] == "C":
            op["ctrl"].append(w[1])
        elif w[0] in ("T", "PS", "U", "R"):
            op["state"].append(ln)
        elif w[0] == "HANG":
            op["hang"] = ln
        elif w[0] == "skipped":
            op["skipped"] = True
        elif w[0] == "unmodelled":
            op["unmodelled"] = True
    return res


def run_impl(ctx, scns, tag="t"):
    fin = os.path.join(ctx.work, "scn_%s.in" % tag)
    fout = os.path.join(ctx.work, "scn_%s.impl" % tag)
    with open(fin, "w") as f:
        for sc in scns:
            f.write("\n".join(sc.lines()) + "\n")
    if os.path.exists(fout):
        os.remove(fout)
    env = dict(vlib.GOENV, VERIF_IN=fin, VERIF_OUT=fout)
    p = subprocess.run([os.path.join(vlib.BUILD, "maindrv.test"), "-test.run", "^TestVerifPres$", "-test.count=1", "-test.timeout=3000s"],
                       stdout=subprocess.PIPE, stderr=subprocess.STDOUT, env=env, cwd=os.path.join(vlib.REPO, "server"), timeout=3400)
    out = p.stdout.decode("utf8", "replace")
    lines = open(fout).read().split("\n") if os.path.exists(fout) else []
    log = "\n".join(l for l in out.split("\n") if not (len(l) > 3 and l[0] in "IWE" and l[1:3] == "20"))
    return p.returncode, parse_blocks(lines), log


def run_model(ctx, scns):
    lines = []
    for sc in scns:
        lines += sc.lines()
    rc, out, err = ctx.run_model("pres", lines)
    flat = []
    for o in out:
        flat += o.split("\n")
    return rc, parse_blocks(flat), err


class View:
    """One quiescent point of the implementation (or the model)."""
    def __init__(self, b):
        self.b = b
        self.frames = [tuple(f.split()) for f in b["frames"]]     # (sid, top, src, what)
        self.topics = {}    # token -> dict(marked, online, sess=[(sid,user,bkg)])
        self.ps = {}        # (me token, contact) -> (on, en)
        self.users = {}     # (topic, user) -> dict(want, given, online)
        self.rows = {}      # (topic, user) -> dict(want, given, deleted)
        for l in b["state"]:
            w = l.split()
            kv = dict(x.split("=", 1) for x in w if "=" in x)
            if w[0] == "T":
                sess = [] if kv["sess"] == "-" else [tuple(int(y) for y in x.split(":")) for x in kv["sess"].split(",")]
                self.topics[w[1]] = dict(marked=kv["marked"] == "1", online=int(kv.get("online", "0")), sess=sess)
            elif w[0] == "PS":
                self.ps[(w[1], w[2])] = (kv["on"] == "1", kv["en"] == "1")
            elif w[0] == "U":
                self.users[(w[1], int(w[2]))] = dict(want=int(kv["want"]), given=int(kv["given"]), online=int(kv["online"]))
            elif w[0] == "R":
                self.rows[(w[1], int(w[2]))] = dict(want=int(kv["want"]), given=int(kv["given"]), deleted=kv["deleted"] == "1")

    def eff(self, topic, user):
        r = self.rows.get((topic, user))
        if r is None or r["deleted"]:
            return None
        return r["want"] & r["given"]


def rel_topic(u, contact):
    """the topic that relates user u to the contact token (u<v> or g<k>)"""
    if contact[0] == "g":
        return contact
    v = int(contact[1:])
    return "p%d.%d" % (min(u, v), max(u, v))


def monitor(sc, views):
    """C10 evaluated on the implementation's trace.  -> [(law, op index, detail)]"""
    res = []
    had_bkg = set()
    recreated = set()   # p2p topics in which a deleted subscription was re-created by the OTHER party's request
    prev = None
    for k, v in enumerate(views):
        kind, args = sc.ops[k]
        if kind in ("att", "new") and len(args) > 2 and str(args[2]) == "1":
            had_bkg.add(sc.sessions[int(args[0])])
        if kind in ("att", "given") and prev is not None:
            actor = sc.sessions[int(args[0])]
            for (tk, u), r in v.rows.items():
                if tk[0] == "p" and u != actor and not r["deleted"] and prev.rows.get((tk, u), {}).get("deleted"):
                    recreated.add(tk)
        # ---- online count = attached foreground sessions, never negative
        for tk, t in v.topics.items():
            if tk[0] == "m":
                pairs = [(int(tk[1:]), t["online"])]
            else:
                pairs = [(u, d["online"]) for (tt, u), d in v.users.items() if tt == tk]
            for u, online in pairs:
                fgc = sum(1 for (_, su, bk) in t["sess"] if su == u and bk == 0)
                if online != fgc or online < 0:
                    law = "online-count-background-session" if u in had_bkg else "online-count"
                    res.append((law, k, "topic %s user %d: online=%d, attached foreground sessions=%d" % (tk, u, online, fgc)))
        # ---- no leak: every {pres} other than acs/gone reaches only non-deleted subscribers with P; an {info}
        #      (what = i:read|i:recv|i:kp) on 'me' only non-deleted subscribers with P and R, inside the topic only
        #      attached sessions of non-deleted subscribers with R.  The subscription is the STORED row of the topic
        #      behind the frame's source, before or after the operation (removed = row deleted or absent).
        for sid, top, src, what in v.frames:
            u = sc.sessions[int(sid)]
            if what in ("acs", "gone"):
                continue
            info = what.startswith("i:")
            if top == "me":
                if src[0] not in "ug":
                    continue
                tk = rel_topic(u, src)
                need = (P | R) if info else P
            else:
                tk = rel_topic(u, top) if top[0] == "u" else top
                need = R if info else P
            kindname = "{info %s" % what[2:] if info else "{pres %s" % what
            modes = [x.eff(tk, u) for x in (prev, v) if x is not None]
            givens = [x.rows.get((tk, u), {}).get("given") for x in (prev, v) if x is not None and x.eff(tk, u) is not None]
            if all(m is None for m in modes):
                res.append(("no-leak-removed-user" if info else "no-leak", k,
                            "session %s of user %d got %s src=%s} on %s but the user has no (non-deleted) subscription to %s "
                            "before or after this operation" % (sid, u, kindname, src, top, tk)))
            elif not any(m is not None and (m & need) == need for m in modes):
                res.append(("no-leak-info" if info else "no-leak", k,
                            "session %s of user %d got %s src=%s} on %s; effective mode in %s before/after: %s, needed bits %d"
                            % (sid, u, kindname, src, top, tk, modes, need)))
            elif givens and all(g is not None and not g & J for g in givens):
                res.append(("pres-to-banned-user", k, "session %s of user %d got %s src=%s} on %s while banned in %s (given=%s has no J)"
                            % (sid, u, kindname, src, top, tk, givens)))
        # ---- convergence, evaluated when every idle topic has just been unloaded
        if kind == "unloadall" and not any(t["sess"] == [] for t in v.topics.values()):
            race = any(o[0] in ("unload1", "unload2") for o in sc.ops[:k + 1])
            for (tk, u), r in v.rows.items():
                if r["deleted"] or not (r["want"] & r["given"]) & P:
                    continue
                me = "m%d" % u
                if me not in v.topics or not v.topics[me]["marked"]:
                    continue
                if tk[0] == "p":
                    a, b = (int(x) for x in tk[1:].split("."))
                    o = b if u == a else a
                    eo = v.eff(tk, o)
                    if eo is None or not eo & P:
                        continue
                    truth = ("m%d" % o) in v.topics and any(bk == 0 for (_, _, bk) in v.topics["m%d" % o]["sess"])
                    contact = "u%d" % o
                else:
                    truth = tk in v.topics and len(v.topics[tk]["sess"]) > 0
                    contact = tk
                told, en = v.ps.get((me, contact), (False, None))
                if told != truth:
                    if race:
                        law = "converges-unload-race"
                    elif had_bkg:   # any background session so far (e.g. a group whose only attached session is background)
                        law = "converges-background-session"
                    elif tk[0] == "p" and tk in recreated:
                        law = "converges-p2p-resubscribed-by-partner"
                    elif tk[0] == "p" and en is False:
                        law = "converges-p2p-contact-left-disabled"
                    else:
                        law = "converges-p2p" if tk[0] == "p" else "converges-grp"
                    res.append((law, k, "user %d was last told %s about %s (entry enabled=%s) but the truth is %s"
                                % (u, "online" if told else "offline", contact, en, "online" if truth else "offline")))
        prev = v
    return res


def diff_op(i, m):
    d = []
    fi = sorted(f for f in i["frames"] if not f.endswith(" acs"))
    fm = sorted(m["frames"])
    if fi != fm:
        d.append(("frames", [x for x in fi if x not in fm], [x for x in fm if x not in fi]))
    if sorted(i["ctrl"]) != sorted(m["ctrl"]):
        d.append(("ctrl", i["ctrl"], m["ctrl"]))
    if i["state"] != m["state"]:
        d.append(("state", [x for x in i["state"] if x not in m["state"]], [x for x in m["state"] if x not in i["state"]]))
    return d


RULE = ("fixed handshake/finding/removal histories first, then seeded random multi-user histories: 2-4 users, 1-2 sessions each, "
        "'me' + p2p + 0-2 group topics; ops att/det/disc (foreground; a share with background sessions, field set by the driver), "
        "fg, mute/unmute ({set sub mode} by the user or the admin), invite/ban/evict/unsubscribe, pub, idle unload of any topic "
        "(the topic's own kill timer fired), a share with the two halves of handleTopicTimeout separated; 10-35 ops; profile rm "
        "(removals): per user one observer session on 'me' and one worker session, p2p pairs and a group with members of assorted "
        "modes (muted, P without R, D), some messages, then p2p/group subscriptions deleted ({leave unsub}, {del sub}, ban by "
        "{set sub user mode} without J) while the topic stays loaded, followed by {note kp|read|recv} with sequence numbers around "
        "lastID, publishes, hard/soft message deletions, mute/un-mute, re-invitations, re-subscription of the removed user, "
        "attach/detach/disconnect of the remaining members; profile stuck (slow consumers): per user an observer session on 'me' "
        "and two foreground worker sessions on p2p/group topics; up to two sessions clogged at a time (drain loop stopped, "
        "Session.send filled to capacity: every queueOut fails, the next fan-out of a topic detaches the session), then "
        "{note read|recv|kp}, {pub}, {del msg}, permission changes, evict/unsub, detach/re-attach/disconnect/unclog by the "
        "user's other session and by other users; after each op: "
        "sound quiescence, then pres frames per session, perSubs tables, perUser.online, attached sessions, stored rows; "
        "non-trivial = at least one {pres} frame delivered; distinct by (ops, frames)")


def run(ctx):
    ctx.coq_props(())
    vlib.proof_violation(ctx)
    ok, out = ctx.build_runner()
    if not ok:
        ctx.violation("proof", "extraction-broken", "model extraction/runner build failed: " + out[-1500:],
                      {"theorem_or_obligation": "extraction of the model"})
        ctx.finish()
    ok, out = ctx.build_main()
    if not ok:
        ctx.violation("corr", "harness-build-broken", "package-main driver no longer builds against /repo: " + out[-1500:],
                      {"correspondence": "build of harness/overlay against /repo/server"})
        ctx.finish()
    quick = ctx.tier == "quick"
    if ctx.replay:
        rp = json.load(open(ctx.replay))["replay"]
        sc = Scn("replay")
        sc.nusers = int(re.search(r"users=(\d+)", rp["head"][0]).group(1))
        sc.sessions = {int(l.split()[1]): int(l.split()[2]) for l in rp["head"][1:]}
        sc.ops = [(o[0], o[1]) for o in rp["ops"]]
        scns = [sc]
    else:
        scns = fixed_cases()
        total = 400 if quick else 6000
        for prof, share in (("fg", 0.7), ("bkg", 0.15), ("race", 0.15)):
            for i in range(int(total * share)):
                scns.append(gen_scn(ctx.rng, "%s%d" % (prof, i), prof))
        for i in range(200 if quick else 4000):
            scns.append(gen_rm(ctx.rng, "rm%d" % i))
        for i in range(150 if quick else 3000):
            scns.append(gen_stuck(ctx.rng, "stuck%d" % i))
    t0 = time.time()
    rc, impl, log = run_impl(ctx, scns)
    t_impl = time.time() - t0
    if rc != 0 or any(sc.id not in impl or len(impl[sc.id]) != len(sc.ops) for sc in scns):
        bad = next((sc for sc in scns if sc.id not in impl or len(impl[sc.id]) != len(sc.ops)), None)
        ctx.violation("monitor", "server-crashed", "the server process died or stopped answering while running scenario %s: %s"
                      % (bad.id if bad else "?", log[-1500:]),
                      {"head": bad.head if bad else [], "ops": bad.ops if bad else [], "log": log[-4000:]})
        ctx.finish()
    rc, model, err = run_model(ctx, scns)
    if rc != 0:
        ctx.violation("proof", "runner-crashed", "model runner failed: " + err[-1500:], {"theorem_or_obligation": "model runner"})
        ctx.finish()

    def mon(sc, blocks):
        res = monitor(sc, [View(b) for b in blocks])
        for k, b in enumerate(blocks):
            if b["hang"]:
                res.append(("hang", k, b["hang"]))
        return res
    fails = {}
    for sc in scns:
        for law, k, detail in mon(sc, impl[sc.id]):
            fails.setdefault(law, []).append((sc, k, detail))
    nshrunk = 0
    for law, lst in fails.items():
        sc, k, detail = min(lst, key=lambda x: x[1])
        small = sc.clone(sc.ops[:k + 1])
        if nshrunk < 6 and not ctx.replay and len(small.ops) > 4:
            nshrunk += 1

            def still_bad(c, law=law):
                rc2, im2, _ = run_impl(ctx, [c], tag="shrink")
                return rc2 == 0 and c.id in im2 and len(im2[c.id]) == len(c.ops) and any(l == law for l, _, _ in mon(c, im2[c.id]))
            small = T.shrink(ctx, small, still_bad, budget=8 if quick else 60)
        ctx.violation("monitor", law, "law %s fails on the implementation's trace (%d cases this run): %s" % (law, len(lst), detail),
                      {"head": small.head, "ops": [list(o) for o in small.ops], "law": law, "detail": detail, "cases_failing": len(lst)})
    mism = []
    unmodelled = 0
    unmodelled_acs = 0
    for sc in scns:
        io, mo = impl[sc.id], model.get(sc.id, [])
        if len(io) != len(mo):
            mism.append((sc, -1, [("shape", len(io), len(mo))]))
            continue
        clogged_now = set()
        for k in range(len(io)):
            if mo[k]["unmodelled"]:
                # the model does not follow this code path (manifest): the comparison of this history stops here;
                # the laws above were evaluated on the whole implementation trace all the same
                unmodelled += 1
                break
            kd, ar = sc.ops[k]
            if kd == "clog" and not io[k]["skipped"]:
                clogged_now.add(str(ar[0]))
            elif kd in ("unclog", "disc"):
                clogged_now.discard(str(ar[0]))
            elif clogged_now and kd in ("want", "given", "evict", "unsub", "new") and not io[k]["skipped"]:
                # a permission change / removal fans out {pres acs}, whose emission the model does not follow: with a
                # clogged session around it decides who is dropped next - same rule as above
                unmodelled_acs += 1
                break
            d = diff_op(io[k], mo[k])
            if d:
                mism.append((sc, k, d))
                break
    searched = 0
    if mism and not ctx.replay:
        # failing-input search: a disagreement about the presence tables is usually latent (a contact cached as online
        # while it is disabled, a counter that is off by one).  Continue the disagreeing histories with the requests
        # that make such state visible - every permission change of the prefix is undone (un-mute, un-ban: want /
        # given back to the full mode of the topic kind), then every idle topic is unloaded so that the convergence
        # law is evaluated - and judge the IMPLEMENTATION's trace of the longer history with the laws.
        known = set(f["key"] for f in ctx.load_findings() if f["property"] == ctx.pid)
        cands = []
        for sc0, k0, _ in sorted(mism, key=lambda x: x[1])[:16]:
            if k0 < 0:
                continue
            pre = list(sc0.ops[:k0 + 1])
            undo = []
            for kd, ar in pre:
                if kd == "want" and len(ar) >= 3:
                    undo.append(("want", [ar[0], ar[1], 31 if str(ar[1]).startswith("p") else 47]))
                elif kd == "given" and len(ar) >= 4:
                    undo.append(("given", [ar[0], ar[1], ar[2], 31 if str(ar[1]).startswith("p") else 47]))
            for j, suffix in enumerate(([("unloadall", [])], undo + [("unloadall", [])], undo + [("unloadall", [])] + undo + [("unloadall", [])])):
                c = sc0.clone(pre + suffix)
                c.id = "%s_s%d" % (sc0.id, j)
                cands.append(c)
        if cands:
            rc3, im3, _ = run_impl(ctx, cands, tag="search")
            searched = len(cands)
            if rc3 == 0:
                for c in cands:
                    if c.id not in im3 or len(im3[c.id]) != len(c.ops):
                        continue
                    for law, kk, detail in mon(c, im3[c.id]):
                        if law in known or law in fails:
                            continue
                        fails.setdefault(law, []).append((c, kk, detail))
                        ctx.violation("monitor", law, "law %s fails on the implementation's trace of a history found by continuing a "
                                      "correspondence mismatch (permission changes undone, idle topics unloaded): %s" % (law, detail),
                                      {"head": c.head, "ops": [list(o) for o in c.ops[:kk + 1]], "law": law, "detail": detail,
                                       "found_by": "search from a correspondence mismatch"})
                        break
    if mism:
        sc, k, d = min(mism, key=lambda x: x[1])
        base = sc.clone(sc.ops[:k + 1]) if k >= 0 else sc
        unknown = [l for l in fails if not any(f["key"] == l for f in ctx.load_findings() if f["property"] == ctx.pid)]
        if not unknown:
            ctx.violation("corr", "correspondence-" + (sc.ops[k][0] if k >= 0 else "shape"),
                          "model and implementation disagree on %d of %d scenarios (tables, counters, attached sessions, rows, pres frames per "
                          "session at quiescence); first: op %d %s: %s; no law failure other than the recorded findings on this run's %d histories"
                          % (len(mism), len(scns), k, sc.ops[k] if k >= 0 else "", json.dumps(d, default=str)[:900], len(scns)),
                          {"correspondence": "C10 projection at quiescence", "head": base.head, "ops": [list(o) for o in base.ops], "diff": d})
    nt = set()
    kinds, whats = {}, {}
    nops = 0
    conv_points = 0
    for sc in scns:
        sig = []
        has_frame = False
        for k, o in enumerate(sc.ops):
            nops += 1
            kinds[o[0]] = kinds.get(o[0], 0) + 1
            b = impl[sc.id][k]
            for f in b["frames"]:
                has_frame = True
                wh = f.split()[-1]
                whats[wh] = whats.get(wh, 0) + 1
            if o[0] == "unloadall":
                conv_points += 1
            sig.append((o, tuple(b["frames"])))
        if has_frame:
            nt.add(hash(repr(sig)))
    ctx.coverage.update({
        "evaluations": len(scns), "distinct_nontrivial": len(nt), "rule": RULE, "operations_executed": nops,
        "convergence_points_evaluated": conv_points,
        "samples": [{"head": sc.head, "ops": sc.ops, "impl_frames_last_op": impl[sc.id][-1]["frames"] if impl[sc.id] else []} for sc in scns[:2]],
        "traces_validated_against_impl": len(scns), "correspondence_mismatches": len(mism),
        "histories_compared_up_to_an_unmodelled_request": unmodelled,
        "histories_compared_up_to_a_permission_change_with_a_clogged_session": unmodelled_acs,
        "monitor_failures": {l: len(v) for l, v in fails.items()},
        "input_distribution": {"op_kinds": kinds, "pres_frames_by_what": whats,
                               "profiles": {p: sum(1 for s in scns if s.profile == p) for p in ("fixed", "fg", "bkg", "race", "rm", "stuck")}},
        "impl_wall_s": round(t_impl, 1),
        "trusted_base": [
            "harness/overlay/server/zz_verif_c10_test.go (+ helpers of zz_verif_topic_test.go): drives the real Hub/Topic/Session code through "
            "Session.dispatchRaw; quiescence by goroutine-state snapshot; idle unload = the topic's own killTimer reset to 1ns (real "
            "handleTopicTimeout); idle timers of other topics pushed to 1h at quiescence; Session.background set directly (nothing in "
            "this code base sets it for ordinary sessions); unload1/unload2 replay one legal schedule of handleTopicTimeout by hand",
            "clog/unclog (zz_verif_c10_test.go pClogC10x): the session's drain loop is stopped through its own stop channel and "
            "Session.send is filled to capacity with dummy frames; while clogged a goroutine still serves Session.detach (one legal "
            "schedule of a slow writer); a clogged session sends no requests; the comparison of a history stops at the first "
            "permission change executed while a session is clogged ({pres acs} emission not modelled), the laws do not",
            "harness/overlay/server/db/memverif: in-memory adapter (store contract modelled, not verified)",
            "tools/props/c10.py monitors: python restatement of C10 on the implementation's dumps",
            "model scope (coq/Sys/Pres.v): users with default access JRWPAS, groups with defacs JRWPS, {pres} what in {on, off, ?unkn, ?none, "
            "gone, msg, del, read, recv}, {info} what in {read, recv, kp}; the acs/upd/ua/tags notifications go through the same filter "
            "functions (modelled, theorem c10_no_leak covers every `what`) but their emission sites are not modelled; requests the model "
            "answers with `unmodelled` (comparison of that history stops there, monitors continue): attach to an unloaded p2p topic with a "
            "deleted side, {set sub user} re-inviting a deleted p2p party; no channels, no cluster/proxy sessions, no 'me' self-mute; "
            "handlers atomic; LOSSLESS NETWORK: no hub/topic queue overflow (hub.go select-default drops excluded by hypothesis)"],
    })
    ctx.finish(extra_assumptions=["lossless network: no queue of hub.routeSrv / Topic.serverMsg overflows",
                                  "one handler at a time per topic; per-(sender,destination) FIFO"])
