"""C02, part c: the fan-out with BACKGROUND sessions and STORE FAULTS on the permission-changing
requests that precede a publish.  Model coq/Sys/FanoutBkgC02.v (theorems c02c_* of coq/Props/PropC02.v),
driver TestVerifFanoutC02c (harness/overlay/server/zz_verif_c02c_test.go), model runner c02c.
Called from tools/props/c02.py run(); scenario language, views and base laws of c02.py are reused.

What is added to the base flow:
  * connections declared `b` carry Session.background (set when the connection object is created),
    `fg` fires the connection's background timer, `attm` is {sub set.sub.mode};
  * a request kind `<kind>!<k>` runs with memverif.SetFault(k) armed (the k-th adapter call fails);
  * every block carries the adapter calls made, perUser.online, the background flags and the live
    STORED subscription rows; all of it is compared with the extracted model;
  * the recipient-set and push laws are evaluated against the STORED grants as well as the cached
    ones, and no copy may go to a session of a user whose grant or request lacks J (banned /
    self-banned), whatever the online counter says."""
import json
import os
import subprocess
import time
import vlib
from props import c02 as B

J, R, W, P, A, S, D, O = B.J, B.R, B.W, B.P, B.A, B.S, B.D, B.O
FAULTABLE = ("att", "attm", "want", "given", "evict", "unsub")
BYPASS_LAW = "copy-to-banned-user-attached-by-unchanged-resubscription"


def base_kind(kind):
    return kind.split("!")[0]


def fault_of(kind):
    return int(kind.split("!")[1]) if "!" in kind else 0


class XScn(B.Scn):
    def __init__(self, sid, kind="grp", users=4, defacs=47):
        B.Scn.__init__(self, sid, kind, users, defacs)
        self.bkg = set()

    @property
    def head(self):
        h = ["scn %s kind=%s users=%d defacs=%d" % (self.id, self.kind, self.users, self.defacs)]
        h += ["subrow %d want=%d given=%d%s" % (u, w, g, " chan=1" if c else "") for u, w, g, c in self.rows]
        h.append("mk")
        h += ["sess %d %d%s%s" % (s, u, " r" if r else "", " b" if s in self.bkg else "") for s, (u, r) in sorted(self.sessions.items())]
        return h

    @staticmethod
    def opline(k, args):
        a = " ".join(str(x) for x in args)
        if "!" in k:
            return ("fop %d %s %s" % (fault_of(k), base_kind(k), a)).rstrip()
        return ("op %s %s" % (k, a)).rstrip()

    def lines(self):
        return self.head + [self.opline(k, args) for k, args in self.ops] + ["end"]

    def clone(self, ops, sid=None):
        s = XScn(sid or self.id, self.kind, self.users, self.defacs)
        s.rows = list(self.rows)
        s.sessions = dict(self.sessions)
        s.bkg = set(self.bkg)
        s.ops = [(k, list(a)) for k, a in ops]
        return s

    def replay(self):
        rp = B.Scn.replay(self)
        rp["part"] = "c02c"
        rp["bkg"] = sorted(self.bkg)
        rp["lines"] = self.lines()
        return rp

    @staticmethod
    def from_replay(rp, sid):
        s = XScn(sid, rp["kind"], rp["users"], rp["defacs"])
        s.rows = [tuple(r) for r in rp["rows"]]
        s.sessions = {int(k): tuple(v) for k, v in rp["sessions"].items()}
        s.bkg = set(int(x) for x in rp.get("bkg", []))
        s.ops = [(k, list(a)) for k, a in rp["ops"]]
        return s


class XView(B.View):
    def __init__(self, lines):
        B.View.__init__(self, lines)
        self.calls = []
        self.online = {}
        self.bkg = set()
        self.rows = {}     # u -> (want, given): live stored rows under the topic's own name
        self.crows = {}    # u -> want: live stored rows under chnXXX
        for ln in lines:
            w = ln.split()
            if not w:
                continue
            if w[0] == "calls":
                self.calls = [] if w[1] == "-" else w[1].split(",")
            elif w[0] == "O":
                self.online[int(w[1])] = int(w[2])
            elif w[0] == "B":
                self.bkg.add(int(w[1]))
            elif w[0] == "R":
                d = B.kvs(ln)
                self.rows[int(w[1])] = (d["want"], d["given"])
            elif w[0] == "C":
                self.crows[int(w[1])] = B.kvs(ln)["want"]

    def seff(self, u):
        r = self.rows.get(u)
        if r is None or not r[0].isdigit() or not r[1].isdigit():
            return 0
        return int(r[0]) & int(r[1])

    def xstate_key(self):
        return (self.state_key(), tuple(sorted(self.online.items())), tuple(sorted(self.bkg)), tuple(sorted(self.rows.items())),
                tuple(sorted(self.crows.items())))


def parse_blocks(lines):
    res, cur, blk = {}, None, None
    for ln in lines:
        if not ln:
            continue
        w = ln.split(" ", 1)
        if w[0] == "scn":
            cur = []
            res[w[1]] = cur
            blk = None
        elif w[0] == "op":
            blk = []
            cur.append(blk)
        elif w[0] == "end":
            cur, blk = None, None
        elif blk is not None:
            blk.append(ln)
    return {k: [XView(b) for b in v] for k, v in res.items()}


class XModelProc:
    """the extracted extended model stepped interactively (model-guided generation)"""
    def __init__(self):
        self.p = subprocess.Popen([os.path.join(vlib.BUILD, "runner"), "c02c"], stdin=subprocess.PIPE, stdout=subprocess.PIPE,
                                  text=True, bufsize=1)

    def start(self, sc):
        for l in sc.head:
            self.p.stdin.write(l + "\n")
            self.p.stdin.flush()
            self.p.stdout.readline()

    def op(self, kind, args):
        self.p.stdin.write(XScn.opline(kind, args) + "\n\n")
        self.p.stdin.flush()
        out = []
        while True:
            l = self.p.stdout.readline()
            if l == "" or l == "\n":
                break
            out.append(l.rstrip("\n"))
        return XView(out[1:])

    def close(self):
        try:
            self.p.stdin.close()
            self.p.wait(timeout=5)
        except Exception:
            self.p.kill()


# ---------------------------------------------------------------------------
# generation

BAN_MODES = [46, 46, 46, 14, 6, 38, 0, 42]            # no J; most keep R
GRANT_FLIPS = [R, R, R, P, P, W, R | P]


def gen_setup(rng, sid):
    b = B.gen_setup(rng, sid)
    sc = XScn(sid, b.kind, b.users, b.defacs)
    sc.rows = b.rows
    sc.sessions = b.sessions
    for s, (u, root) in sc.sessions.items():
        if not root and rng.random() < 0.38:
            sc.bkg.add(s)
    return sc


def attached_of(v, u):
    return [s for s, (uu, ch) in v.att.items() if uu == u]


def gen_op(rng, sc, g, v, kind):
    sess = sc.sessions
    att = [s for s in sess if s in v.att and s not in g.clogged]
    nsp = B.normal_spelling(sc)
    hosts = [s for s in att if not sess[s][1] and not v.att[s][1] and v.eff(v.att[s][0]) & (A | O)]
    plain = [u for u, p in v.users.items() if not p["deleted"] and not p["chan"]]
    if kind == "fg":
        pool = [s for s in sess if s in v.bkg]
        if not pool:
            return None
        hot = [s for s in pool if s in v.att]
        return ("fg", [rng.choice(hot) if hot and rng.random() < 0.8 else rng.choice(pool)])
    if kind == "attm":
        o = B.gen_op(rng, sc, g, v, "att")
        if o is None:
            return None
        s = o[1][0]
        u = o[1][1] or sess[s][0]
        if sc.kind == "p2p":
            m = rng.choice([31, 23, 29, 27, 30, 21, 31])
        elif u == 1:
            m = rng.choice([255, 247, 253, 251, 255])
        else:
            m = rng.choice(B.WANT_CHOICES + [47, 47, 11, 3])
        return ("attm", o[1] + [m])
    if kind == "ban":
        # an admin takes J away from a user who is attached - preferably only through background sessions
        if not hosts:
            return None
        s = rng.choice(hosts)
        h = v.att[s][0]
        tg = [u for u in plain if u != h and u != 1 and attached_of(v, u)]
        if not tg:
            return None
        only_bkg = [u for u in tg if all(x in v.bkg for x in attached_of(v, u))]
        u = rng.choice(only_bkg) if only_bkg and rng.random() < 0.75 else rng.choice(tg)
        m = rng.choice([30, 30, 22, 14]) if sc.kind == "p2p" else rng.choice(BAN_MODES)
        return ("given", [s, 0, nsp, u, m])
    if kind == "selfban":
        pool = [s for s in att if not sess[s][1] and not v.att[s][1] and v.att[s][0] != 1 and v.att[s][0] in plain]
        if not pool:
            return None
        hot = [s for s in pool if all(x in v.bkg for x in attached_of(v, v.att[s][0]))]
        s = rng.choice(hot) if hot and rng.random() < 0.75 else rng.choice(pool)
        m = rng.choice([30, 30, 22, 14]) if sc.kind == "p2p" else rng.choice(BAN_MODES)
        return ("want", [s, 0, nsp, m])
    if kind == "regrant":
        # another user's grant changed in R / P / W: the request the fault plans aim at
        if not hosts:
            return None
        s = rng.choice(hosts)
        h = v.att[s][0]
        tg = [u for u in plain if u != h and u != 1]
        if not tg:
            return None
        hot = [u for u in tg if attached_of(v, u)]
        u = rng.choice(hot) if hot and rng.random() < 0.7 else rng.choice(tg)
        gv = v.users[u]["given"]
        gv = int(gv) if gv.isdigit() else 47
        m = gv ^ rng.choice(GRANT_FLIPS)
        if sc.kind == "p2p":
            m = (m & 31) | A
        return ("given", [s, 0, nsp, u, m & 127])
    if kind == "rewant":
        pool = [s for s in att if not sess[s][1] and not v.att[s][1] and v.att[s][0] != 1 and v.att[s][0] in plain]
        if not pool:
            return None
        s = rng.choice(pool)
        w = v.users[v.att[s][0]]["want"]
        w = int(w) if w.isdigit() else 47
        m = (w ^ rng.choice(GRANT_FLIPS)) & 127
        if sc.kind == "p2p":
            m = (m & 31) | A
        return ("want", [s, 0, nsp, m | J])
    return B.gen_op(rng, sc, g, v, kind)


KINDS = [("pub", 34), ("att", 12), ("attm", 5), ("det", 6), ("want", 4), ("given", 4), ("regrant", 9), ("rewant", 5), ("ban", 7),
         ("selfban", 4), ("evict", 3), ("unsub", 3), ("disc", 3), ("fg", 4), ("clog", 2)]


def gen_tail(rng, mp, sc, g, v, n):
    queue = []
    for _ in range(n):
        if queue:
            kind = queue.pop(0)
        else:
            kind = B.wchoice(rng, KINDS)
        o = None
        for _try in range(4 if kind in ("pub", "unclog") else 1):
            o = gen_op(rng, sc, g, v, kind)
            if o is not None and not (g.clogged and kind == "pub" and int(o[1][0]) in g.clogged):
                break
        if o is None:
            if g.clogged and not queue:
                queue = ["unclog"]
            continue
        k, args = o
        if k == "clog":
            queue = ["pub", "unclog"]
        # a fault plan on a permission-changing request (never before the topic is loaded, never on a publish)
        if k in FAULTABLE and sc.ops and not g.clogged:
            pf = 0.45 if kind in ("regrant", "rewant") else 0.22
            ks = [1, 1, 1, 1, 2, 2, 3]
            if k in ("att", "attm"):
                au = int(args[1]) or sc.sessions[int(args[0])][0]
                if au not in v.users:
                    # a new subscriber / a channel reader's first connection: SubscriptionGet, then TopicShare
                    pf, ks = 0.45, [1, 2, 2, 2, 3]
            if rng.random() < pf:
                k = "%s!%d" % (k, rng.choice(ks))
        v2 = mp.op(k, args)
        if v2.oos:
            continue
        sc.ops.append((k, args))
        if k == "clog":
            g.clogged.add(args[0])
        elif k in ("unclog", "disc"):
            g.clogged.discard(args[0])
        if base_kind(k) in ("given", "want", "attm", "evict", "unsub") and not queue and not g.clogged and rng.random() < 0.7:
            queue = ["pub"]
        v = v2
    return v


def gen_scn(rng, mp, sid, nops=(8, 24)):
    sc = gen_setup(rng, sid)
    mp.start(sc)
    g = B.Gen(sc)
    v = XView([])
    v.bkg = set(sc.bkg)
    order = list(sc.sessions)
    rng.shuffle(order)
    # the owner's first connection first, without a fault: it loads the topic
    first = [s for s in order if sc.sessions[s][0] == 1 and not sc.sessions[s][1]]
    if first:
        order.remove(first[0])
        order.insert(0, first[0])
    for s in order:
        if rng.random() < 0.8 or not sc.ops:
            o = B.gen_op(rng, sc, g, v, "att", force=s)
            if o is None:
                continue
            if sc.ops:
                # a fault plan on the attach itself: aimed at new subscribers (SubscriptionGet, TopicShare)
                au = int(o[1][1]) or sc.sessions[s][0]
                pf, ks = (0.3, [1, 2, 2, 2, 3]) if au not in v.users else (0.06, [1, 1, 2])
                if rng.random() < pf:
                    o = ("att!%d" % rng.choice(ks), o[1])
            v2 = mp.op(*o)
            if v2.oos:
                continue
            sc.ops.append(o)
            v = v2
    gen_tail(rng, mp, sc, g, v, rng.randint(*nops))
    return sc


def gen_scenarios(ctx, count, prefix="x"):
    mp = XModelProc()
    try:
        return [gen_scn(ctx.rng, mp, "%s%d" % (prefix, i)) for i in range(count)]
    finally:
        mp.close()


def extend(ctx, base, count, prefix="xn"):
    mp = XModelProc()
    res = []
    try:
        for j in range(count):
            sc = base.clone(base.ops, "%s%d" % (prefix, j))
            mp.start(sc)
            g = B.Gen(sc)
            v = XView([])
            for k, a in sc.ops:
                v = mp.op(k, a)
                if k == "clog":
                    g.clogged.add(a[0])
                elif k in ("unclog", "disc"):
                    g.clogged.discard(a[0])
            gen_tail(ctx.rng, mp, sc, g, v, ctx.rng.randint(1, 6))
            res.append(sc)
    finally:
        mp.close()
    return res


def run_impl(ctx, scns, tag="x"):
    fin = os.path.join(ctx.work, "xscn_%s.in" % tag)
    fout = os.path.join(ctx.work, "xscn_%s.impl" % tag)
    with open(fin, "w") as f:
        for sc in scns:
            f.write("\n".join(sc.lines()) + "\n")
    if os.path.exists(fout):
        os.remove(fout)
    env = dict(vlib.GOENV, VERIF_IN=fin, VERIF_OUT=fout)
    p = subprocess.run([os.path.join(vlib.BUILD, "maindrv.test"), "-test.run", "^TestVerifFanoutC02c$", "-test.count=1", "-test.timeout=3000s"],
                       stdout=subprocess.PIPE, stderr=subprocess.STDOUT, env=env, cwd=os.path.join(vlib.REPO, "server"), timeout=3400)
    out = p.stdout.decode("utf8", "replace")
    lines = open(fout).read().split("\n") if os.path.exists(fout) else []
    log = "\n".join(l for l in out.split("\n") if not (len(l) > 3 and l[0] in "IWE" and l[1:3] == "20"))
    return p.returncode, parse_blocks(lines), log


def run_model(ctx, scns):
    lines = []
    for sc in scns:
        lines += sc.lines()
    rc, out, err = ctx.run_model("c02c", lines)
    flat = []
    for o in out:
        flat += o.split("\n")
    return rc, parse_blocks(flat), err


# ---------------------------------------------------------------------------
# the added laws, on the IMPLEMENTATION's trace.  "Stored grant" = the live subscription row of the
# user under the topic's own name as the adapter holds it after the previous request.

def mode_int(x):
    return int(x) if x.isdigit() else 0


def monitor_x(sc, views):
    res = []
    prev = XView([])
    clogged = set()
    bypass = set()     # connections attached by a {sub} although their user's want / given lacks J (recorded finding)
    sess = sc.sessions

    def fail(law, k, detail):
        res.append((law, k, detail))

    for k, v in enumerate(views):
        kind, args = sc.ops[k]
        bk = base_kind(kind)
        s = int(args[0])
        if v.skipped:
            prev = B.carry(prev, v)
            continue
        if bk in ("att", "attm") and v.loaded:
            if s in v.att and s not in prev.att:
                u = v.att[s][0]
                pu = v.users.get(u)
                if pu is not None and not pu["chan"] and not (mode_int(pu["want"]) & mode_int(pu["given"]) & J):
                    bypass.add(s)
        if v.loaded:
            bypass = set(x for x in bypass if x in v.att)
        if bk == "clog":
            clogged.add(s)
        elif bk in ("unclog", "disc"):
            clogged.discard(s)
        if bk != "pub":
            prev = B.carry(prev, v)
            continue
        hasid, noecho = int(args[4]) == 1, int(args[3]) == 1
        acks = [(c, q) for x, c, mine, q in v.ctrl if x == s and mine]
        accepted = any(c == 202 for c, q in acks) if hasid else (v.lastid == prev.lastid + 1 and bool(prev.loaded))
        if not accepted or not prev.loaded:
            prev = B.carry(prev, v)
            continue
        pre = prev
        got = {}
        for x, d in v.data:
            got.setdefault(x, []).append(d)
        for x, ds in got.items():
            if x not in pre.att:
                continue
            u, ch = pre.att[x]
            pu = pre.users.get(u)
            if ch or pu is None or pu["deleted"] or pu["chan"]:
                continue          # channel subscriptions / readers: their grant is the chnXXX row (always JRP); removed users: base law
            cw, cg = mode_int(pu["want"]), mode_int(pu["given"])
            row = pre.rows.get(u)
            sw, sg = (mode_int(row[0]), mode_int(row[1])) if row else (0, 0)
            if not (cw & J) or not (cg & J) or (row is not None and (not (sw & J) or not (sg & J))):
                law = BYPASS_LAW if x in bypass else ("copy-to-banned-user" if not (cg & sg & J if row else cg & J) else "copy-to-self-banned-user")
                fail(law, k, "connection %d (background=%s) acts for user %d whose subscription lacks J (cached want/given %d/%d, stored %s): "
                     "it should have been detached, received %s" % (x, x in pre.bkg, u, cw, cg, "%d/%d" % (sw, sg) if row else "no live row", ds[0]))
            if not (sw & sg & R):
                fail("copy-to-readless-user-by-stored-grant", k,
                     "connection %d acts for user %d whose STORED grant (want/given %s) has no R (cached %d/%d), received %s"
                     % (x, u, "%d/%d" % (sw, sg) if row else "no live row", cw, cg, ds[0]))
        for x, (u, ch) in pre.att.items():
            if x in clogged or ch or (noecho and x == s):
                continue
            pu = pre.users.get(u)
            if pu is None or pu["deleted"] or pu["chan"]:
                continue
            if (pre.seff(u) & R) and x not in got:
                fail("eligible-reader-missed-by-stored-grant", k,
                     "connection %d (background=%s) of user %d attached at the publish, STORED grant want/given %s has R (cached %s/%s), got no copy"
                     % (x, x in pre.bkg, u, "/".join(pre.rows[u]), pu["want"], pu["given"]))
        want_to = frozenset(u for u in pre.rows if (pre.seff(u) & P) and (pre.seff(u) & R))
        for pr in v.push[:1]:
            for u in sorted(pr["to"] - want_to):
                p = pre.users.get(u)
                if p is not None and (p["chan"] or p["deleted"]):
                    continue      # base laws push-to-channel-reader / push-to-removed-user
                fail("push-to-readless-or-muted-user-by-stored-grant", k,
                     "push addressed to user %d whose STORED grant (%s) lacks R or P (cached %s)"
                     % (u, "/".join(pre.rows[u]) if u in pre.rows else "no live row", (p or {}).get("want", "-") + "/" + (p or {}).get("given", "-")))
            if want_to - pr["to"]:
                fail("push-missed-subscriber-by-stored-grant", k, "push omits subscribers %s whose STORED grant has R and P (cached: %s)"
                     % (sorted(want_to - pr["to"]), {u: (pre.users.get(u) or {}).get("given") for u in sorted(want_to - pr["to"])}))
        if not v.push and want_to:
            fail("push-missed-subscriber-by-stored-grant", k, "no push receipt; subscribers whose STORED grant has R and P: %s" % sorted(want_to))
        prev = B.carry(prev, v)
    return res


def monitor(sc, views):
    """base laws of c02.py (background sessions are attached sessions like any other) + the added ones"""
    return B.monitor(sc, views) + monitor_x(sc, views)


# ---------------------------------------------------------------------------

def proj(sc, k, v, prev_loaded):
    kind, args = sc.ops[k]
    d = B.proj(sc, k, v) if base_kind(kind) in ("pub",) or v.loaded else {}
    if base_kind(kind) != "pub" and prev_loaded:
        d["calls"] = list(v.calls)
    if v.loaded:
        d["xstate"] = v.xstate_key()
    return d


def diff_op(sc, k, iv, mv, prev_loaded):
    a, b = proj(sc, k, iv, prev_loaded), proj(sc, k, mv, prev_loaded)
    res = []
    for name in ("copies", "ack", "push", "calls", "state", "xstate"):
        if name in a and a.get(name) != b.get(name):
            res.append((name, a.get(name), b.get(name)))
    return res


def features(scns, impl):
    f = dict(scenarios=len(scns), requests=0, background_connections=0, attach_of_background_connection=0, fg_timer=0,
             publishes_accepted=0, copies=0, copies_to_background_connections=0, faulted_requests=0, faults_that_hit=0,
             ban_while_attached=0, ban_while_attached_only_in_background=0, selfban_while_attached=0,
             publish_after_failed_permission_change=0, sub_with_mode=0, overflow_of_background_connection=0)
    kinds, calls = {}, {}
    for sc in scns:
        f["background_connections"] += len(sc.bkg)
        prev = XView([])
        failed_before = False
        for k, (kind, args) in enumerate(sc.ops):
            v = impl[sc.id][k]
            bk = base_kind(kind)
            f["requests"] += 1
            kinds[bk] = kinds.get(bk, 0) + 1
            s = int(args[0])
            if "!" in kind:
                f["faulted_requests"] += 1
            if any(c.endswith("!fail") for c in v.calls):
                f["faults_that_hit"] += 1
                failed_before = True
            if bk != "pub":
                for c in v.calls:
                    calls[c] = calls.get(c, 0) + 1
            if bk in ("att", "attm") and s in v.att and s not in prev.att and s in prev.bkg:
                f["attach_of_background_connection"] += 1
            if bk == "attm":
                f["sub_with_mode"] += 1
            if bk == "fg":
                f["fg_timer"] += 1
            if bk == "clog" and s in prev.bkg:
                f["overflow_of_background_connection"] += 1
            if bk in ("given", "want") and prev.loaded and v.loaded:
                u = int(args[3]) if bk == "given" else prev.att.get(s, (0, False))[0]
                pb, pa = prev.users.get(u), v.users.get(u)
                if pb and pa and not pb["chan"]:
                    jb = mode_int(pb["want"]) & mode_int(pb["given"]) & J
                    ja = mode_int(pa["want"]) & mode_int(pa["given"]) & J
                    mine = [x for x, (uu, ch) in prev.att.items() if uu == u]
                    if jb and not ja and mine:
                        f["ban_while_attached" if bk == "given" else "selfban_while_attached"] += 1
                        if all(x in prev.bkg for x in mine):
                            f["ban_while_attached_only_in_background"] += 1
            if bk == "pub" and (v.data or v.push):
                f["publishes_accepted"] += 1
                f["copies"] += len(v.data)
                f["copies_to_background_connections"] += sum(1 for x, d in v.data if x in prev.bkg)
                if failed_before:
                    f["publish_after_failed_permission_change"] += 1
            prev = B.carry(prev, v)
    f["request_kinds"] = kinds
    f["adapter_calls_of_permission_requests"] = calls
    return f


CORPUS = [
    # plain group: user 2 attached only through a background connection is banned with R kept, then a publish;
    # a failed removal and a failed grant of R, then publishes; self-ban in background; timer; unsubscribe under a fault
    ("grp", 7, 47, [(1, 255, 255, 0), (2, 47, 47, 0), (3, 47, 47, 0), (4, 47, 45, 0), (5, 47, 47, 0)],
     {1: (1, 0), 2: (2, 0), 3: (3, 0), 4: (4, 0), 5: (5, 0), 6: (6, 0), 7: (3, 0)}, [2, 5, 6],
     [("att", [1, 0, "g"]), ("att", [2, 0, "g"]), ("att", [3, 0, "g"]), ("att", [4, 0, "g"]), ("att", [5, 0, "g"]),
      ("pub", [1, 0, "g", 0, 1, 101, "-"]), ("given", [1, 0, "g", 2, 46]), ("pub", [1, 0, "g", 0, 1, 102, "-"]),
      ("given!1", [1, 0, "g", 3, 45]), ("pub", [1, 0, "g", 0, 1, 103, "-"]), ("given!1", [1, 0, "g", 4, 47]),
      ("pub", [1, 0, "g", 1, 1, 104, "-"]), ("want", [5, 0, "g", 46]), ("pub", [1, 0, "g", 0, 1, 105, "-"]),
      ("att!2", [6, 0, "g"]), ("attm", [6, 0, "g", 39]), ("fg", [6]), ("att", [7, 0, "g"]), ("unsub!1", [3, 0, "g"]),
      ("pub", [1, 0, "g", 0, 1, 106, "-"]), ("unsub", [3, 0, "g"]), ("evict!1", [1, 0, "g", 6]), ("pub", [1, 0, "g", 0, 1, 107, "-"]),
      ("given", [1, 0, "g", 4, 47]), ("want!1", [4, 0, "g", 45]), ("pub", [1, 0, "g", 0, 1, 108, "-"]), ("disc", [2])]),
    # p2p: the peer attached in background is banned by the other participant (R kept); failed grant changes
    ("p2p", 4, 0, [(1, 31, 31, 0), (2, 31, 31, 0)], {1: (1, 0), 2: (2, 0), 3: (2, 0), 4: (1, 0)}, [2, 4],
     [("att", [1, 0, "u"]), ("att", [2, 0, "u"]), ("pub", [1, 0, "u", 0, 1, 101, "-"]), ("given!1", [1, 0, "u", 2, 29]),
      ("pub", [1, 0, "u", 0, 1, 102, "-"]), ("given", [1, 0, "u", 2, 30]), ("pub", [1, 0, "u", 0, 1, 103, "-"]),
      ("att", [3, 0, "u"]), ("given", [1, 0, "u", 2, 31]), ("att", [3, 0, "u"]), ("att", [4, 0, "u"]), ("want", [4, 0, "u", 30]),
      ("pub", [3, 0, "u", 0, 1, 104, "-"])]),
    # channel-enabled group: background subscriber next to channel readers; failed own mode change
    ("chn", 6, 47, [(1, 255, 255, 0), (2, 47, 47, 0), (3, 11, 11, 1)], {1: (1, 0), 2: (2, 0), 3: (3, 0), 4: (4, 0), 5: (2, 0)}, [2],
     [("att", [1, 0, "g"]), ("att", [2, 0, "g"]), ("att", [3, 0, "c"]), ("att!2", [4, 0, "c"]), ("att", [4, 0, "c"]),
      ("pub", [1, 0, "g", 0, 1, 101, "-"]), ("want!1", [2, 0, "g", 45]), ("pub", [1, 0, "g", 0, 1, 102, "-"]), ("want", [2, 0, "g", 46]),
      ("pub", [1, 0, "g", 0, 1, 103, "-"]), ("att", [5, 0, "g"]), ("pub", [1, 0, "g", 0, 1, 104, "-"])]),
]


def mk(kind, users, defacs, rows, sessions, bkg, ops, sid):
    sc = XScn(sid, kind, users, defacs)
    sc.rows = rows
    sc.sessions = sessions
    sc.bkg = set(bkg)
    sc.ops = [(k, list(a)) for k, a in ops]
    return sc


def run_part(ctx, replay=None):
    """runs the part; records violations in ctx and returns the coverage dict of the part"""
    quick = ctx.tier == "quick"
    if replay is not None:
        scns = [XScn.from_replay(replay, "replay")]
    else:
        scns = [mk(*c, sid="xc%d" % i) for i, c in enumerate(CORPUS)]
        scns += gen_scenarios(ctx, 200 if quick else 3000)
    t0 = time.time()
    rc, impl, log = run_impl(ctx, scns)
    t_impl = time.time() - t0
    bad = next((sc for sc in scns if sc.id not in impl or len(impl[sc.id]) != len(sc.ops)), None)
    if rc != 0 or bad is not None:
        ctx.violation("monitor", "server-crashed", "the server process died or stopped answering while running scenario %s (background/fault part): %s"
                      % (bad.id if bad else "?", log[-1500:]), {"scenario": bad.replay() if bad else {}, "log": log[-4000:]})
        return {"crashed": True}
    rc, model, err = run_model(ctx, scns)
    if rc != 0:
        ctx.violation("proof", "runner-crashed", "model runner c02c failed: " + err[-1500:], {"theorem_or_obligation": "model runner c02c"})
        return {"crashed": True}
    known = set(f["key"] for f in ctx.load_findings() if f["property"] == ctx.pid)
    fails = []
    for sc in scns:
        for law, k, detail in monitor(sc, impl[sc.id]):
            fails.append((sc, law, k, detail))
    seen = {}
    for sc, law, k, detail in fails:
        seen.setdefault(law, []).append((sc, k, detail))
    nshrunk = 0
    for law, lst in seen.items():
        sc, k, detail = min(lst, key=lambda x: (x[1], len(x[0].sessions)))
        small = sc.clone(sc.ops[:k + 1])
        if nshrunk < 5 and replay is None and law not in known:
            nshrunk += 1

            def still_bad(c, law=law):
                rc2, im2, _ = run_impl(ctx, [c], tag="shrink")
                return rc2 == 0 and c.id in im2 and len(im2[c.id]) == len(c.ops) and any(l == law for l, _, _ in monitor(c, im2[c.id]))
            small = B.shrink(small, still_bad, 10 if quick else 120)
            rc2, im2, _ = run_impl(ctx, [small], tag="shrink")
            dd = [d for l, _, d in monitor(small, im2.get(small.id, [])) if l == law]
            detail = dd[0] if dd else detail
        rp = small.replay()
        rp.update({"law": law, "detail": detail, "scenarios_failing": len(lst)})
        ctx.violation("monitor", law, "law %s fails on the implementation's trace (%d requests in %d scenarios this run, background/fault part): %s"
                      % (law, len(lst), len(set(x[0].id for x in lst)), detail), rp)

    mism = []
    for sc in scns:
        io, mo = impl[sc.id], model.get(sc.id, [])
        if len(io) != len(mo):
            mism.append((sc, -1, [("shape", len(io), len(mo))]))
            continue
        loaded = False
        for k in range(len(io)):
            if mo[k].oos:
                break
            d = diff_op(sc, k, io[k], mo[k], loaded)
            loaded = loaded or bool(io[k].loaded)
            if d:
                mism.append((sc, k, d))
                break
    searched = 0
    fails = [f for f in fails if f[1] not in known]
    if mism and not fails:
        sc, k, d = min(mism, key=lambda x: x[1] if x[1] >= 0 else 10 ** 6)
        base = sc.clone(sc.ops[:k + 1]) if k >= 0 else sc
        pool = [base] + (extend(ctx, base, 50 if quick else 500) if replay is None else [])
        rc2, im2, _ = run_impl(ctx, pool, tag="search")
        searched = len(pool)
        if rc2 == 0:
            for c in pool:
                if c.id in im2 and len(im2[c.id]) == len(c.ops):
                    for law, kk, detail in monitor(c, im2[c.id]):
                        if law in known:
                            continue
                        rp = c.clone(c.ops[:kk + 1]).replay()
                        rp.update({"law": law, "detail": detail, "found_by": "search near a correspondence mismatch"})
                        ctx.violation("monitor", law, "law %s fails on the implementation's trace: %s" % (law, detail), rp)
                        fails.append((c, law, kk, detail))
                        break
                if fails:
                    break
        if not fails:
            rp = base.replay()
            rp.update({"correspondence": "projection %s of C02 (background / fault part)" % d[0][0], "diff": d})
            ctx.violation("corr", "correspondence-c02c-" + str(d[0][0]),
                          "extended model (FanoutBkgC02.v) and implementation disagree on %d of %d scenarios; first (prefix): op %d %s: %s; no law failure found on %d neighbouring histories"
                          % (len(mism), len(scns), k, sc.ops[k] if k >= 0 else "", json.dumps(d, default=str)[:900], searched), rp)
    cov = features(scns, impl)
    cov.update({
        "rule": "3 hand-written histories + seeded model-guided histories (topic kinds and populations of the base flow; 38% of the ordinary connections are background connections); requests: publish / attach / {sub} with mode / leave / own mode / another user's mode / grant flipped in R,P,W (45% with a fault plan) / ban and self-ban aimed at users attached only in background / evict / unsubscribe / disconnect / background timer / stuck connection; fault plan = Fail k (k in 1..3) on attach, {sub} with mode, own mode, another user's mode, evict, unsubscribe (22%); a publish follows most permission requests",
        "traces_validated_against_impl": len(scns), "correspondence_mismatches": len(mism),
        "monitor_failures_by_law": {l: len(v) for l, v in seen.items()}, "search_pool": searched, "impl_wall_s": round(t_impl, 1),
        "projection": "base projection (copies, ack, push, perUser want/given/deleted/isChan, attached connections, lastID) + adapter calls of every non-publish request (names, failed flag) + perUser.online + background flags + live stored rows (grpXXX/p2p: want, given; chnXXX: want)",
        "samples": [sc.lines() for sc in scns[3:5]],
    })
    return cov
