"""C08, second part: description / default access / tags / public / trusted / private data.

These fields are outside the request alphabet of Sys/Topic.v; they have their own small model
coq/Sys/TopicDesc.v (theorems coq/Props/PropC08Desc.v), driver TestVerifC08Desc
(harness/overlay/server/zz_verif_c08_test.go) and runner (harness/runner/r_c08desc.ml).

run_part(ctx), called by c08.run, does on seeded histories over one group topic:
 1. model-vs-implementation correspondence (frames without {pres}, adapter call count, loaded flag,
    stored description columns, cached Topic fields);
 2. the coherence monitor on the IMPLEMENTATION's dump after every request: cached default access /
    public / trusted / tags / owner / per-user want, given, private equal what initTopicGrp +
    loadSubscribers build from the dumped rows; a rejected request (4xx/5xx) changes neither; an
    acknowledged {set desc}/{set tags} is in the store; queries change nothing;
 3. the reload differential on the real server: the same history with the topic unloaded and loaded
    back (leave all; unload; re-attach) or the process restarted before one request, every later
    {get desc}/{get tags} answer and the stored rows compared with the unperturbed run.
It never calls ctx.finish(); it returns a dict of coverage numbers."""
import json
import os
import re
import subprocess
import time
import vlib
from props import topiclib as T

QUERIES = ("getdesc", "gettags")
SETS = ("setdesc", "settags")
MODE = {0: "N", 1: "J", 2: "R", 3: "JR", 15: "JRWP", 47: "JRWPS", 63: "JRWPAS", 31: "JRWPA", 11: "JRP", 127: "JRWPASD",
        255: "JRWPASDO", 46: "RWPS", 35: "JRS"}
MAX_TAGS = 4

# laws that name one reproduced defect each (findings/C08_desc.md)
L_OFFLINE_STALE = "offline-setdesc-stale-cache"
L_PARTLY = "setdesc-partly-stored"
L_RESUB = "resubscribe-stale-private"
L_DEL_LITERAL = "offline-setdesc-del-stored-literally"
L_ACK_IGNORED = "offline-setdesc-acks-ignored-fields"


def mode_str(m):
    return "".join(c for i, c in enumerate("JRWPASDO") if m & (1 << i)) or "N"


class DScn:
    def __init__(self, sid):
        self.id = sid
        self.head = []
        self.ops = []
        self.nusers = 0
        self.sessions = {}     # sid -> (user, root)
        self.owner = 1

    def lines(self):
        return self.head + ["op %s %s %s" % (f, k, " ".join(str(a) for a in args)) if args else "op %s %s" % (f, k)
                            for f, k, args in self.ops] + ["end"]

    def clone(self, ops, vid=None):
        s = DScn(vid or self.id)
        s.head = ([re.sub(r"^scn \S+", "scn " + vid, self.head[0])] + self.head[1:]) if vid else self.head
        s.nusers, s.sessions, s.owner = self.nusers, self.sessions, self.owner
        s.ops = [(o[0], o[1], list(o[2])) for o in ops]
        return s


def from_replay(rp, sid="r0"):
    sc = DScn(sid)
    sc.head = [re.sub(r"^scn \S+", "scn " + sid, rp["head"][0])] + list(rp["head"][1:])
    sc.ops = [(o[0], o[1], list(o[2])) for o in rp["ops"]]
    for l in sc.head:
        w = l.split()
        if w[0] == "sess":
            sc.sessions[int(w[1])] = (int(w[2]), len(w) > 3 and w[3] == "1")
        elif w[0] == "user":
            sc.nusers += 1
    return sc


# ---------------------------------------------------------------------------
# generator

def tok(rng, absent=0.4, dele=0.15):
    r = rng.random()
    if r < absent:
        return 0
    if r < absent + dele:
        return 1
    return rng.randint(2, 12)


def gen_tags(rng):
    r = rng.random()
    if r < 0.08:
        return []
    if r < 0.16:
        return [0] + [rng.randint(10, 20) for _ in range(rng.randint(0, 2))]
    n = rng.choice([1, 2, 2, 3, 3, 4, 5, 6])
    res = []
    for _ in range(n):
        q = rng.random()
        if q < 0.62:
            res.append(rng.randint(10, 16))
        elif q < 0.74:
            res.append(rng.randint(2, 4))          # restricted namespace
        elif q < 0.84:
            res.append(100 + rng.randint(10, 16))  # upper case / blanks
        elif q < 0.92:
            res.append(1)                          # too short
        else:
            res.append(res[-1] if res else 12)     # duplicate
    return res


def gen_setup(rng, sid):
    sc = DScn(sid)
    n = rng.choice([2, 3, 3, 4, 4])
    sc.nusers = n
    auth = rng.choice([47, 47, 15, 63, 0, 3])
    anon = rng.choice([0, 0, 2])
    tags = sorted(set(rng.choice([3, 11, 12, 13, 14]) for _ in range(rng.choice([0, 1, 2, 3]))))
    sc.head.append("scn %s auth=%d anon=%d pub=%d tru=%d tags=%s" % (
        sid, auth, anon, rng.choice([0, 5, 6]), rng.choice([0, 0, 7]), ",".join(map(str, tags)) or "-"))
    for i in range(1, n + 1):
        sc.head.append("user %d" % i)
    sc.head.append("subrow 1 want=255 given=255 priv=%d deleted=0" % rng.choice([0, 20]))
    kinds = ["admin", "plain", "deleted", "none", "plain"]
    rng.shuffle(kinds)
    for i in range(2, n + 1):
        k = kinds[i - 2]
        if k == "admin":
            sc.head.append("subrow %d want=63 given=63 priv=%d deleted=0" % (i, rng.choice([0, 21])))
        elif k == "plain":
            sc.head.append("subrow %d want=%d given=%d priv=%d deleted=0" % (i, rng.choice([15, 47]), rng.choice([15, 47]), rng.choice([0, 22])))
        elif k == "deleted":
            sc.head.append("subrow %d want=47 given=%d priv=%d deleted=1" % (i, rng.choice([47, 15]), rng.choice([0, 23, 23])))
    s = 0
    for i in range(1, n + 1):
        for _ in range(rng.choice([1, 1, 2])):
            s += 1
            sc.sessions[s] = (i, False)
            sc.head.append("sess %d %d 0" % (s, i))
    if rng.random() < 0.5:
        s += 1
        sc.sessions[s] = (1, True)      # the owner logged in with root level (may change Trusted)
        sc.head.append("sess %d 1 1" % s)
    return sc


def gen_defacs(rng):
    def part():
        r = rng.random()
        if r < 0.3:
            return "-"
        if r < 0.38:
            return "X"
        if r < 0.45:
            return str(rng.choice([128, 175]))
        return str(rng.choice([47, 15, 63, 0, 3, 47]))
    return part() + ":" + part()


def gen_ops(rng, sc, nops, faults):
    sids = sorted(sc.sessions)
    owner_sids = [s for s in sids if sc.sessions[s][0] == 1]
    ops = []
    # most histories start with the owner attached
    if rng.random() < 0.8:
        ops.append(("N", "sub", [rng.choice(owner_sids), 0]))
    for _ in range(nops):
        r = rng.random()
        s = rng.choice(owner_sids) if rng.random() < 0.45 else rng.choice(sids)
        if r < 0.16:
            op = ("sub", [s, tok(rng, 0.6, 0.1)])
        elif r < 0.25:
            op = ("leave", [s, 1 if rng.random() < 0.35 else 0])
        elif r < 0.50:
            defacs = gen_defacs(rng) if rng.random() < 0.4 else "-"
            pub = tok(rng, 0.5)
            tru = tok(rng, 0.8, 0.05)
            priv = tok(rng, 0.45)
            if rng.random() < 0.3:
                defacs, pub, tru = "-", 0, 0           # private only (allowed to everybody)
            op = ("setdesc", [s, defacs, pub, tru, priv])
        elif r < 0.66:
            op = ("settags", [s, ",".join(map(str, gen_tags(rng))) or "-"])
        elif r < 0.80:
            op = ("getdesc", [s])
        elif r < 0.90:
            op = ("gettags", [s])
        elif r < 0.96:
            op = ("unload", [])
        else:
            op = ("restart", [])
        flt = "N"
        if faults and op[0] not in ("unload", "restart") and rng.random() < faults:
            flt = rng.choice("FFC") + str(rng.choice([1, 1, 2, 2, 3]))
        if faults and op[0] == "settags" and rng.random() < 0.3:
            flt = rng.choice(["F1", "F1", "C1"])           # the only store write of {set tags}
        if faults and op[0] == "setdesc" and op[1][2] > 1 and op[1][4] != 0 and rng.random() < 0.3:
            flt = rng.choice(["F2", "F2", "C2", "F1"])     # a fault between the topic write and the subscription write
        ops.append((flt, op[0], op[1]))
    sc.ops = ops
    return sc


def probes(sc):
    ops = []
    for s in sorted(sc.sessions):
        ops.append(("N", "getdesc", [s]))
        if sc.sessions[s][0] == 1:
            ops.append(("N", "gettags", [s]))
    return ops


# ---------------------------------------------------------------------------
# running

def run_impl(ctx, scns, tag="d"):
    fin = os.path.join(ctx.work, "dscn_%s.in" % tag)
    fout = os.path.join(ctx.work, "dscn_%s.impl" % tag)
    with open(fin, "w") as f:
        for sc in scns:
            f.write("\n".join(sc.lines()) + "\n")
    if os.path.exists(fout):
        os.remove(fout)
    env = dict(vlib.GOENV, VERIF_IN=fin, VERIF_OUT=fout)
    p = subprocess.run([os.path.join(vlib.BUILD, "maindrv.test"), "-test.run", "^TestVerifC08Desc$", "-test.count=1", "-test.timeout=3000s"],
                       stdout=subprocess.PIPE, stderr=subprocess.STDOUT, env=env, cwd=os.path.join(vlib.REPO, "server"), timeout=3400)
    out = p.stdout.decode("utf8", "replace")
    lines = open(fout, encoding="utf8", errors="replace").read().split("\n") if os.path.exists(fout) else []
    log = "\n".join(l for l in out.split("\n") if not (len(l) > 3 and l[0] in "IWE" and l[1:3] == "20"))
    return p.returncode, T.parse_blocks(lines), log


def run_model(ctx, scns):
    lines = []
    for sc in scns:
        lines += sc.lines()
    rc, out, err = ctx.run_model("c08desc", lines)
    flat = []
    for o in out:
        flat += o.split("\n")
    return rc, T.parse_blocks(flat), err


def kvs(text):
    return dict(p.split("=", 1) for p in text.split() if "=" in p)


class DView:
    def __init__(self, block):
        self.b = block
        self.frames = block["frames"]
        self.loaded = block["loaded"] == "1"
        self.calls = block["calls"] or 0
        self.topic = {}
        self.rows = []       # dicts user, want, given, priv, deleted in row order
        self.cache = {}
        self.cusers = {}
        self.csess = {}
        for l in block["store"]:
            w = l.split()
            if w[0] == "topic" and "absent" not in l:
                self.topic = kvs(l)
            elif w[0] == "sub":
                want, given = w[3].split("/")
                d = kvs(l)
                self.rows.append(dict(user=int(d["user"]), want=want, given=given, priv=d["priv"], deleted=d["deleted"] == "1"))
        for l in block["cache"]:
            w = l.split()
            if w[0] == "topic":
                self.cache = kvs(l)
            elif w[0] == "user":
                want, given = w[2].split("/")
                self.cusers[int(w[1])] = dict(want=want, given=given, priv=kvs(l)["priv"])
            elif w[0] == "sess":
                self.csess[int(w[1])] = int(kvs(l)["user"])

    def row(self, u):
        for r in self.rows:
            if r["user"] == u:
                return r
        return None


def eff(want, given):
    return "".join(c for c in "JRWPASDO" if c in want and c in given)


def reply_code(v, sid):
    for s, t in v.frames:
        if s == sid and t.startswith("ctrl ") and not t.startswith("ctrl 205"):
            return int(t.split()[1])
    return None


# the load path (initTopicGrp + loadSubscribers), restated on the dumped rows
def load_path(v):
    live = [r for r in v.rows if not r["deleted"]]
    owner = 0
    for r in live:
        if "O" in eff(r["want"], r["given"]):
            owner = r["user"]
    return dict(auth=v.topic.get("auth"), anon=v.topic.get("anon"), pub=v.topic.get("pub"), tru=v.topic.get("tru"),
                tags=v.topic.get("tags"), owner=str(owner)), {r["user"]: r for r in live}


def incoherent(v):
    d = {}
    if not v.loaded:
        return d
    if not v.topic:
        d[("topic", 0)] = "topic is loaded but has no stored row"
        return d
    t, users = load_path(v)
    for f in ("auth", "anon", "pub", "tru", "tags", "owner"):
        if v.cache.get(f) != t[f]:
            d[(f, 0)] = "cached %s=%s, the load path builds %s=%s from the stored row%s" % (
                f, v.cache.get(f), f, t[f], "s" if f == "owner" else "")
    for u in sorted(set(users) | set(v.cusers)):
        s, p = users.get(u), v.cusers.get(u)
        if s is None or p is None:
            d[("member", u)] = "user %d is %s but %s" % (u, "cached" if p else "not cached",
                                                         "has a live stored subscription" if s else "has no live stored subscription")
            continue
        for f in ("want", "given", "priv"):
            if s[f] != p[f]:
                d[(f, u)] = "user %d cached %s=%s stored %s=%s" % (u, f, p[f], f, s[f])
    return d


def seeded_row(sc, u):
    for l in sc.head:
        w = l.split()
        if w[0] == "subrow" and int(w[1]) == u:
            d = kvs(l)
            return dict(user=u, want=mode_str(int(d["want"])), given=mode_str(int(d["given"])), priv=d["priv"], deleted=d["deleted"] == "1")
    return None


def fired(fault, v):
    return fault != "N" and v.calls >= int(fault[1:])


def norm_tags(csv):
    """normalizeTags restated on tag tokens (see tag_norm in Sys/TopicDesc.v); None = nil"""
    src = [] if csv == "-" else [int(x) for x in csv.split(",")]
    src = src[:MAX_TAGS]
    src = sorted((t - 100 if t >= 100 else t) for t in src)
    if 0 in src:
        return []
    dst = []
    for t in src:
        if t < 2 or (dst and dst[-1] == t):
            continue
        dst.append(t)
    return dst or None


def tags_csv(l):
    return ",".join(map(str, l)) or "-"


def expected_after_set(tokn, before):
    return "0" if tokn == 1 else str(tokn)


def monitor(sc, views):
    """-> [(law, op index, detail, key or None)]"""
    res = []
    prev = None
    prev_inc = {}
    key_law = {}        # incoherent (field, user) -> the law that was raised when it appeared
    prev_inc_law = {}
    for k, v in enumerate(views):
        fault, kind, args = sc.ops[k]
        crashed = fault != "N" and fault[0] == "C"
        if not fired(fault, v):
            fault = "N"
        sid = args[0] if args else None
        actor = sc.sessions[sid][0] if sid in sc.sessions else None
        code = reply_code(v, sid) if sid is not None else None
        attached = prev is not None and prev.loaded and sid in prev.csess
        inc = incoherent(v)
        just_loaded = prev is None or not prev.loaded
        for key, det in inc.items():
            if key in prev_inc and prev_inc[key] == det and not just_loaded:
                continue
            fk, u = key
            law = None
            if kind == "setdesc" and not attached and fk == "priv" and u == actor and code == 200 and prev is not None and prev.loaded:
                law = L_OFFLINE_STALE
            elif kind == "setdesc" and attached and fault != "N" and code == 500 and fk in ("auth", "anon", "pub", "tru"):
                law = L_PARTLY
            elif kind == "sub" and fk == "priv" and u == actor and code == 200:
                r = prev.row(u) if prev is not None else seeded_row(sc, u)
                if r is not None and r["deleted"]:
                    law = L_RESUB
            if law is None:
                if just_loaded and kind == "sub" and fault == "N" and fk != "priv":
                    law = "load-path-desc-" + fk
                elif code is not None and 200 <= code < 300:
                    law = "ack-not-stored-desc-" + fk
                elif code is not None and code >= 400:
                    law = "reject-changes-desc-" + fk
                else:
                    law = "coherent-desc-" + fk
            key_law[key] = law
            res.append((law, k, "%s after %s %s (reply %s)" % (det, kind, args, code), key))
        key_law = {kk: l for kk, l in key_law.items() if kk in inc}
        if prev is not None and sid is not None:
            st_changed = v.b["store"] != prev.b["store"]
            ca_changed = (not crashed) and prev.loaded and v.loaded and (prev.cache, prev.cusers) != (v.cache, v.cusers)
            if code is not None and code >= 400:
                if st_changed:
                    ch = [l for l in v.b["store"] if l not in prev.b["store"]]
                    law = L_PARTLY if (kind == "setdesc" and fault != "N" and attached) else "reject-changes-desc-store"
                    res.append((law, k, "%s %s answered %d but the stored rows changed: %s" % (kind, args, code, ch[:4]), None))
                if ca_changed:
                    res.append((L_PARTLY if (kind == "setdesc" and fault != "N" and attached) else "reject-changes-desc-cache", k, "%s %s answered %d but the cached state changed: %s -> %s"
                                % (kind, args, code, (prev.cache, prev.cusers), (v.cache, v.cusers)), None))
            elif kind in QUERIES:
                if st_changed:
                    res.append(("query-changes-desc-store", k, "%s %s changed the stored rows" % (kind, args), None))
                if ca_changed:
                    res.append(("query-changes-desc-cache", k, "%s %s changed the cached state" % (kind, args), None))
            elif code == 304 and kind in SETS:
                if st_changed:
                    res.append(("not-modified-changes-desc-store", k, "%s %s answered 304 but the stored rows changed" % (kind, args), None))
            elif code == 200 and kind == "setdesc":
                # an acknowledged {set desc} is in the store
                defacs, pub, tru, priv = args[1], int(args[2]), int(args[3]), int(args[4])
                bad = []
                ignored = []
                if defacs != "-":
                    a, n = defacs.split(":")
                    for nm, part in (("auth", a), ("anon", n)):
                        if part not in ("-", "X") and v.topic.get(nm) != mode_str(int(part)):
                            (bad if attached else ignored).append("%s=%s stored %s" % (nm, mode_str(int(part)), v.topic.get(nm)))
                for nm, t_ in (("pub", pub), ("tru", tru)):
                    if t_ != 0 and v.topic.get(nm) != expected_after_set(t_, None):
                        (bad if attached else ignored).append("%s=%s stored %s" % (nm, expected_after_set(t_, None), v.topic.get(nm)))
                lit = []
                if priv != 0:
                    r = v.row(actor)
                    if r is None or r["priv"] != expected_after_set(priv, None):
                        if not attached and priv == 1 and r is not None and r["priv"] == "1":
                            lit.append("private=DEL stored as the literal string")
                        elif attached and ("priv", actor) in prev_inc and prev_inc_law.get(("priv", actor)):
                            # the request was judged against a cached private value that was already stale: same root cause
                            res.append((prev_inc_law[("priv", actor)], k,
                                        "%s %s answered 200 but was merged with the stale cached private value: stored %s"
                                        % (kind, args, r and r["priv"]), None))
                        else:
                            bad.append("priv=%s stored %s" % (expected_after_set(priv, None), r and r["priv"]))
                if bad:
                    res.append(("ack-not-stored-desc", k, "%s %s answered 200 but the store holds: %s" % (kind, args, "; ".join(bad)), None))
                if ignored:
                    res.append((L_ACK_IGNORED, k, "%s %s from a session that is not attached answered 200 but: %s" % (kind, args, "; ".join(ignored)), None))
                if lit:
                    res.append((L_DEL_LITERAL, k, "%s %s from a session that is not attached answered 200: %s" % (kind, args, lit[0]), None))
            elif code == 200 and kind == "settags":
                exp = norm_tags(args[1])
                if exp is None or v.topic.get("tags") != tags_csv(exp):
                    res.append(("ack-not-stored-tags", k, "%s %s answered 200, the normalized tags are %s but the store holds %s"
                                % (kind, args, exp, v.topic.get("tags")), None))
        prev = v
        prev_inc = inc if v.loaded else {}
        prev_inc_law = dict(key_law) if v.loaded else {}
    return res


# ---------------------------------------------------------------------------
# projection / differential

def frame_f(t):
    return not t.startswith("pres ")


def line_f(kind, l):
    return l


def answers(block):
    d = {}
    for sid, t in block["frames"]:
        if frame_f(t):
            d.setdefault(sid, []).append(t)
    return d


def reload_ops(view_before, how):
    att = sorted(view_before.csess) if view_before is not None and view_before.loaded else []
    back = [("N", "sub", [s, 0]) for s in att]
    if how == "unload":
        return [("N", "leave", [s, 0]) for s in att] + [("N", "unload", [])] + back
    return [("N", "restart", [])] + back


def variant_of(sc, views, p, how, vid):
    ins = reload_ops(views[p - 1] if p > 0 else None, how)
    return sc.clone(sc.ops[:p] + ins + sc.ops[p:], vid), len(ins)


def diff_fields(a_block, b_block, query):
    kinds, det = set(), []
    if query:
        a, b = answers(a_block), answers(b_block)
        if a != b:
            for sid in sorted(set(a) | set(b)):
                fa, fb = a.get(sid, []), b.get(sid, [])
                if fa == fb:
                    continue
                det.append(("answer to session %d" % sid, fa, fb))
                if len(fa) != len(fb):
                    kinds.add("shape")
                    continue
                for x, y in zip(fa, fb):
                    wx, wy = x.split(), y.split()
                    if wx[0] != wy[0]:
                        kinds.add("shape")
                    elif wx[0] == "desc":
                        dx, dy = kvs(x), kvs(y)
                        for f in dx:
                            if dx[f] != dy.get(f):
                                if f == "defacs" and "/" in dx[f] and "/" in dy.get(f, ""):
                                    (a1, n1), (a2, n2) = dx[f].split("/"), dy[f].split("/")
                                    if a1 != a2:
                                        kinds.add("auth")
                                    if n1 != n2:
                                        kinds.add("anon")
                                else:
                                    kinds.add({"defacs": "want", "acs": "want", "mode": "want"}.get(f, f))
                    elif wx[0] == "tags":
                        kinds.add("tags")
                    elif x != y:
                        kinds.add(wx[0])
    sa, sb = a_block["store"], b_block["store"]
    if sa != sb:
        only_a = [l for l in sa if l not in sb]
        only_b = [l for l in sb if l not in sa]
        det.append(("stored rows", only_a, only_b))
        for l in only_a + only_b:
            w = l.split()
            if w[0] == "sub":
                kinds.add("priv" if "priv=" in l else "member")
            else:
                kinds.add("store-" + w[0])
    return kinds, det


def compare_variant(sc, base_blocks, var_blocks, p, nins):
    if p > 0 and nins:
        kinds, det = diff_fields(base_blocks[p - 1], var_blocks[p + nins - 1], False)
        if kinds:
            return p - 1, kinds, det
    for k in range(p, len(sc.ops)):
        kinds, det = diff_fields(base_blocks[k], var_blocks[k + nins], sc.ops[k][1] in QUERIES)
        if kinds:
            return k, kinds, det
    return None


def active_laws(views, fails, k):
    """{field: law} for the incoherences present after request k-1 of a run, named by the law raised when they appeared"""
    if k <= 0 or k > len(views):
        return {}
    inc = incoherent(views[k - 1])
    active = {}
    for law, j, _, key in fails:
        if j < k and key is not None and key in inc:
            active.setdefault(key[0], law)
    return active


def attribute(views, fails, p, k, kinds, vviews, vfails, nins):
    """law of a differential failure: the root cause the coherence monitor raised on the unperturbed run (or on
    the perturbed one) when, right before the reload or right before the differing request, the cache is incoherent
    IN THE FIELDS THAT DIFFER (the reload only makes that defect visible); anything not explained that way is
    reload-visible-desc"""
    active = {}
    for a in (active_laws(views, fails, p), active_laws(views, fails, k), active_laws(vviews, vfails, k + nins)):
        for f, law in a.items():
            active.setdefault(f, law)
    laws = []
    for kd in sorted(kinds):
        if kd not in active:
            return "reload-visible-desc"
        laws.append(active[kd])
    return laws[0] if laws else "reload-visible-desc"


def mon(sc, blocks):
    views = [DView(b) for b in blocks]
    res = monitor(sc, views)
    for k, b in enumerate(blocks):
        if b["hang"]:
            res.append(("hang", k, b["hang"], None))
    return views, res


class Crashed(Exception):
    pass


def run_and_check(ctx, scns, tag):
    rc, impl, log = run_impl(ctx, scns, tag)
    bad = next((sc for sc in scns if sc.id not in impl or len(impl[sc.id]) != len(sc.ops)), None)
    if rc != 0 or bad is not None:
        ctx.violation("monitor", "server-crashed-desc", "the server process died or stopped answering while running description history %s: %s"
                      % (bad.id if bad else "?", log[-1500:]),
                      {"part": "desc", "head": bad.head if bad else [], "ops": bad.ops if bad else [], "log": log[-4000:]})
        raise Crashed()
    return impl


def replay_dict(sc, ops, **kw):
    d = {"part": "desc", "head": sc.head, "ops": [list(o) for o in ops]}
    d.update(kw)
    return d


def run_part(ctx, replay=None):
    quick = ctx.tier == "quick"
    rng = ctx.rng
    t_start = time.time()
    cov = {"histories": 0, "ops": 0, "perturbed_runs": 0, "laws_failing": {}, "correspondence_mismatches": 0}
    known = set(f["key"] for f in ctx.load_findings() if f["property"] == ctx.pid)
    scns = []
    replay_ins = None
    if replay is not None:
        scns = [from_replay(replay)]
        if "insert_at" in replay:
            replay_ins = (replay["insert_at"], replay.get("how", "unload"))
    else:
        cdir = os.path.join(vlib.ROOT, "corpus", "C08desc")
        if os.path.isdir(cdir):
            for f in sorted(os.listdir(cdir)):
                scns.append(from_replay(json.load(open(os.path.join(cdir, f))), "c_" + f.split(".")[0]))
        total = 60 if quick else 600
        for i in range(total):
            sc = gen_setup(rng, "d%d" % i)
            gen_ops(rng, sc, rng.randint(6, 18), 0.0 if i % 3 else 0.2)
            sc.ops = sc.ops + probes(sc)
            scns.append(sc)
    try:
        impl = run_and_check(ctx, scns, "base")
    except Crashed:
        return cov
    t_impl = time.time() - t_start
    rc, model, err = run_model(ctx, scns)
    if rc != 0:
        ctx.violation("proof", "runner-crashed", "model runner (c08desc) failed: " + err[-1500:], {"theorem_or_obligation": "model runner"})
        return cov

    # ---- coherence / reject / ack monitor on the implementation's trace
    views, fails, by_law = {}, {}, {}
    for sc in scns:
        views[sc.id], fails[sc.id] = mon(sc, impl[sc.id])
        for law, k, detail, key in fails[sc.id]:
            by_law.setdefault(law, []).append((sc, k, detail))
    nshrunk = 0
    for law, lst in sorted(by_law.items()):
        sc, k, detail = min(lst, key=lambda x: (x[1], len(x[0].ops)))
        small = sc.clone(sc.ops[:k + 1])
        if law not in known and nshrunk < 3 and replay is None:
            nshrunk += 1

            def still_bad(c, law=law):
                rc2, im2, _ = run_impl(ctx, [c], "shrink")
                return rc2 == 0 and c.id in im2 and len(im2[c.id]) == len(c.ops) and any(l == law for l, _, _, _ in mon(c, im2[c.id])[1])
            small = T.shrink(ctx, small, still_bad, budget=10 if quick else 90)
        ctx.violation("monitor", law, "law %s fails on the implementation's trace (%d requests this run): %s" % (law, len(lst), detail),
                      replay_dict(small, small.ops, law=law, detail=detail, requests_failing=len(lst)))

    # ---- correspondence
    mism = []
    for sc in scns:
        io, mo = impl[sc.id], model.get(sc.id, [])
        if len(io) != len(mo):
            mism.append((sc, -1, [("shape", len(io), len(mo))]))
            continue
        for k in range(len(io)):
            d = T.diff_op(io[k], mo[k], ("frames", "calls", "loaded", "store", "cache"), frame_f, line_f)
            if d:
                mism.append((sc, k, d))
                break
    if mism:
        sc, k, d = min(mism, key=lambda x: (x[1], len(x[0].ops)))
        kind = sc.ops[k][1] if k >= 0 else "shape"
        ctx.violation("corr", "correspondence-desc-" + kind,
                      "description model (Sys/TopicDesc.v) and implementation disagree on %d of %d histories; first (prefix): request %d %s: %s"
                      % (len(mism), len(scns), k, sc.ops[k] if k >= 0 else "", json.dumps(d, default=str)[:800]),
                      replay_dict(sc, sc.ops[:k + 1] if k >= 0 else sc.ops, correspondence="projection of C08 (description part)", diff=d))

    # ---- reload / restart differential on the real server
    variants = []
    if replay is not None:
        if replay_ins:
            c, nins = variant_of(scns[0], views[scns[0].id], replay_ins[0], replay_ins[1], "v0")
            variants.append((c, scns[0], replay_ins[0], nins, replay_ins[1]))
    else:
        n_every = 3 if quick else 120
        pick_every = set(sc.id for sc in rng.sample(scns, min(n_every, len(scns)))) | set(sc.id for sc in scns if sc.id.startswith("c_"))
        for sc in scns:
            n = len(sc.ops)
            if sc.id in pick_every:
                pos = [(p, ("unload", "restart")[(p + len(variants)) % 2] if quick else None) for p in range(1, n + 1)]
            else:
                pos = [(rng.randint(1, n), rng.choice(("unload", "unload", "restart")))]
            for p, how in pos:
                for h in ([how] if how else ("unload", "restart")):
                    c, nins = variant_of(sc, views[sc.id], p, h, "%s_%s%d" % (sc.id, h[0], p))
                    variants.append((c, sc, p, nins, h))
    dfails = {}
    t1 = time.time()
    if variants:
        vimpl = {}
        try:
            for i in range(0, len(variants), 400):
                vimpl.update(run_and_check(ctx, [v[0] for v in variants[i:i + 400]], "var"))
        except Crashed:
            return cov
        for c, sc, p, nins, how in variants:
            r = compare_variant(sc, impl[sc.id], vimpl[c.id], p, nins)
            if r is None:
                continue
            k, kinds, det = r
            vviews, vfails = mon(c, vimpl[c.id])
            law = attribute(views[sc.id], fails[sc.id], p, k, kinds, vviews, vfails, nins)
            dfails.setdefault(law, []).append((sc, p, how, k, kinds, det))
    t_var = time.time() - t1
    for law, lst in sorted(dfails.items()):
        sc, p, how, k, kinds, det = min(lst, key=lambda x: (x[3], len(x[0].ops)))
        ctx.violation("monitor", law,
                      "the real server answers differently when the topic is reloaded (%s) before request %d of this description history: first difference at request %d %s, fields %s: %s (%d perturbed runs differ this way)"
                      % (how, p, k, sc.ops[k], sorted(kinds), json.dumps(det, default=str)[:600], len(lst)),
                      replay_dict(sc, sc.ops[:k + 1], insert_at=p, how=how, law=law, fields=sorted(kinds), detail=det))

    # ---- coverage
    kinds_c, codes, flts = {}, {}, {}
    nops = 0
    acked = 0
    for sc in scns:
        acc = False
        for k, o in enumerate(sc.ops):
            nops += 1
            kinds_c[o[1]] = kinds_c.get(o[1], 0) + 1
            if o[0] != "N":
                flts[o[0]] = flts.get(o[0], 0) + 1
            for sid, t in impl[sc.id][k]["frames"]:
                if t.startswith("ctrl "):
                    cd = t.split()[1]
                    codes[cd] = codes.get(cd, 0) + 1
                    if cd == "200" and o[1] in SETS:
                        acc = True
        acked += acc
    cov.update({
        "histories": len(scns), "ops": nops + sum(len(v[0].ops) for v in variants), "perturbed_runs": len(variants),
        "histories_with_an_acknowledged_set": acked,
        "laws_failing": {k: len(v) for k, v in by_law.items()},
        "perturbed_runs_differing": {k: len(v) for k, v in dfails.items()},
        "correspondence_mismatches": len(mism),
        "op_kinds": kinds_c, "ctrl_codes": codes, "faults": flts,
        "impl_wall_s": round(t_impl, 1), "differential_wall_s": round(t_var, 1), "wall_s": round(time.time() - t_start, 1),
        "rule": "seeded histories over one group topic with stored default access / public / trusted / tags and per-user private "
                "(2-4 users x 1-2 sessions + sometimes a root session of the owner; owner, admin, plain, unsubscribed (soft-deleted row) and "
                "never-subscribed actors; {set desc} with every field combination incl. invalid / owner default access and the DEL marker, "
                "{set tags} with valid / duplicate / upper-case / too short / restricted / too many / DEL tags, {get desc}, {get tags}, {sub} with "
                "and without set.desc.private, {leave} with and without unsub, unload / restart at random positions; a third of the histories "
                "with single store faults F k / C k), each followed by {get desc} for every session and {get tags} for the owner's; each history is "
                "also run with the topic reloaded (leave all; unload; re-attach) or the process restarted before one random request "
                "(quick; before EVERY request, both ways, for %s histories)" % ("3" if quick else "120"),
        "trusted_base": [
            "harness/overlay/server/zz_verif_c08_test.go: drives the real Hub/Topic/Session code, dumps Topic.accessAuth/accessAnon/public/trusted/tags/owner/perUser at quiescence",
            "harness/overlay/server/db/memverif (+ zz_dump_desc.go): in-memory adapter written from db/mysql/adapter.go; createSubscription(undelete=true) keeps the private column as the SQL does",
            "tools/props/c08desc.py: python restatement of the load path, of normalizeTags on tag tokens and of the laws",
            "content values are opaque tokens (null, the DEL string, JSON numbers): map-valued public/private (deep merge) are not exercised"],
    })
    return cov


def replay_part(ctx, rp):
    """entry for check.py --replay of a description-part replay file (replay dict has part == 'desc')"""
    return run_part(ctx, replay=rp)
