"""C04, layer 2, requests executed ON BEHALF OF another user ({extra: {obo: <user>}}, honoured for root
sessions only): theorems c04_obo_* of coq/Props/PropC04.v over coq/Sys/TopicOboC04.v; histories with root
sessions run on the real hub/topic/session code (harness/overlay/server/zz_verif_c04x_test.go,
TestVerifC04Obo) and on the extracted model (harness/runner/r_c04obo.ml).

An op kind is written  kind@<obo>  (obo = user number, x = not a user id, 0 = the zero id) when the request
carries extra.obo.  The ACTING user of a request (msg.AsUser) is: the session's own user without extra.obo;
the named user for a root session; nobody (403) for an ordinary session naming a user; nobody (400) for a
malformed name.

Laws on the IMPLEMENTATION's trace (names = violation keys):
  all laws of tools/props/c04hist.py, evaluated with the acting user as "that same user": the history sent is
      the acting user's view (history-soft-deleted-shown, history-message-missing, history-needs-read, ...), an
      accepted deletion is the acting user's (delete-log-exact, delete-needs-permission, rows-refine-spec, ...),
      the deletion log reported is the acting user's (dellog-exact, dellog-needs-read)
  obo-needs-root           an ordinary session naming a user in extra.obo gets 403 and nothing else; no row, no
                           cached counter, no attachment changes                      (c04_obo_needs_root)
  obo-malformed            a root session with a malformed extra.obo gets 400 and nothing else, nothing changes
  obo-same-as-own-session  within a run of consecutive read requests (nothing changes in between), two attached
                           sessions acting for the same user with the same query get the same frames - a root
                           session acting for u gets what u's own session gets          (c04_obo_same_answer)
"""
import json
import os
import random
import re
import subprocess
import time
import vlib
from props import topiclib as T
from props import c04hist as H
from props.statelib import kvs, eff, View

OBO_KINDS = ("sub", "subget", "leave", "pub", "getdata", "getdel", "delmsg")


def split_kind(kind):
    if "@" in kind:
        a, b = kind.split("@", 1)
        return a, b
    return kind, None


class OScn(T.Scn):
    def __init__(self, sid):
        T.Scn.__init__(self, sid)
        self.roots = set()

    def clone(self, ops):
        s = OScn(self.id)
        s.head, s.nusers, s.sessions, s.roots = self.head, self.nusers, self.sessions, self.roots
        s.ops = list(ops)
        return s

    def plain(self):
        """the same scenario with the obo stripped from the op kinds (for the layer-2 monitor)"""
        s = OScn(self.id)
        s.head, s.nusers, s.sessions, s.roots = self.head, self.nusers, self.sessions, self.roots
        s.ops = [(f, split_kind(k)[0], a) for f, k, a in self.ops]
        return s

    def acting(self, k):
        """the user request k is executed as, None when the dispatcher refuses it"""
        f, kind, args = self.ops[k]
        _, obo = split_kind(kind)
        sid = args[0] if args else None
        if obo is None:
            return self.sessions.get(sid)
        if sid not in self.roots or obo in ("x", "0"):
            return None
        return int(obo)


def restore(sc):
    for l in sc.head:
        w = l.split()
        if w and w[0] == "sess":
            sc.sessions[int(w[1])] = int(w[2])
            if len(w) > 3 and w[3] == "r":
                sc.roots.add(int(w[1]))
        elif w and w[0] == "user":
            sc.nusers = max(sc.nusers, int(w[1]))
    return sc


# ---------------------------------------------------------------------------
# generator

def gen_scn(rng, sid, faults):
    sc = OScn(sid)
    n = rng.choice([3, 3, 4])
    sc.nusers = n
    auth = rng.choice([47, 47, 63, 127, 111, 3])
    ow = rng.choice([255, 255, 255, 191])
    sc.head.append("scn %s owner=1 auth=%d anon=0 ownerwant=%d ownergiven=255" % (sid, auth, ow))
    for i in range(1, n + 1):
        sc.head.append("user %d acc=%d" % (i, rng.choice([47, 47, 127, 111])))
    can_write = {1: True}
    subscribed = {1}
    # the last user is sometimes a pure administrator: no subscription of his own
    admin_only = n if rng.random() < 0.35 else None
    for i in range(2, n + 1):
        if i == admin_only:
            can_write[i] = bool(auth & 4)
            continue
        if rng.random() < 0.9:
            want, given = rng.choice(H.POP) if rng.random() < 0.6 else rng.choice([(47, 47), (127, 127), (47, 127)])
            sc.head.append("subrow %d want=%d given=%d" % (i, want, given))
            can_write[i] = bool(want & given & 4)
            subscribed.add(i)
        else:
            can_write[i] = bool(auth & 4)
    # sessions: one or two ordinary sessions per user (not for the pure administrator), one or two root sessions
    s = 0
    own = {}
    for i in range(1, n + 1):
        if i == admin_only:
            continue
        for _ in range(rng.choice([1, 1, 2])):
            s += 1
            sc.sessions[s] = i
            own.setdefault(i, []).append(s)
            sc.head.append("sess %d %d" % (s, i))
    root_users = [admin_only] if admin_only else [rng.choice([1, 1, 2, n])]
    if rng.random() < 0.3:
        root_users.append(rng.choice([u for u in range(1, n + 1)]))
    for u in root_users:
        s += 1
        sc.sessions[s] = u
        sc.roots.add(s)
        sc.head.append("sess %d %d r" % (s, u))
    sids = sorted(sc.sessions)
    plain = [x for x in sids if x not in sc.roots]
    roots = sorted(sc.roots)
    owner_sids = own.get(1, [])
    users = list(range(1, n + 1))
    members = [u for u in users if u != admin_only]
    ops = []
    att = set()          # ordinary sessions believed attached
    ras = {}             # root session -> the user it is believed attached as

    last = 0

    def get_opts(kind):
        if rng.random() < 0.2:
            return "-"
        if kind == "data":
            return "%d:%d:%d" % (rng.choice([0, 0, 0, 1, 2, last]), rng.choice([0, 0, 0, last + 1, last]), rng.choice([0, 0, 0, 1, 2, 200]))
        return "%d:%d:%d" % (rng.choice([0, 0, 0, 1, 2]), rng.choice([0, 0, 0, 2, 3]), rng.choice([0, 0, 0, 5]))

    def attach_op(x, obo):
        """{sub}, or {sub get="data del"}"""
        sfx = "" if obo is None else "@%d" % obo
        if rng.random() < 0.4:
            return ("N", "subget" + sfx, [x, "-", 0, get_opts("data"), get_opts("del")])
        return ("N", "sub" + sfx, [x, "-", 0])

    def root_attach(r, u):
        if r in ras:
            ops.append(("N", "leave@%d" % ras[r], [r, 0]))
            del ras[r]
        ops.append(attach_op(r, u))
        ras[r] = u

    for x in plain:
        if rng.random() < 0.9:
            ops.append(("N", "sub", [x, "-", 0]))
            att.add(x)
    for r in roots:
        # a root session attaches on behalf of somebody: itself, a member, sometimes a user without a subscription
        root_attach(r, rng.choice([sc.sessions[r]] + members + members))
    last = 0
    for _ in range(rng.randint(3, 6)):
        if rng.random() < 0.3 and roots:
            r = rng.choice(roots)
            u = rng.choice(members)
            ops.append(("N", "pub@%d" % u, [r, 100 + len(ops), 0]))
            if r in ras and can_write[u]:
                last += 1
        else:
            y = rng.choice(plain if rng.random() < 0.4 or not owner_sids else owner_sids)
            ops.append(("N", "pub", [y, 100 + len(ops), 0]))
            if y in att and can_write[sc.sessions[y]]:
                last += 1

    def read_group(kind):
        """the same query by a root session on behalf of u, by u's own session, and by neighbours"""
        u = rng.choice(members)
        if kind == "getdata":
            a = rng.choice([0, 0, 0, 1, 2, last, max(last - 1, 0), rng.randint(0, last + 1)])
            b = rng.choice([0, 0, 0, last + 1, last, rng.randint(0, last + 2)])
            q = [a, b, rng.choice([0, 0, 0, 1, 2, 3, 200])]
        else:
            q = [rng.choice([0, 0, 0, 1, 2, 3]), rng.choice([0, 0, 0, 1, 2, 3, 4]), rng.choice([0, 0, 0, 0, 5])]
        grp = []
        for r in roots:
            grp.append(("N", "%s@%d" % (kind, u), [r] + q))
            if rng.random() < 0.5:
                grp.append(("N", kind, [r] + q))                       # the root session as its own user
            if rng.random() < 0.4:
                v = rng.choice(users + [n + 1])                        # somebody else, sometimes a stranger
                grp.append(("N", "%s@%d" % (kind, v), [r] + q))
        for y in own.get(u, []):
            grp.append(("N", kind, [y] + q))
        if rng.random() < 0.3:
            grp.append(("N", kind, [rng.choice(plain)] + q))
        rng.shuffle(grp)
        ops.extend(grp)

    nops = rng.randint(8, 20)
    for _ in range(nops):
        r0 = rng.random()
        flt = "N"
        n0 = len(ops)
        if faults and rng.random() < faults:
            flt = rng.choice(["F", "F", "C"]) + str(rng.randint(1, 3))
        if r0 < 0.14:
            x = rng.choice(sorted(att)) if att and rng.random() < 0.85 else rng.choice(plain)
            f2 = "F1" if flt != "N" else "N"
            ops.append((f2, "delmsg", [x, 1 if rng.random() < 0.4 else 0, H.gen_ranges(rng, last)]))
        elif r0 < 0.32:
            r = rng.choice(roots)
            u = rng.choice(members + [sc.sessions[r]])
            f2 = "F1" if flt != "N" else "N"
            ops.append((f2, "delmsg@%d" % u, [r, 1 if rng.random() < 0.35 else 0, H.gen_ranges(rng, last)]))
        elif r0 < 0.37:
            r = rng.choice(roots)
            ops.append(("N", "delmsg", [r, 1 if rng.random() < 0.35 else 0, H.gen_ranges(rng, last)]))
        elif r0 < 0.60:
            read_group("getdata")
        elif r0 < 0.70:
            read_group("getdel")
        elif r0 < 0.74:
            # an ordinary session naming a user: refused
            x = rng.choice(plain)
            kind = rng.choice(["getdata", "getdata", "getdel", "delmsg", "pub", "sub", "leave", "subget"])
            u = rng.choice(users)
            args = {"subget": [x, "-", 0, "0:0:0", "0:0:0"], "getdata": [x, 0, 0, 0], "getdel": [x, 0, 0, 0], "delmsg": [x, rng.randint(0, 1), H.gen_ranges(rng, last)],
                    "pub": [x, 100 + len(ops), 0], "sub": [x, "-", 0], "leave": [x, rng.randint(0, 1)]}[kind]
            ops.append(("N", "%s@%d" % (kind, u), args))
        elif r0 < 0.76:
            r = rng.choice(roots)
            kind = rng.choice(["getdata", "getdel", "delmsg"])
            args = {"getdata": [r, 0, 0, 0], "getdel": [r, 0, 0, 0], "delmsg": [r, 0, H.gen_ranges(rng, last)]}[kind]
            ops.append(("N", "%s@%s" % (kind, rng.choice(["x", "0"])), args))
        elif r0 < 0.84:
            if rng.random() < 0.35 and roots:
                r = rng.choice(roots)
                u = rng.choice(members)
                ops.append((flt, "pub@%d" % u, [r, 100 + len(ops), 0]))
                if r in ras and can_write[u] and flt == "N":
                    last += 1
            else:
                x = rng.choice(plain)
                ops.append((flt, "pub", [x, 100 + len(ops), 0]))
                if x in att and can_write[sc.sessions[x]] and flt == "N":
                    last += 1
        elif r0 < 0.89:
            # permission change by an ordinary session: the owner edits a member, or a member edits himself
            if rng.random() < 0.6 and owner_sids:
                ops.append((flt, "setsub", [rng.choice(owner_sids), rng.choice(members[1:] or [0]), H.hx(rng.choice(H.MODE_EDITS))]))
            else:
                ops.append((flt, "setsub", [rng.choice(plain), 0, H.hx(rng.choice(H.MODE_EDITS))]))
        elif r0 < 0.94:
            # the root session moves to another user
            r = rng.choice(roots)
            root_attach(r, rng.choice(members + [sc.sessions[r]]))
        elif r0 < 0.97:
            x = rng.choice(plain)
            if x in att:
                ops.append(("N", "leave", [x, 1 if rng.random() < 0.3 else 0]))
                att.discard(x)
            else:
                ops.append(attach_op(x, None) if flt == "N" else (flt, "sub", [x, "-", 0]))
                att.add(x)
        else:
            ops.append(("N", "restart", []))
            att = set()
            ras.clear()
            for y in plain:
                if rng.random() < 0.8:
                    ops.append(("N", "sub", [y, "-", 0]))
                    att.add(y)
            for r in roots:
                root_attach(r, rng.choice(members))
        if any(o[0][0] == "C" for o in ops[n0:]):
            # the server process died: every attachment is gone
            att = set()
            ras.clear()
    # the end: everybody attached where possible; the history and the log of every member read through the
    # root session on his behalf and through his own session
    for y in plain:
        if y not in att and rng.random() < 0.7:
            ops.append(attach_op(y, None))
    for r in roots:
        if r not in ras:
            root_attach(r, rng.choice(members))
    for u in members:
        for kind in ("getdata", "getdel"):
            grp = [("N", "%s@%d" % (kind, u), [r, 0, 0, 0]) for r in roots] + [("N", kind, [y, 0, 0, 0]) for y in own.get(u, [])]
            rng.shuffle(grp)
            ops.extend(grp)
    # and once more through {sub get="data del"}: the root session comes back on behalf of a member, then his own sessions read
    for r in roots:
        u = rng.choice(members)
        ops.append(("N", "leave@%d" % ras[r], [r, 0]))
        ops.append(("N", "subget@%d" % u, [r, "-", 0, "0:0:0", "0:0:0"]))
        ras[r] = u
        for y in own.get(u, []):
            ops.append(("N", "getdata", [y, 0, 0, 0]))
            ops.append(("N", "getdel", [y, 0, 0, 0]))
    sc.ops = ops
    return sc


# ---------------------------------------------------------------------------
# running

def run_impl(ctx, scns, tag="o"):
    fin = os.path.join(ctx.work, "oscn_%s.in" % tag)
    fout = os.path.join(ctx.work, "oscn_%s.impl" % tag)
    with open(fin, "w") as f:
        for sc in scns:
            f.write("\n".join(sc.lines()) + "\n")
    if os.path.exists(fout):
        os.remove(fout)
    env = dict(vlib.GOENV, VERIF_IN=fin, VERIF_OUT=fout)
    p = subprocess.run([os.path.join(vlib.BUILD, "maindrv.test"), "-test.run", "^TestVerifC04Obo$", "-test.count=1", "-test.timeout=3000s"],
                       stdout=subprocess.PIPE, stderr=subprocess.STDOUT, env=env, cwd=os.path.join(vlib.REPO, "server"), timeout=3400)
    out = p.stdout.decode("utf8", "replace")
    lines = open(fout).read().split("\n") if os.path.exists(fout) else []
    log = "\n".join(l for l in out.split("\n") if not (len(l) > 3 and l[0] in "IWE" and l[1:3] == "20"))
    return p.returncode, T.parse_blocks(lines), log


def run_model(ctx, scns):
    lines = []
    for sc in scns:
        lines += sc.lines()
    rc, out, err = ctx.run_model("c04obo", lines)
    flat = []
    for o in out:
        flat += o.split("\n")
    unmodelled = {}
    cur = None
    nop = 0
    for ln in flat:
        if ln.startswith("scn "):
            cur, nop = ln.split()[1], 0
        elif ln.startswith("op "):
            nop += 1
        elif ln == "UNMODELLED" and cur is not None and cur not in unmodelled:
            unmodelled[cur] = nop - 1
    return rc, T.parse_blocks(flat), err, unmodelled


# ---------------------------------------------------------------------------
# the laws

READS = ("getdata", "getdel")


def state_key(v):
    return (H.history_rows(v), sorted(v.cusers.items(), key=lambda kv: kv[0]) if v.cusers else [], sorted(v.csess.items()), v.loaded,
            sorted((u, r["want"], r["given"], r["delid"], r["deleted"]) for u, r in v.subs.items()))


def obo_laws(sc, views, stats=None):
    res = []
    prev = None
    grp = {}            # (kind, args, acting user) -> (k, sid, frames) within a run of consecutive reads
    for k, v in enumerate(views):
        fault, kind0, args = sc.ops[k]
        kind, obo = split_kind(kind0)
        sid = args[0] if args else None
        mine = [t for s_, t in v.frames if s_ == sid]
        others = [(s_, t) for s_, t in v.frames if s_ != sid]
        act = sc.acting(k) if sid is not None else None
        if obo is not None and act is None:
            law = "obo-needs-root" if sid not in sc.roots else "obo-malformed"
            code = "403" if sid not in sc.roots else "400"
            what = "ordinary session %s of user %s sent %s with extra.obo=%s" % (sid, sc.sessions.get(sid), kind, obo) if sid not in sc.roots \
                else "root session %s sent %s with the malformed extra.obo=%s" % (sid, kind, obo)
            if mine != ["ctrl " + code] or others:
                res.append((law, k, "%s: frames %s, exactly one {ctrl %s} expected" % (what, v.frames, code)))
            elif prev is not None and state_key(v) != state_key(prev):
                res.append((law, k, "%s: refused with %s but rows / cached counters / attachments changed" % (what, code)))
        if kind in READS and fault == "N" and act is not None and prev is not None and prev.loaded and sid in prev.csess:
            key = (kind, tuple(str(a) for a in args[1:]), act)
            if key in grp:
                k0, sid0, fr0 = grp[key]
                if stats is not None and sid0 != sid:
                    stats["same_answer_pairs"] = stats.get("same_answer_pairs", 0) + 1
                if fr0 != mine:
                    res.append(("obo-same-as-own-session", k,
                                "%s %s for user %s: session %s (%s, request %d) was sent %s, session %s (%s) is sent %s - nothing changed in between"
                                % (kind, list(args[1:]), act, sid0, sess_desc(sc, sid0, k0), k0 + 1, fr0, sid, sess_desc(sc, sid, k), mine)))
            else:
                grp[key] = (k, sid, mine)
        elif kind not in READS:
            grp = {}
        prev = v
    return res


def sess_desc(sc, sid, k):
    _, obo = split_kind(sc.ops[k][1])
    if sid in sc.roots:
        return "root session of user %s%s" % (sc.sessions[sid], " on behalf of %s" % obo if obo is not None else "")
    return "own session of user %s" % sc.sessions[sid]


def expand(sc, blocks):
    """{sub get="data del"} as the three requests it stands for (c04_obo_sub_get_as_requests): the subscription with
    its reply, then - when the reply is a 200 - {get data} and {get del} with their frames; the stored rows and the
    cache after each part are those after the whole request (the reads change nothing).
    -> (scenario with the expanded ops, blocks, origin[k] = index of the original op)"""
    vs = sc.clone([])
    vb, origin = [], []
    for k, (f, kind0, args) in enumerate(sc.ops):
        kind, obo = split_kind(kind0)
        b = blocks[k]
        if kind != "subget":
            vs.ops.append((f, kind0, args))
            vb.append(b)
            origin.append(k)
            continue
        sfx = "" if obo is None else "@" + obo
        sid = args[0]
        mine = [(s_, t) for s_, t in b["frames"] if s_ == sid]
        rest = [(s_, t) for s_, t in b["frames"] if s_ != sid]
        data = [(s_, t) for s_, t in mine if t.startswith("data ") or (t.startswith("ctrl ") and "what=data" in t)]
        dl = [(s_, t) for s_, t in mine if t.startswith("del ") or (t.startswith("ctrl ") and "what=del" in t)]
        sub = [e for e in mine if e not in data and e not in dl]
        accepted = any(t.startswith("ctrl 200") for _, t in sub)
        vs.ops.append((f, "sub" + sfx, [sid, args[1], args[2]]))
        vb.append(dict(b, frames=rest + sub))
        origin.append(k)
        for part, frames, what in ((args[3], data, "getdata"), (args[4], dl, "getdel")):
            if (part != "-" and accepted) or frames:
                q = [int(x) for x in part.split(":")] if part != "-" else [0, 0, 0]
                vs.ops.append((f, what + sfx, [sid] + q))
                vb.append(dict(b, frames=frames))
                origin.append(k)
    return vs, vb, origin


def monitor(sc, blocks):
    vs, vb, origin = expand(sc, blocks)
    views = [View(b) for b in vb]
    users = sorted(set(sc.sessions.values()) | set(range(1, sc.nusers + 1)))
    res = H.monitor(vs.plain(), views, acting=vs.acting, users=users)
    res += obo_laws(vs, views)
    res = [(law, origin[k], detail) for law, k, detail in res]
    for k, b in enumerate(blocks):
        if b["hang"]:
            res.append(("hang", k, b["hang"]))
    return res


C04_OPS = H.C04_OPS


def run_obo(ctx, counts=None):
    """histories with root sessions and extra.obo -> implementation + model -> laws on the implementation's trace ->
    projection compare -> search near a mismatch; records violations and coverage in ctx (no finish)."""
    quick = ctx.tier == "quick"
    total = (counts or {}).get(ctx.tier, 90 if quick else 1500)
    scns = []
    if ctx.replay:
        rp = json.load(open(ctx.replay))
        sc = OScn(rp["replay"]["head"][0].split()[1])
        sc.head = rp["replay"]["head"]
        sc.ops = [tuple(o) for o in rp["replay"]["ops"]]
        scns = [restore(sc)]
    else:
        cdir = os.path.join(vlib.ROOT, "corpus", ctx.pid + "obo")
        if os.path.isdir(cdir):
            for f in sorted(os.listdir(cdir)):
                rp = json.load(open(os.path.join(cdir, f)))
                sc = OScn("c_" + f.split(".")[0])
                sc.head = [("scn %s " % sc.id + " ".join(rp["head"][0].split()[2:]))] + rp["head"][1:]
                sc.ops = [tuple(o) for o in rp["ops"]]
                scns.append(restore(sc))
        scns += [gen_scn(ctx.rng, "o%d" % i, 0.0) for i in range(int(total * 0.88))]
        scns += [gen_scn(ctx.rng, "of%d" % i, 0.10) for i in range(max(1, int(total * 0.12)))]
    t0 = time.time()
    rc, impl, log = run_impl(ctx, scns, tag="c04obo")
    t_impl = time.time() - t0
    if rc != 0 or any(sc.id not in impl or len(impl[sc.id]) != len(sc.ops) for sc in scns):
        bad = next((sc for sc in scns if sc.id not in impl or len(impl[sc.id]) != len(sc.ops)), None)
        ctx.violation("monitor", "server-crashed", "the server process died or stopped answering while running scenario %s: %s"
                      % (bad.id if bad else "?", log[-1500:]),
                      {"part": "obo", "head": bad.head if bad else [], "ops": bad.ops if bad else [], "log": log[-4000:]})
        return {}
    rc, model, err, unmodelled = run_model(ctx, scns)
    if rc != 0:
        ctx.violation("proof", "runner-crashed", "model runner failed: " + err[-1500:], {"theorem_or_obligation": "model runner (c04obo)"})
        return {}
    # a request outside the modelled fragment (generator's belief about the root session's attachment was wrong):
    # the scenario counts up to that request only
    cut = 0
    for sc in scns:
        if sc.id in unmodelled:
            k = unmodelled[sc.id]
            sc.ops = sc.ops[:k]
            impl[sc.id] = impl[sc.id][:k]
            model[sc.id] = model.get(sc.id, [])[:k]
            cut += 1

    fails = []
    for sc in scns:
        for law, k, detail in monitor(sc, impl[sc.id]):
            fails.append((sc, law, k, detail))
    seen = {}
    for sc, law, k, detail in fails:
        seen.setdefault(law, []).append((sc, k, detail))
    nshrunk = 0
    known = {f["key"] for f in ctx.load_findings() if f["property"] == ctx.pid}
    for law, lst in seen.items():
        sc, k, detail = min(lst, key=lambda x: x[1])
        small = sc.clone(sc.ops[:k + 1])
        if nshrunk < 3 and not ctx.replay and law not in known:
            nshrunk += 1

            def still_bad(c, law=law):
                rc2, im2, _ = run_impl(ctx, [c], tag="shrink")
                return rc2 == 0 and c.id in im2 and len(im2[c.id]) == len(c.ops) and any(l == law for l, _, _ in monitor(c, im2[c.id]))
            small = T.shrink(ctx, small, still_bad, budget=20 if quick else 120)
            rc2, im2, _ = run_impl(ctx, [small], tag="shrink")
            if rc2 == 0 and small.id in im2:
                ds = [dd for l, _, dd in monitor(small, im2[small.id]) if l == law]
                if ds:
                    detail = ds[0]
        nscn = len(set(x[0].id for x in lst))
        ctx.violation("monitor", law, "law %s fails on the implementation's trace (requests on behalf of another user; %d scenarios this run): %s"
                      % (law, nscn, detail),
                      {"part": "obo", "head": small.head, "ops": small.ops, "law": law, "detail": detail, "scenarios_failing": nscn})

    mism = []
    for sc in scns:
        io, mo = impl[sc.id], model.get(sc.id, [])
        if len(io) != len(mo):
            mism.append((sc, -1, [("shape", len(io), len(mo))]))
            continue
        for k in range(len(io)):
            kind = split_kind(sc.ops[k][1])[0]
            if kind in C04_OPS or kind == "subget" or split_kind(sc.ops[k][1])[1] is not None:
                d = T.diff_op(io[k], mo[k], ("frames", "store", "cache", "loaded"), H.frame_f, H.line_f)
            else:
                d = T.diff_op(io[k], mo[k], ("store", "cache", "loaded"), None, H.line_f)
            if d:
                mism.append((sc, k, d))
                break
    searched = 0
    if mism and not fails:
        sc, k, d = min(mism, key=lambda x: len(x[0].ops))
        base = sc.clone(sc.ops[:k + 1]) if k >= 0 else sc
        pool = []
        rng = ctx.rng
        sids = sorted(base.sessions)
        roots = sorted(base.roots)
        users = sorted(set(base.sessions.values()))
        for j in range(60 if quick else 600):
            c = base.clone(list(base.ops))
            c.id = "n%d" % j
            c.head = [re.sub(r"^scn \S+", "scn " + c.id, base.head[0])] + base.head[1:]
            extra = []
            for _ in range(rng.randint(1, 6)):
                x = rng.choice(sids)
                ob = "@%d" % rng.choice(users) if x in roots and rng.random() < 0.7 else ""
                extra.append(rng.choice([("N", "getdata" + ob, [x, 0, 0, 0]), ("N", "getdel" + ob, [x, 0, 0, 0]),
                                         ("N", "delmsg" + ob, [x, rng.randint(0, 1), H.gen_ranges(rng, 6)])]))
            c.ops = list(base.ops) + extra
            pool.append(c)
        rc2, im2, _ = run_impl(ctx, pool, tag="search")
        searched = len(pool)
        if rc2 == 0:
            for c in pool:
                if c.id in im2 and len(im2[c.id]) == len(c.ops):
                    r = monitor(c, im2[c.id])
                    if r:
                        law, kk, detail = r[0]
                        ctx.violation("monitor", law, "law %s fails on the implementation's trace: %s" % (law, detail),
                                      {"part": "obo", "head": c.head, "ops": c.ops[:kk + 1], "law": law, "detail": detail,
                                       "found_by": "search near a correspondence mismatch"})
                        fails.append((c, law, kk, detail))
                        break
        if not fails:
            ctx.violation("corr", "correspondence-obo-" + (split_kind(sc.ops[k][1])[0] if k >= 0 else "shape"),
                          "model (Sys/TopicOboC04.v) and implementation disagree on %d of %d histories with requests on behalf of another user; first (shrunk to the prefix): op %d %s: %s; no law failure found on %d neighbouring histories"
                          % (len(mism), len(scns), k, sc.ops[k] if k >= 0 else "", json.dumps(d, default=str)[:800], searched),
                          {"part": "obo", "correspondence": "projection of %s (layer 2, obo)" % ctx.pid, "head": base.head, "ops": base.ops, "diff": d})
    # coverage measured on the implementation's trace
    nt = set()
    kinds, codes = {}, {}
    nops = 0
    st = {"obo_requests": 0, "obo_by_root_executed": 0, "refused_403_not_root": 0, "refused_400_malformed": 0,
          "obo_reads_with_messages": 0, "obo_reads_differing_from_session_owner_view": 0, "obo_deletes_accepted": 0,
          "same_answer_pairs": 0, "root_own_requests": 0}
    for sc in scns:
        sig = []
        views = None
        for k, o in enumerate(sc.ops):
            nops += 1
            kind, obo = split_kind(o[1])
            kinds[o[1].split("@")[0] + ("@" if obo is not None else "")] = kinds.get(o[1].split("@")[0] + ("@" if obo is not None else ""), 0) + 1
            b = impl[sc.id][k]
            sid = o[2][0] if o[2] else None
            mine = [t for s_, t in b["frames"] if s_ == sid]
            for t in mine:
                if t.startswith("ctrl "):
                    c = t.split()[1]
                    codes[c] = codes.get(c, 0) + 1
            if obo is not None:
                st["obo_requests"] += 1
                a = sc.acting(k)
                if a is None:
                    st["refused_403_not_root" if sid not in sc.roots else "refused_400_malformed"] += 1
                else:
                    st["obo_by_root_executed"] += 1
                    if kind == "getdata" and any(t.startswith("data ") for t in mine):
                        st["obo_reads_with_messages"] += 1
                    if kind == "delmsg" and any(t.startswith("ctrl 200") for t in mine):
                        st["obo_deletes_accepted"] += 1
            elif sid in sc.roots:
                st["root_own_requests"] += 1
            sig.append((o, tuple(b["frames"])))
        # obo reads whose answer differs from what the session's own user would be shown (the case the seeded change breaks)
        vs = [View(b) for b in impl[sc.id]]
        ex = expand(sc, impl[sc.id])
        obo_laws(ex[0], [View(b) for b in ex[1]], st)
        for k, o in enumerate(sc.ops):
            kind, obo = split_kind(o[1])
            sid = o[2][0] if o[2] else None
            if kind == "getdata" and obo is not None and sc.acting(k) is not None and k > 0:
                a, su = sc.acting(k), sc.sessions[sid]
                if a != su and set(H.store_visible(vs[k - 1], a)) != set(H.store_visible(vs[k - 1], su)) and vs[k - 1].loaded and sid in vs[k - 1].csess:
                    st["obo_reads_differing_from_session_owner_view"] += 1
        if any(split_kind(o[1])[1] is not None and split_kind(o[1])[0] == "delmsg" and any(t.startswith("ctrl 200") for _, t in impl[sc.id][k]["frames"])
               for k, o in enumerate(sc.ops)):
            nt.add(hash(tuple(map(repr, sig))))
    return {
        "evaluations": len(scns), "distinct_nontrivial": len(nt), "operations_executed": nops,
        "samples": [{"head": sc.head, "ops": sc.ops, "impl_frames_last_op": impl[sc.id][-1]["frames"] if impl[sc.id] else []} for sc in scns[:2]],
        "traces_validated_against_impl": len(scns), "correspondence_mismatches": len(mism), "monitor_failures": len(fails),
        "search_pool": searched, "histories_cut_at_unmodelled_request": cut,
        "input_distribution": {"op_kinds (@ = with extra.obo)": kinds, "ctrl_codes": codes, "obo": st,
                               "users_per_scenario": sorted(set(sc.nusers for sc in scns)),
                               "root_sessions_per_scenario": sorted(set(len(sc.roots) for sc in scns)),
                               "ops_per_scenario_max": max(len(sc.ops) for sc in scns)},
        "impl_wall_s": round(t_impl, 1),
    }
