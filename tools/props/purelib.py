"""Common flow of a pure-function property: proof status, generated requests
run on implementation and model, law monitors on the implementation's
answers, correspondence diff, failing-input search, evidence."""
import json
import vlib


def run_pure(ctx, prop, gen_cases, monitors, neighbours, nontrivial, rule, trusted, driver="ext",
             run_impl=None, corpus=()):
    proof = ctx.coq_props()
    vlib.proof_violation(ctx)
    ok, out = ctx.build_runner()
    if not ok:
        ctx.violation("proof", "extraction-broken", "model extraction/runner build failed: " + out[-1500:],
                      {"theorem_or_obligation": "extraction of the model"})
        ctx.finish()
    if run_impl is None:
        ok, out = ctx.build_ext()
        if not ok:
            ctx.violation("corr", "harness-build-broken", "Go driver no longer builds against /repo: " + out[-1500:],
                          {"correspondence": "build of harness/ext against /repo"})
            ctx.finish()
        run_impl = lambda lines: ctx.run_ext(prop, lines)
    if ctx.replay:
        rp = json.load(open(ctx.replay))
        cases = [r["case"] for r in [rp["replay"]] + rp.get("more_cases", []) if isinstance(r, dict) and "case" in r]
    else:
        cases = list(corpus) + gen_cases(ctx)
    # dedupe preserving order
    seen = set()
    cases = [c for c in cases if not (c in seen or seen.add(c))]
    rc, impl, err = run_impl(cases)
    if rc != 0 or len(impl) != len(cases):
        ctx.violation("corr", "driver-crashed", "implementation driver failed rc=%s: %s" % (rc, err[-1500:]),
                      {"correspondence": "driver run", "stderr": err[-3000:]})
        ctx.finish()
    rc, model, err = ctx.run_model(prop, cases)
    if rc != 0 or len(model) != len(cases):
        ctx.violation("proof", "runner-crashed", "model runner failed: " + err[-1500:], {"theorem_or_obligation": "model runner"})
        ctx.finish()
    table = dict(zip(cases, impl))
    fails = monitors(cases, table)         # list of (law, case, detail)
    for law, case, detail in fails:
        ctx.violation("monitor", law, "law %s fails on the implementation: %s -> %s (%s)" % (law, case, table.get(case), detail),
                      {"case": case, "impl": table.get(case), "law": law, "detail": detail})
    mism = [(c, i, m) for c, i, m in zip(cases, impl, model) if i != m]
    searched = 0
    if (mism or not ctx.proof_ok()) and not fails:
        # failing-input search: neighbourhood of the disagreeing inputs, monitors as oracle, on the implementation
        pool = []
        for c, _, _ in mism[:200]:
            pool += neighbours(ctx, c)
        pool = list(dict.fromkeys(pool))[:20000]
        if pool:
            rc, impl2, _ = run_impl(pool)
            t2 = dict(zip(pool, impl2))
            t2.update(table)
            f2 = monitors(pool, t2)
            searched = len(pool)
            for law, case, detail in f2:
                ctx.violation("monitor", law, "law %s fails on the implementation: %s -> %s (%s)" % (law, case, t2.get(case), detail),
                              {"case": case, "impl": t2.get(case), "law": law, "detail": detail, "found_by": "search near a correspondence mismatch"})
            fails = f2
    if mism and not fails:
        c, i, m = mism[0]
        ctx.violation("corr", "correspondence-" + c.split()[0],
                      "model and implementation disagree on %d of %d cases, e.g. %s: impl=%s model=%s; no law failure found on %d neighbouring inputs"
                      % (len(mism), len(cases), c, i, m, searched),
                      {"correspondence": "projection " + c.split()[0], "case": c, "impl": i, "model": m,
                       "more": [{"case": a, "impl": b, "model": d} for a, b, d in mism[1:10]]})
    nt = [c for c in cases if nontrivial(c, table[c])]
    kinds = {}
    for c in cases:
        kinds[c.split()[0]] = kinds.get(c.split()[0], 0) + 1
    outs = {}
    for c in cases:
        k = c.split()[0] + ":" + ("err" if ("err" in table[c] or table[c].endswith(" 0") or "PANIC" in table[c]) else "ok")
        outs[k] = outs.get(k, 0) + 1
    ctx.coverage.update({
        "evaluations": len(cases), "distinct_nontrivial": len(set(nt)), "rule": rule,
        "samples": [{"case": c, "impl": table[c]} for c in (cases[:3] + ctx.rng.sample(cases, min(5, len(cases))))],
        "traces_validated_against_impl": len(cases), "correspondence_mismatches": len(mism),
        "monitor_failures": len(fails), "search_pool": searched,
        "input_distribution": {"by_request_kind": kinds, "by_outcome": outs},
        "trusted_base": trusted,
    })
    ctx.finish()
