"""C11 part x: a client can never choose the author recorded on a message.

Model coq/Sys/SenderC11x.v (both places that write head.sender: Session.publish before the route
is chosen, Topic.saveAndBroadcastMessage; routes: attached topic, 'sys' without subscription,
409 otherwise), theorems c11_sender_* in coq/Props/PropC11.v.  Driver
harness/overlay/server/zz_verif_c11x_test.go (TestVerifC11x): {sub}/{leave}/{pub} histories
through the real Session.dispatchRaw from root / non-root / anonymous sessions, on behalf or
not, attached or not, to every topic kind incl. 'sys', with forged / empty / non-string /
absent head.sender; observed: stored message rows (memverif) and {data} frames at the publisher
and at persistent observers (root subscriber of 'sys', members of the group / p2p / channel
topics).  Laws are evaluated on the implementation's trace; the extracted model is compared on
the projection (refusal / route / stored From + head)."""
import os
import subprocess

import vlib

LVL = {"": 0, "root": 30, "auth": 20, "anon": 10, "bogus": 0}
LAW = "sender-never-client-chosen"
REFUSALS = {(403, "permission_denied"): "denied403", (400, "malformed"): "malf400",
            (409, "command_out_of_sequence"): "outofseq409", (401, "authentication_required"): "authreq401"}
OBSERVERS = ("pub", "obob", "oroot")     # where a {data} frame was received (stored rows are labelled by topic)
VAL = {"j": 1000, "z": 1001, "n": 1002, "o": 1003}


def hx(s):
    return s.encode("utf-8").hex() if s else "-"


class Op:
    def __init__(self, kind, topic, as_=None, al="", head="-"):
        self.kind, self.topic, self.as_, self.al, self.head = kind, topic, as_, al, head

    def line(self):
        w = [self.kind, "topic=" + self.topic]
        if self.as_ is not None:
            w += ["as=" + self.as_, "al=" + hx(self.al)]
        if self.kind == "pub":
            w.append("head=" + self.head)
        return " ".join(w)

    def as_tok(self):
        if self.as_ is None:
            return None
        return int(self.as_[1:]) if self.as_[0] == "a" else 0

    def x_word(self):
        if self.as_ is None:
            return "x=-"
        return "x=%d:%d" % (self.as_tok(), LVL[self.al])

    def model_head(self):
        if self.head in ("-", "e"):
            return self.head
        out = []
        for it in self.head.split(","):
            if it == "m":
                out.append("1:1")
            elif it == "p":
                out.append("2:2")
            elif it.startswith("s:"):
                v = it[2:]
                out.append("0:%d" % (int(v[1:]) if v[0] == "a" else VAL[v]))
        return ",".join(out)

    def supplied(self):
        for it in self.head.split(","):
            if it.startswith("s:"):
                return it[2:]
        return None

    def to_json(self):
        return {"kind": self.kind, "topic": self.topic, "as": self.as_, "al": self.al, "head": self.head}

    @staticmethod
    def from_json(d):
        return Op(d["kind"], d["topic"], d["as"], d["al"], d["head"])


class XScn:
    def __init__(self, sid, init, ops):
        self.id, self.init, self.ops = sid, tuple(init), ops

    def lines(self):
        return ["scn %s init=%d,%d,%d" % ((self.id,) + self.init)] + [o.line() for o in self.ops] + ["end"]

    def clone(self, ops, sid=None):
        return XScn(sid or self.id, self.init, list(ops))

    def to_json(self):
        return {"id": self.id, "init": list(self.init), "ops": [o.to_json() for o in self.ops]}

    @staticmethod
    def from_json(d):
        return XScn(d["id"], d["init"], [Op.from_json(o) for o in d["ops"]])


# ---------------------------------------------------------------- generator

INITS = [(5632, 1, 20)] * 5 + [(5632, 2, 20)] * 2 + [(5632, 7, 10)] * 3 + [(5632, 6, 30)] * 6 + \
        [(0, 1, 20), (5632, 0, 0), (5632, 1, 30), (5632, 1, 10)]
JUNKUSR = "lit:" + hx("usrJUNK!")


def gen_head(rng, who):
    r = rng.random()
    if r < 0.12:
        return "-"
    if r < 0.17:
        return "e"
    items = []
    if rng.random() < 0.85:
        items.append("s:" + rng.choice(["a1", "a2", "a6", "a7", "a%d" % who if who in (1, 2, 6, 7) else "a1", "j", "z", "n", "o"]))
    if rng.random() < 0.45:
        items.append("m")
    if rng.random() < 0.25:
        items.append("p")
    rng.shuffle(items)
    return ",".join(items) if items else "-"


def gen_topic(rng, acting, subbed):
    if subbed and rng.random() < 0.6:
        return rng.choice(subbed)
    pool = ["sys"] * 5 + ["grp"] * 3 + ["me", "fnd", "chn", "chg", "nosuch", "lit:" + hx("xyz"), "empty", JUNKUSR]
    if acting == 1:
        pool += ["p2p2"] * 2 + ["p2p1"]
    elif acting == 2:
        pool += ["p2p1"] * 2 + ["p2p2"]
    return rng.choice(pool)


def gen_scn(rng, sid):
    init = rng.choice(INITS)
    ver, who, lvl = init
    ops = []
    subbed = []
    cur_as = None
    for _ in range(rng.randint(1, 6)):
        as_, al = None, ""
        if lvl == 30:
            r = rng.random()
            if cur_as is not None and r < 0.5:
                as_ = cur_as
            elif r < 0.75:
                as_ = rng.choice(["a1", "a1", "a2", "a2", "a6", "a7", "lit:" + hx("junk")])
            if as_ is not None:
                al = rng.choice(["", "", "auth", "anon", "root", "bogus"])
        elif rng.random() < 0.06:
            as_ = rng.choice(["a1", "a2", "a6"])
        acting = who
        if as_ is not None and lvl == 30 and as_[0] == "a":
            acting = int(as_[1:])
        kind = rng.choice(["pub"] * 6 + ["sub"] * 3 + ["leave"])
        if kind == "pub":
            ops.append(Op("pub", gen_topic(rng, acting, subbed), as_, al, gen_head(rng, who)))
        elif kind == "sub":
            t = gen_topic(rng, acting, [])
            if t in ("empty", JUNKUSR) or t.startswith("lit:"):
                t = "grp"
            ops.append(Op("sub", t, as_, al))
            subbed.append(t)
            cur_as = as_
        else:
            ops.append(Op("leave", rng.choice(subbed) if subbed else "grp", as_, al))
    if not any(o.kind == "pub" for o in ops):
        ops.append(Op("pub", gen_topic(rng, who, subbed), None, "", gen_head(rng, who)))
    return XScn(sid, init, ops)


def fixed_scns():
    """the boundary shapes, always present"""
    out = []
    k = 0
    for init in [(5632, 1, 20), (5632, 7, 10), (5632, 6, 30)]:
        for head in ["s:a2,m", "s:a%d" % init[1], "s:z", "s:n", "e", "-", "m"]:
            k += 1
            ops = [Op("pub", "sys", None, "", head), Op("sub", "grp"), Op("pub", "grp", None, "", head),
                   Op("pub", "sys", None, "", head)]
            if init[2] == 30:
                ops += [Op("pub", "sys", "a1", "", head), Op("sub", "chg", "a2", ""), Op("pub", "chg", "a2", "", head),
                        Op("pub", "chg", None, "", head)]
            out.append(XScn("f%d" % k, init, ops))
    # p2p, own 'me', channel reader; a session of alice at level auth and at level root, bob, root on behalf of alice
    for init, as_ in [((5632, 1, 20), None), ((5632, 1, 30), None), ((5632, 2, 20), None), ((5632, 6, 30), "a1")]:
        peer = "p2p1" if init[1] == 2 else "p2p2"
        for head in ["s:a2,m", "s:a6", "s:j,p", "-"]:
            k += 1
            out.append(XScn("f%d" % k, init, [Op("sub", peer, as_, ""), Op("pub", peer, as_, "", head), Op("sub", "me", as_, ""),
                                              Op("pub", "me", as_, "", head), Op("sub", "chn", as_, ""), Op("pub", "chn", as_, "", head),
                                              Op("leave", peer, as_, ""), Op("pub", peer, as_, "", head), Op("pub", "sys", as_, "", head)]))
    # a root session attached as a channel READER (on behalf of the anonymous-level user) publishing as itself: the
    # {data} it receives back is anonymous (From blanked), the stored row is not
    for head in ["s:n", "s:a1,m"]:
        k += 1
        out.append(XScn("f%d" % k, (5632, 6, 30), [Op("sub", "chn", "a7", "auth"), Op("pub", "chn", None, "", head),
                                                   Op("pub", "chn", "a6", "", head), Op("pub", "chn", "a7", "", head)]))
    return out


# ---------------------------------------------------------------- running

def run_impl(ctx, scns, tag="x"):
    fin = os.path.join(ctx.work, "c11x_%s_in.txt" % tag)
    fout = os.path.join(ctx.work, "c11x_%s_out.txt" % tag)
    lines = []
    for sc in scns:
        lines += sc.lines()
    open(fin, "w").write("\n".join(lines) + "\n")
    if os.path.exists(fout):
        os.remove(fout)
    env = dict(vlib.GOENV, VERIF_IN=fin, VERIF_OUT=fout)
    try:
        p = subprocess.run([os.path.join(vlib.BUILD, "maindrv.test"), "-test.run", "^TestVerifC11x$", "-test.count=1"],
                           stdout=subprocess.PIPE, stderr=subprocess.STDOUT, timeout=3000, env=env,
                           cwd=os.path.join(vlib.REPO, "server"))
        rc, log = p.returncode, p.stdout.decode("utf-8", "replace")
    except subprocess.TimeoutExpired:
        rc, log = 124, "timeout"
    res, cur = {}, None
    if os.path.exists(fout):
        for l in open(fout, errors="replace").read().split("\n"):
            if l.startswith("scn "):
                cur = []
                res[l.split()[1]] = cur
            elif l.startswith("r ") and cur is not None:
                cur.append(parse_row(l[2:]))
    return rc, res, log


def parse_head(s):
    """-> (sender token or '-', sorted other 'k=v' string)"""
    if s == "N":
        return ("-", "")
    snd, others = s.split("~", 1)
    return (snd, others)


def parse_recs(s):
    out = []
    for r in [x for x in s.split(";") if x]:
        where, frm, head = r.split("/", 2)
        out.append((where, frm, parse_head(head)))
    return out


def parse_row(l):
    if l == "skipped":
        return None
    f = l.split("|")
    st = tuple(int(x) for x in f[0].split(","))
    reps = []
    for r in [x for x in f[1].split("+") if x]:
        code, rest = r.split(":", 1)
        text, hasid = rest.rsplit(":", 1)
        reps.append((int(code), text, hasid == "1"))
    kv = dict(w.split("=", 1) for w in f[3:] if "=" in w)
    return {"state": st, "replies": reps, "panic": f[2].startswith("PANIC"), "hang": "HANG" in f[2], "flag": f[2],
            "att": kv.get("att") == "1", "sys": kv.get("sys") == "1",
            "stored": parse_recs(kv.get("stored", "")), "data": parse_recs(kv.get("data", ""))}


def name_ok(sc, op):
    ver, who, lvl = sc.init
    acting = who
    if op.as_ is not None and lvl == 30 and op.as_tok():
        acting = op.as_tok()
    if op.topic in ("empty", JUNKUSR):
        return False
    if op.topic in ("p2p1", "p2p2") and acting == int(op.topic[3:]):
        return False
    return True


def model_lines(sc, rows):
    out = []
    for k, op in enumerate(sc.ops):
        if op.kind != "pub" or k >= len(rows) or rows[k] is None:
            continue
        r = rows[k]
        out.append((k, "P %d %d %d %s %d %d %d %d %s" % (sc.init + (op.x_word(), 1 if name_ok(sc, op) else 0, 1 if r["att"] else 0,
                                                                   1 if r["sys"] else 0, 1 if r["stored"] else 0, op.model_head()))))
    return out


def compare(sc, rows, mouts):
    """first disagreement between the implementation and the extracted model on a {pub}"""
    for k, mo in mouts.items():
        r = rows[k]
        if r["panic"]:
            return (k, "implementation panicked: " + r["flag"])
        names = [REFUSALS.get((c, t), "o%d" % c) for c, t, _ in r["replies"]]
        quiet = not r["stored"] and not r["data"]
        if mo.startswith("R:"):
            want = [x for x in mo[2:].split("+") if x]
            if names != want or not quiet:
                return (k, "model: refused at dispatch with %s; implementation: replies %s stored %s data %s" % (want, names, r["stored"], r["data"]))
        elif mo == "name":
            if not quiet or len(names) != 1 or not (400 <= r["replies"][0][0] < 500):
                return (k, "model: refused by expandTopicName; implementation: replies %s stored %s" % (names, r["stored"]))
        elif mo == "attach":
            if not quiet or [(c, t) for c, t, _ in r["replies"]] != [(409, "must_attach_first")]:
                return (k, "model: 409 must attach first; implementation: replies %s stored %s data %s" % (r["replies"], r["stored"], r["data"]))
        elif mo == "topic":
            if not quiet:
                return (k, "model: nothing stored; implementation: stored %s data %s" % (r["stored"], r["data"]))
        elif mo.startswith("S:"):
            _, frm, snd, others = mo.split(":", 3)
            want = (frm, (snd, ",".join(sorted(x for x in others.split(",") if x))))
            if len(r["stored"]) != 1:
                return (k, "model: one message stored; implementation stored %s" % (r["stored"],))
            for where, f, h in r["stored"] + r["data"]:
                if f == "0" and where in OBSERVERS:
                    f = frm          # {data} to a channel reader is sent anonymously (From blanked by prepareBroadcastableMessage)
                if (f, h) != want:
                    return (k, "model: from=%s head.sender=%s other headers [%s]; implementation at %s: from=%s head.sender=%s other headers [%s]"
                            % (frm, snd, want[1][1], where, f, h[0], h[1]))
        else:
            return (k, "model answer not understood: " + mo)
    return None


def monitor(sc, rows):
    """the property's laws on the implementation's trace only"""
    res = []
    ver, who, lvl = sc.init
    for k, op in enumerate(sc.ops):
        if k >= len(rows) or rows[k] is None:
            break
        r = rows[k]
        if r["panic"]:
            res.append(("dispatch-panics", k, "panic in dispatch: " + r["flag"]))
            break
        if r["hang"]:
            res.append(("hang", k, r["flag"]))
        if r["state"] != sc.init:
            res.append(("state-changes-only-at-hi-login-acc", k, "{%s} changed the session state %s -> %s" % (op.kind, sc.init, r["state"])))
            break
        if op.kind != "pub":
            continue
        recs = r["stored"] + r["data"]
        route = "attached topic" if r["att"] else ("'sys' without subscription" if r["sys"] else "not attached")
        if ver == 0 and recs:
            res.append(("pre-hi-refused", k, "{pub} before the handshake stored/delivered %s" % (recs,)))
        elif who == 0 and lvl != 30 and recs:
            res.append(("pre-login-refused", k, "{pub} before login stored/delivered %s" % (recs,)))
        if op.as_ is not None and lvl != 30 and recs:
            res.append(("as-user-root-only", k, "non-root session (level %d) supplied extra.obo and the message was stored/delivered: %s" % (lvl, recs)))
        stored_from = r["stored"][0][1] if len(r["stored"]) == 1 else None
        for where, frm, (snd, others) in recs:
            if frm == "0" and where in OBSERVERS:
                # {data} delivered to a channel reader carries no From (topic.go prepareBroadcastableMessage: channel
                # messages are sent anonymously); the author is the one recorded on the stored row
                if stored_from is None:
                    continue
                frm = stored_from
            if frm != str(who) and lvl != 30:
                res.append(("acts-as-session-user", k, "message at %s attributed to user %s by a level-%d session of user %d" % (where, frm, lvl, who)))
            want = "-" if frm == str(who) else str(who)
            if snd != want:
                res.append((LAW, k, "%s (route: %s): message from user %s sent by the level-%d session of user %d carries head.sender=%s, the server's own value is %s; the client supplied head=%s"
                            % (where, route, frm, lvl, who, snd, "absent" if want == "-" else want, op.head)))
                break
    return res


def shrink(ctx, sc, law, budget=10):
    cur, tries, changed = sc, 0, True
    while changed and tries < budget:
        changed = False
        for i in range(len(cur.ops) - 1, -1, -1):
            if tries >= budget or len(cur.ops) <= 1:
                break
            cand = cur.clone(cur.ops[:i] + cur.ops[i + 1:], "shr")
            tries += 1
            rc, im, _ = run_impl(ctx, [cand], tag="shrink")
            if rc == 0 and "shr" in im and any(l == law for l, _, _ in monitor(cand, im["shr"])):
                cur, changed = cand, True
    return cur


def run_layer(ctx, replay_scns=None):
    """runs the layer, records violations and coverage on ctx; the drivers and the runner are built by the caller"""
    quick = ctx.tier == "quick"
    if replay_scns is not None:
        scns = replay_scns
    else:
        scns = fixed_scns()
        for i in range(260 if quick else 6000):
            scns.append(gen_scn(ctx.rng, "x%d" % i))
    rc, impl, log = run_impl(ctx, scns)
    bad = next((sc for sc in scns if sc.id not in impl or len(impl[sc.id]) != len(sc.ops)), None)
    if rc != 0 or bad is not None:
        ctx.violation("monitor", "server-crashed", "the server process died or stopped answering while running sender-header scenario %s: %s"
                      % (bad.id if bad else "?", log[-1500:]), {"scenario_c11x": bad.to_json() if bad else None, "log": log[-4000:]})
        return
    lines, index = [], []
    for sc in scns:
        for k, l in model_lines(sc, impl[sc.id]):
            lines.append(l)
            index.append((sc.id, k))
    rcm, mout, err = ctx.run_model("c11x", lines) if lines else (0, [], "")
    if rcm != 0 or len(mout) != len(lines):
        ctx.violation("proof", "runner-crashed", "model runner (c11x) failed: " + err[-1500:], {"theorem_or_obligation": "model runner"})
        return
    model = {}
    for (sid, k), o in zip(index, mout):
        model.setdefault(sid, {})[k] = o
    fails = {}
    for sc in scns:
        for law, k, detail in monitor(sc, impl[sc.id]):
            fails.setdefault(law, []).append((sc, k, detail))
    nshr = 0
    for law, lst in fails.items():
        sc, k, detail = min(lst, key=lambda x: (x[1], len(x[0].ops)))
        small = sc.clone(sc.ops[:k + 1])
        if nshr < 3 and replay_scns is None:
            nshr += 1
            small = shrink(ctx, small, law)
        ctx.violation("monitor", law, "law %s fails on the implementation's trace (%d scenarios this run): %s; session init=(ver %d, user %d, level %d); requests: %s"
                      % ((law, len(lst), detail) + sc.init + (" | ".join(o.line() for o in small.ops),)),
                      {"scenario_c11x": small.to_json(), "law": law, "detail": detail, "scenarios_failing": len(lst)})
    mism = []
    for sc in scns:
        d = compare(sc, impl[sc.id], model.get(sc.id, {}))
        if d:
            mism.append((sc, d[0], d[1]))
    if mism and not fails:
        sc, k, d = min(mism, key=lambda x: (x[1], len(x[0].ops)))
        base = sc.clone(sc.ops[:k + 1])
        # failing-input search near the mismatch: the same history with other heads / routes
        pool = []
        for j in range(40 if quick else 300):
            ops = list(base.ops)
            ops.append(Op("pub", ctx.rng.choice(["sys", base.ops[-1].topic]), base.ops[-1].as_, base.ops[-1].al, gen_head(ctx.rng, base.init[1])))
            pool.append(XScn("n%d" % j, base.init, ops))
        rc2, im2, _ = run_impl(ctx, pool, tag="search")
        found = False
        if rc2 == 0:
            for c in pool:
                for law, kk, detail in (monitor(c, im2[c.id]) if c.id in im2 else []):
                    ctx.violation("monitor", law, "law %s fails on the implementation's trace: %s; requests: %s" % (law, detail, " | ".join(o.line() for o in c.ops[:kk + 1])),
                                  {"scenario_c11x": c.clone(c.ops[:kk + 1]).to_json(), "law": law, "detail": detail, "found_by": "search near a correspondence mismatch"})
                    found = True
                    break
                if found:
                    break
        if not found:
            ctx.violation("corr", "correspondence-pub-sender",
                          "model and implementation disagree on %d of %d sender-header scenarios; first (prefix): request %d {%s}: %s; session init=%s; requests: %s; no law failure found on %d neighbouring histories"
                          % (len(mism), len(scns), k, sc.ops[k].line(), d, sc.init, " | ".join(o.line() for o in base.ops), len(pool)),
                          {"correspondence": "projection of C11 part x (refusal / route / stored and delivered From + head)", "scenario_c11x": base.to_json(), "diff": d})
    # coverage
    routes, kinds, outcomes = {}, {}, {}
    nt = set()
    npub = 0
    for sc in scns:
        for k, op in enumerate(sc.ops):
            r = impl[sc.id][k]
            if r is None or op.kind != "pub":
                continue
            npub += 1
            mo = model.get(sc.id, {}).get(k, "?")
            cls = mo.split(":")[0]
            outcomes[cls] = outcomes.get(cls, 0) + 1
            if r["stored"]:
                route = "attached" if r["att"] else "sys-unsubscribed"
                kind = ("root" if sc.init[2] == 30 else "anon" if sc.init[2] == 10 else "auth") + ("-obo" if op.as_ is not None else "")
                tp = r["stored"][0][0]
                routes[route + "/" + tp[:3]] = routes.get(route + "/" + tp[:3], 0) + 1
                kinds[kind] = kinds.get(kind, 0) + 1
                if op.supplied() is not None:
                    nt.add((sc.init, route, tp, op.as_, op.head))
    ctx.coverage["c11x_sender_layer"] = {
        "scenarios": len(scns), "pub_requests": npub, "model_outcomes": outcomes, "stored_by_route_and_topic": routes,
        "stored_by_session_kind": kinds, "distinct_stored_with_supplied_sender": len(nt),
        "correspondence_mismatches": len(mism), "monitor_failures": sum(len(v) for v in fails.values()),
        "rule": "39 fixed boundary histories (pub to sys unsubscribed / sub grp / pub grp / pub sys, root: on behalf and channel; p2p / me / channel-reader / after leave for alice at level auth and root, bob, root on behalf of alice) + seeded random histories of 1-6 {sub}/{leave}/{pub} on sessions of alice, bob (auth), an anonymous-level user, root (with and without extra.obo, incl. obo = itself and junk), a few pre-handshake / unauthenticated / unreachable states; topics sys, group, p2p, me, fnd, channel (chn and grp names), unknown, malformed; head absent, {}, sender = another user / own user / junk string / empty string / number / object, with and without other headers",
    }
