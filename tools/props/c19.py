"""C19 search queries and tag rules: theorems in coq/Props/PropC19.v about
coq/Pure/Query.v (parseSearchQuery) and coq/Pure/Tags.v (normalizeTags,
rewriteTag, filterRestrictedTags, restrictedTagsEqual, the masked-namespace gate);
correspondence against package main of /repo through the overlay line driver
harness/overlay/server/zz_verif_c19_test.go.  Stateful layer (coq/Sys/TagState.v,
TagStateProofs.v): scenarios of {set tags} / {get tags} / new topic / new account /
unload / server-side tag changes on real 'me' and group topics above memverif,
driver harness/overlay/server/zz_verif_c19x_test.go (request kind TS).  Search layer
(coq/Sys/FndSearchC19.v, FndSearchC19Proofs.v): rewriteTag with the real validators /
authenticator and whole searches on a real 'fnd' topic, driver
harness/overlay/server/zz_verif_c19fnd_test.go (request kinds O, WR, QR, FS)."""
import bisect
import itertools
import os
from props import purelib

ALPHA = ["a", "b", " ", "\t", ",", '"', ":", "é"]


def hx(s):
    return s.encode("utf-8").hex() if s else "-"


def unhx(h):
    return "" if h in ("-", "_") else bytes.fromhex(h).decode("utf-8", errors="replace")


def enc_list(l):
    if l is None:
        return "nil"
    if not l:
        return "-"
    return ",".join(s.encode("utf-8").hex() if s else "_" for s in l)


def dec_list(s):
    if s == "nil":
        return None
    if s == "-":
        return []
    return [unhx(h) for h in s.split(",")]


class Uni:
    """unicode tables of the Go toolchain under test (answers of the driver's UT requests)"""

    def __init__(self, tabs):
        self.lower_map = {}
        if tabs["lower"] not in ("", "-"):
            for p in tabs["lower"].split(","):
                a, b = p.split(":")
                self.lower_map[int(a)] = int(b)
        self.cls = {}
        for k in ("letter", "digit", "number", "space"):
            los, his = [], []
            if tabs[k] != "-":
                for p in tabs[k].split(","):
                    a, b = p.split("-")
                    los.append(int(a))
                    his.append(int(b))
            self.cls[k] = (los, his)

    def isc(self, k, ch):
        los, his = self.cls[k]
        i = bisect.bisect_right(los, ord(ch)) - 1
        return i >= 0 and ord(ch) <= his[i]

    def lower(self, s):
        return "".join(chr(self.lower_map.get(ord(c), ord(c))) for c in s)

    def trim(self, s):
        i, j = 0, len(s)
        while i < j and self.isc("space", s[i]):
            i += 1
        while j > i and self.isc("space", s[j - 1]):
            j -= 1
        return s[i:j]

    def body_ok(self, b):
        return 1 <= len(b) <= 96 and all(c in "-_+.!?#@" or self.isc("letter", c) or self.isc("number", c) for c in b)

    def prefixed_ns(self, s):
        """namespace of a tag of the documented prefixed shape, else None"""
        if ":" not in s:
            return None
        p, b = s.split(":", 1)
        if not (2 <= len(p) <= 16 and "a" <= p[0] <= "z"):
            return None
        if not all(c == "_" or ("a" <= c <= "z") or ("A" <= c <= "Z") or ("0" <= c <= "9") for c in p[1:]):
            return None
        return p if self.body_ok(b) else None


UNI = None


# ---- python restatement of the reference semantics (QuerySpec.v) ----
def fake_val(t):
    return "vmail:" + t if t.startswith("é") and len(t) >= 2 else ""


def fake_auth(t):
    return "login:" + t if t.startswith("b") and all("a" <= c <= "z" for c in t) else ""


def ref_rewrite(t, wl):
    if UNI.prefixed_ns(t) is not None:
        return t
    r = fake_val(t)
    if r:
        return r
    if wl:
        r = fake_auth(t)
        if r:
            return r
    return t if UNI.body_ok(t) else ""


def ref_lex(q):
    """items: ('sep', run) | ('word', w) | ('quoted', body); None + reason when a quote is not closed"""
    items = []
    i = 0
    while i < len(q):
        c = q[i]
        if c in " \t,":
            j = i
            while j < len(q) and q[j] in " \t,":
                j += 1
            items.append(("sep", q[i:j]))
            i = j
        elif c == '"':
            j = q.find('"', i + 1)
            if j < 0:
                return None
            items.append(("quoted", q[i + 1:j]))
            i = j + 1
        else:
            j = i
            while j < len(q) and q[j] not in ' \t,"':
                j += 1
            items.append(("word", q[i:j]))
            i = j
    return items


def ref_parse(query, wl, rewrite=None):
    """('err', reason) or ('ok', and, or)"""
    rewrite = rewrite or ref_rewrite
    q = UNI.trim(query)
    items = ref_lex(q)
    if items is None:
        # which malformation is it: a glued quote may come first
        return ("err", "unterminated-quote")
    for a, b in zip(items, items[1:]):
        if a[0] != "sep" and b[0] != "sep":
            return ("err", "glued-quote")
    for k, v in items:
        if k == "sep" and v.count(",") > 1:
            return ("err", "double-comma")
    land, lor = [], []
    for n, (k, v) in enumerate(items):
        if k == "sep":
            continue
        before = n > 0 and "," in items[n - 1][1]
        after = n + 1 < len(items) and "," in items[n + 1][1]
        if not v:
            continue
        orig = UNI.lower(v)
        rw = rewrite(orig, wl)
        if not rw:
            continue
        terms = [orig] + ([rw] if rw != orig else [])
        if before or after:
            lor += terms
        else:
            land.append(terms)
    return ("ok", land, lor)


def fmt_q(r):
    if r[0] == "err":
        return "Q err"
    a = ";".join("+".join(hx(t) for t in g) for g in r[1]) if r[1] else "-"
    o = ",".join(hx(t) for t in r[2]) if r[2] else "-"
    return "Q ok %s %s" % (a, o)


# ---- generation ----
WORDS = ["a", "b", "ab", "ba", "alice", "Bob", "éa", "ÉCOLE", "é", "new_york", "x1", "email:a@b.c",
         "EMAIL:A", "tel:+1415", "basic:bob", "a:b", "a:", ":a", "a::b", "中文", "Жук", "ΣΣ",
         "a$b", "a\nb", " a", "a ", "␡", "\U0001d7d8", "İx", "9", "#tag", "+1(415)", "a@b.c", "�", "x" * 97, "y" * 96]
SEPS = [" ", ",", ", ", " ,", " , ", "  ", "\t", " \t ", ",,", ", ,", " ,, ", "\t,\t"]


def rand_rune(rng):
    while True:
        k = rng.random()
        if k < 0.3:
            c = rng.randrange(0x20, 0x7f)
        elif k < 0.6:
            c = rng.randrange(0xa0, 0x800)
        elif k < 0.9:
            c = rng.randrange(0x800, 0x10000)
        else:
            c = rng.randrange(0x10000, 0x110000)
        if not (0xd800 <= c <= 0xdfff):
            return chr(c)


def rand_word(rng):
    k = rng.random()
    if k < 0.6:
        return rng.choice(WORDS)
    return "".join(rand_rune(rng) for _ in range(rng.randrange(1, 6)))


def rand_query(rng):
    n = rng.randrange(1, 7)
    parts = []
    if rng.random() < 0.15:
        parts.append(rng.choice(SEPS + ["\n", " ", "　 "]))
    for k in range(n):
        w = rand_word(rng)
        r = rng.random()
        if r < 0.3:
            w = '"' + w.replace('"', "") + rng.choice(["", "", " x", ",y", " "]) + '"'
        elif r < 0.35:
            w = '"' + w
        elif r < 0.4:
            w = w + '"'
        parts.append(w)
        if k + 1 < n:
            parts.append("" if rng.random() < 0.08 else rng.choice(SEPS))
    if rng.random() < 0.15:
        parts.append(rng.choice(SEPS + ["\n", " ", "\r\n"]))
    return "".join(parts)


NSS = [[], ["email"], ["email", "tel"], ["basic", "x_1"], ["a"]]
TAGS = ["email:a@b.c", "email:x", "tel:+1415", "tel:1", "basic:bob", "x_1:y", "abc", "travel", "email:", "email:a b", "email:a:b",
        "Email:a@b.c", "emai:l", "e:mail", "email", "a:bc", "émail:x", "email:é", "email:$", "x" * 17 + ":a", "ab:" + "c" * 97]


def rand_tag(rng):
    k = rng.random()
    if k < 0.45:
        t = rng.choice(TAGS)
    elif k < 0.8:
        t = rng.choice(WORDS)
    else:
        t = "".join(rand_rune(rng) for _ in range(rng.randrange(0, 5)))
    r = rng.random()
    if r < 0.15:
        t = rng.choice([" ", "\t", " ", "\n ", "  "]) + t
    if 0.1 < r < 0.25:
        t = t + rng.choice([" ", "\t", "　", " \r\n"])
    if 0.2 < r < 0.35:
        t = t.upper()
    return t


def rand_tags(rng, pool=None, nmax=8):
    n = rng.randrange(0, nmax)
    l = [rand_tag(rng) for _ in range(n)]
    if pool and l and rng.random() < 0.6:
        for _ in range(rng.randrange(1, 4)):
            l[rng.randrange(len(l))] = rng.choice(pool)
    if l and rng.random() < 0.3:
        l.append(rng.choice(l))
    return l


# ---- stateful tag scenarios (request kind TS; model coq/Sys/TagState.v) ----
NULL = "␡"
XNS = [["basic"], ["basic"], ["email", "tel"], ["basic", "email"], ["tel"], ["x_1", "basic"], []]
ORD_LOW = ["alice", "aa", "a1", "0day", "abc", "bar"]          # sort before every reserved tag used here
ORD_MID = ["cat", "chess", "dog", "flu"]                         # between basic: and email: / tel:
ORD_HIGH = ["travel", "zoo", "zed", "yoga", "éa", "жук"]          # sort after
ODD = ["a", "", "-ab", "x" * 97, "basics:x", "basic:", "basic:a b", "b:x", "email", "q" * 96]
RES_BODY = ["alice", "bob", "x", "a@b.c", "+1415", "zed"]


def decorate(rng, t):
    r = rng.random()
    if r < 0.12:
        t = rng.choice([" ", "\t", "  "]) + t
    if 0.08 < r < 0.2:
        t = t + rng.choice([" ", "\t", " \n"])
    if 0.15 < r < 0.3:
        t = t.upper()
    return t


def x_ord(rng):
    k = rng.random()
    if k < 0.4:
        return rng.choice(ORD_LOW)
    if k < 0.6:
        return rng.choice(ORD_MID)
    if k < 0.92:
        return rng.choice(ORD_HIGH)
    return rng.choice(ODD)


def x_res(rng, ns, other=False):
    pool = ns if (ns and not other) else ["basic", "email", "tel", "x_1"]
    return rng.choice(pool) + ":" + rng.choice(RES_BODY)


def is_res(t, ns):
    return UNI.prefixed_ns(t) in ns if ns else False


def py_norm(l, mx):
    """python restatement of normalizeTags, used only to aim the generator"""
    if l is None:
        return None
    l = sorted(UNI.lower(UNI.trim(x)) for x in l[:mx])
    out = []
    for x in l:
        if x == NULL:
            return []
        if len(x) < 2 or len(x) > 96 or (out and out[-1] == x):
            continue
        if not (UNI.isc("letter", x[0]) or UNI.isc("digit", x[0])):
            continue
        out.append(x)
    return out or None


def x_initial(rng, ns):
    k = rng.random()
    if k < 0.06:
        return []
    n_ord = rng.randrange(0, 4)
    n_res = rng.choice([0, 1, 1, 1, 2]) if ns else rng.choice([0, 0, 1])
    l = set()
    for _ in range(n_ord):
        t = x_ord(rng)
        if len(t) >= 2 and len(t) <= 96 and t[0].isalnum() and " " not in t:
            l.add(t)
    for _ in range(n_res):
        l.add(x_res(rng, ns))
    l = sorted(l)
    if k > 0.85:
        rng.shuffle(l)          # a row written by something else than {set tags}: not ordered
    return l


def x_set_request(rng, cur, ns, mx):
    """a {set tags} list aimed at the current tags of the holder"""
    res = [t for t in cur if is_res(t, ns)]
    ordi = [t for t in cur if not is_res(t, ns)]
    k = rng.random()
    if k < 0.34:          # change ordinary tags only: must be accepted
        new = list(res)
        keep = [t for t in ordi if rng.random() < 0.6]
        new += keep
        for _ in range(rng.randrange(0, 3)):
            new.append(x_ord(rng))
        if new == list(cur) or rng.random() < 0.5:
            new.append(x_ord(rng))
    elif k < 0.52:        # replace a reserved tag
        new = list(cur)
        if res:
            j = new.index(rng.choice(res))
            new[j] = x_res(rng, ns)
        else:
            new.append(x_res(rng, ns))
        if rng.random() < 0.4:
            new.append(x_ord(rng))
    elif k < 0.62:        # drop a reserved tag
        new = list(cur)
        if res:
            new.remove(rng.choice(res))
        if rng.random() < 0.5:
            new.append(x_ord(rng))
    elif k < 0.72:        # add a reserved tag
        new = list(cur) + [x_res(rng, ns, other=rng.random() < 0.2)]
    elif k < 0.80:        # the same set again
        new = list(cur)
    elif k < 0.84:        # clear
        new = [NULL] if rng.random() < 0.7 else [NULL] + list(res)
    elif k < 0.90:        # reserved tag twice, ordinary change
        new = list(cur) + ([rng.choice(res)] if res else []) + [x_ord(rng)]
    else:
        new = [x_ord(rng) if rng.random() < 0.7 else x_res(rng, ns, other=True) for _ in range(rng.randrange(0, 6))]
    new = [decorate(rng, t) for t in new]
    r = rng.random()
    if r < 0.45:
        rng.shuffle(new)
    elif r < 0.6:
        new.sort()
    elif r < 0.7:
        new.sort(reverse=True)
    return new


def ts_line(ns, mx, holders, ops):
    hs = ";".join("%d.%s.%d.%s" % (i, k, o, enc_list(l)) for (i, k, o, l) in holders) or "-"
    return "TS %s %d %s %s" % (enc_list(ns), mx, hs, "/".join(ops) or "-")


def gen_scenario(rng):
    ns = rng.choice(XNS)
    mx = rng.choice([16, 16, 16, 16, 4, 6, 3])
    holders = [(1, "m", 1, x_initial(rng, ns))]
    if rng.random() < 0.85:
        holders.append((2, "g", 1, x_initial(rng, ns)))
    if rng.random() < 0.3:
        holders.append((3, "m", 2, x_initial(rng, ns)))
    # python shadow of the holders' tags, only to aim the requests
    cur = {i: list(l) for (i, k, o, l) in holders}
    kind = {i: k for (i, k, o, l) in holders}
    owner = {i: o for (i, k, o, l) in holders}
    nxt = 10
    ops = []
    n = rng.randrange(5, 13)
    while len(ops) < n:
        h = rng.choice(sorted(cur))
        k = rng.random()
        if k < 0.55:
            who = owner[h]
            if kind[h] == "g" and rng.random() < 0.15:
                who = 2 if who == 1 else 1
            fail = 1 if rng.random() < 0.06 else 0
            req = x_set_request(rng, cur[h], ns, mx)
            ops.append("s.%d.%d.%d.%s" % (h, who, fail, enc_list(req)))
            nt = py_norm(req, mx)
            if who == owner[h] and not fail and nt is not None:
                if sorted(t for t in cur[h] if is_res(t, ns)) == sorted(t for t in nt if is_res(t, ns)):
                    cur[h] = nt
            # most rejected attempts are followed by a read, sometimes after a reload
            if rng.random() < 0.5:
                if rng.random() < 0.25:
                    ops.append("u.%d" % h)
                ops.append("g.%d.%d" % (h, owner[h]))
        elif k < 0.70:
            who = owner[h]
            if kind[h] == "g" and rng.random() < 0.2:
                who = 2 if who == 1 else 1
            ops.append("g.%d.%d" % (h, who))
        elif k < 0.80:
            ops.append("u.%d" % h)
        elif k < 0.86:
            if kind[h] != "m":
                continue
            add, rem = [], []
            r = rng.random()
            if r < 0.5:
                add = [x_res(rng, ns)]
            elif r < 0.75:
                res = [t for t in cur[h] if is_res(t, ns)]
                rem = [rng.choice(res)] if res else []
            else:
                add = [rng.choice(ORD_LOW + ORD_HIGH)]
            ops.append("v.%d.%s.%s" % (h, enc_list(add), enc_list(rem)))
            l = list(cur[h])
            for t in add:
                if t not in l:
                    l.append(t)
            cur[h] = sorted(t for t in l if t not in rem)
        elif k < 0.93:
            tags = None if rng.random() < 0.1 else [decorate(rng, x_ord(rng)) for _ in range(rng.randrange(0, 4))]
            if tags is not None and rng.random() < 0.35:
                tags.insert(rng.randrange(len(tags) + 1), decorate(rng, x_res(rng, ns)))
            who = rng.choice([1, 2])
            ops.append("n.%d.%d.%s" % (nxt, who, enc_list(tags)))
            nt = py_norm(tags, mx) or []
            if not any(is_res(t, ns) for t in nt):
                cur[nxt], kind[nxt], owner[nxt] = nt, "g", who
            nxt += 1
        else:
            tags = None if rng.random() < 0.1 else [decorate(rng, x_ord(rng)) for _ in range(rng.randrange(0, 4))]
            if tags is not None and rng.random() < 0.35:
                tags.insert(rng.randrange(len(tags) + 1), decorate(rng, x_res(rng, ns)))
            auth = [x_res(rng, ns)] if rng.random() < 0.7 else []
            ops.append("a.%d.%s.%s" % (nxt, enc_list(tags), enc_list(auth)))
            nt = py_norm(tags, mx)
            if not any(is_res(t, ns) for t in (nt or [])):
                cur[nxt], kind[nxt], owner[nxt] = sorted(set((nt or []) + auth)), "m", nxt
            nxt += 1
    return ts_line(ns, mx, holders, ops)


def ts_corner_cases():
    """hand-written shapes: every relative order of one ordinary and one reserved tag in the old and the
    new list, the rejected attempt followed by a read / a reload / an accepted update"""
    cases = []
    for ns, r1, r2 in ((["basic"], "basic:alice", "basic:bob"), (["email", "tel"], "email:a@b.c", "tel:+1415")):
        for low, high in (("alice", "travel"), ("a1", "zoo")):
            for init in ([r1], [low, r1], [r1, high], [low, r1, high], [high, r1, low]):
                for attempt in ([low, r2], [r2, high], [low, high], [r1, r2], [low, r1, r2]):
                    for order in (0, 1):
                        att = list(reversed(attempt)) if order else attempt
                        ok = [x for x in (low, r1, high, "new") if x != att[0]] if order == 0 else [high, "Alice ", r1]
                        ops = ["g.1.1", "s.1.1.0." + enc_list(att), "g.1.1", "s.1.1.0." + enc_list(ok), "g.1.1", "u.1",
                               "s.1.1.0." + enc_list(att), "u.1", "g.1.1"]
                        cases.append(ts_line(ns, 16, [(1, "m", 1, init)], ops))
                        ops2 = ["s.2.1.0." + enc_list(ok), "s.2.2.0." + enc_list(att), "s.2.1.0." + enc_list(att), "g.2.1",
                                "s.2.1.1." + enc_list([low, "zzz"] + [x for x in init if x.startswith(r1[:3])]), "g.2.1"]
                        cases.append(ts_line(ns, 16, [(1, "m", 1, []), (2, "g", 1, init)], ops2))
    return cases


def ts_parse(case, out):
    """(ns, mx, initial state, [(op, reply, state)]); state: id -> (kind, owner, stored, cached|None)"""
    w = case.split()
    ns, mx = dec_list(w[1]), int(w[2])
    st0 = {}
    if w[3] != "-":
        for s in w[3].split(";"):
            f = s.split(".")
            st0[int(f[0])] = (f[1], int(f[2]), dec_list(f[3]), None)
    ops = [] if w[4] == "-" else w[4].split("/")
    steps = []
    outs = out[3:].split("/") if out.startswith("TS ") and len(out) > 3 else []
    if len(outs) != len(ops):
        return ns, mx, st0, None
    for op, o in zip(ops, outs):
        if "|" not in o:
            return ns, mx, st0, None
        reply, st = o.split("|", 1)
        state = {}
        if st:
            for s in st.split(";"):
                f = s.split(".")
                if len(f) != 5:
                    return ns, mx, st0, None
                state[int(f[0])] = (f[1], int(f[2]), dec_list(f[3]), None if f[4] == "~" else dec_list(f[4]))
        steps.append((op, reply, state))
    return ns, mx, st0, steps


def show_op(op):
    f = op.split(".")
    k = f[0]
    if k == "s":
        return "{set tags=%r} on holder %s by user %s%s" % (dec_list(f[4]), f[1], f[2], " (store write fails)" if f[3] == "1" else "")
    if k == "g":
        return "{get tags} on holder %s by user %s" % (f[1], f[2])
    if k == "u":
        return "unload holder %s" % f[1]
    if k == "n":
        return "{sub new set.tags=%r} by user %s" % (dec_list(f[3]), f[2])
    if k == "a":
        return "{acc new tags=%r}, authenticator adds %r" % (dec_list(f[2]), dec_list(f[3]))
    return "server-side UpdateTags on holder %s add=%r remove=%r" % (f[1], dec_list(f[2]), dec_list(f[3]))


def ts_monitor(case, out):
    """the tag laws of the property evaluated on the implementation's trace of one scenario"""
    fails = []
    ns, mx, st0, steps = ts_parse(case, out)
    if steps is None:
        return fails            # unreadable answer: left to the comparison with the model
    nss = set(ns)

    def res(l):
        return sorted(t for t in (l or []) if UNI.prefixed_ns(t) in nss) if nss else []

    prev = st0
    for n, (op, reply, st) in enumerate(steps):
        f = op.split(".")
        k, h = f[0], int(f[1])
        where = "request %d of the scenario: %s -> %s" % (n + 1, show_op(op), reply)

        def bad(law, txt):
            fails.append((law, case, where + ": " + txt))
        client = k in ("s", "g", "u", "n", "a")
        accepted = (k == "s" and reply.startswith("c200")) or (k == "n" and reply.startswith("c200")) or \
                   (k == "a" and reply.startswith("c201"))
        # every holder: the loaded topic and the row hold the same tags
        for i, (kd, ow, stored, cached) in st.items():
            if cached is not None and sorted(cached) != sorted(stored):
                bad("cached-tags-equal-stored", "holder %d: the row has %r, the loaded topic has %r" % (i, stored, cached))
        if accepted and h in st:
            kd, ow, stored, cached = st[h]
            own = list(stored)
            limit = mx
            if k == "a":
                auth = dec_list(f[3])
                own = [t for t in stored if t not in auth]
            if len(set(stored)) != len(stored):
                bad("stored-tags-deduplicated", "holder %d stores %r" % (h, stored))
            inv = [t for t in own if not tag_valid(t)]
            if inv:
                bad("stored-tags-normalised", "holder %d stores the tag %r" % (h, inv[0]))
            if len(own) > limit:
                bad("stored-tags-within-count", "holder %d stores %d tags, limit %d" % (h, len(own), limit))
        if client:
            for i, (kd, ow, stored, cached) in prev.items():
                if i not in st:
                    bad("reserved-tags-unchanged", "holder %d vanished" % i)
                    continue
                if res(st[i][2]) != res(stored):
                    bad("reserved-tags-unchanged", "holder %d: reserved-namespace tags of the row were %r, now %r" % (i, res(stored), res(st[i][2])))
                elif st[i][3] is not None and res(st[i][3]) != res(stored):
                    bad("reserved-tags-unchanged", "holder %d: reserved-namespace tags were %r, the loaded topic now has %r" % (i, res(stored), res(st[i][3])))
            for i in st:
                if i not in prev:
                    r = res(st[i][2])
                    allowed = dec_list(f[3]) if k == "a" else []
                    if [t for t in r if t not in allowed]:
                        bad("reserved-tags-unchanged", "new holder %d created by a client with reserved-namespace tags %r" % (i, r))
        # holders the request is not addressed to are left alone; a request that is not accepted changes nothing
        for i, (kd, ow, stored, cached) in prev.items():
            if i not in st:
                continue
            untouched = (i != h) or (client and not accepted and k != "u")
            if not untouched:
                continue
            law = "rejected-request-changes-nothing" if i == h else "other-holders-untouched"
            if st[i][2] != stored:
                bad(law, "holder %d: row was %r, now %r" % (i, stored, st[i][2]))
            elif cached is not None and st[i][3] is not None:
                exact = i != h or reply.startswith("c403") or k in ("g", "n", "a")
                if (st[i][3] != cached) if exact else (sorted(st[i][3]) != sorted(cached)):
                    bad(law, "holder %d: the loaded topic had %r, now %r" % (i, cached, st[i][3]))
            elif cached is None and st[i][3] is not None and sorted(st[i][3]) != sorted(stored):
                bad(law, "holder %d: the row has %r, the topic loaded from it has %r" % (i, stored, st[i][3]))
        if client and not accepted:
            for i in st:
                if i not in prev:
                    bad("rejected-request-changes-nothing", "holder %d created although the request was answered %s" % (i, reply))
        # {get tags} reports the stored tags
        if k == "g" and h in st and (reply.startswith("t") or reply.startswith("c204")):
            got = dec_list(reply[1:]) if reply.startswith("t") else []
            if sorted(got) != sorted(st[h][2]):
                bad("get-tags-reports-stored-tags", "answer %r, row %r" % (got, st[h][2]))
        prev = st
        if fails:
            break
    return fails



# ---- SEARCH layer (request kinds O / WR / QR / FS of handler c19f; model coq/Sys/FndSearchC19.v) ----
ORACLE = {}          # (cc key, lower-cased term) -> (email.PreCheck, tel.PreCheck, basic.AsTag, other authenticators' AsTag)
CCS = ["US", "DE", "-"]
# A cc key is the country code, optionally followed by "@" and the configuration of the driver process that serves
# the request: which of e(mail validator) t(el validator) b(asic authenticator) index (add_to_tags); none = all three.
F_CFGS = ["e-b", "-t-"]


def f_cfg(cckey):
    return cckey.split("@", 1)[1] if "@" in cckey else "etb"


def f_cfg_of_line(l):
    w = l.split()
    return f_cfg(w[3] if w[0] == "FS" else w[1])
F_PLAIN = ["travel", "flowers", "Chess", "x", "new_york"]
F_EMAIL = ["alice@example.com", "Bob@Example.COM"]
F_PHONE_DIGITS = ["6502530000", "650.253.0000", "01711234567", "2125550123"]
F_PHONE_PLUS = ["+16502530000", "+491711234567"]
F_LOGIN = ["alice", "bob_99", "12345", "al"]
F_QUOTED = ['"alice"', '"new york"', '"6502530000"', '"travel,fun"', '"Travel"', '""']
F_RESERVED = ["basic:alice", "email:alice@example.com", "tel:+16502530000", "tel:+14155550000"]
F_JUNK = ["a$b", "éa", "-ab", "#tag", "a:b"]
F_FOREIGN_BODY = ["rival", "acme2", "x"]
F_SEPS = [" ", ",", ", ", " ,", " , ", "  ", "\t"]
F_MASKED = [["org"], ["org"], ["org", "dept"], ["tel"], ["email", "tel"], ["basic"], []]
F_OWN_BY_NS = {"org": ["org:acme", "org:a_b"], "dept": ["dept:r_d"], "tel": ["tel:+16502530000"],
               "email": ["email:alice@example.com"], "basic": ["basic:alice"]}
# what a term becomes when it is rewritten: the tags that make candidates findable
F_CAND_TAGS = ["travel", "flowers", "chess", "alice", "basic:alice", "basic:travel", "tel:+16502530000", "tel:+491711234567",
               "email:alice@example.com", "email:bob@example.com", "basic:6502530000", "basic:12345", "org:acme", "org:rival",
               "dept:r_d", "6502530000", "new_york", "basic:bob_99", "x"]


def f_foreign(rng, masked, own):
    ns = rng.choice(masked) if masked else "org"
    if ns == "tel":
        t = rng.choice(["tel:+14155550000", "tel:+491711234567"])
    elif ns == "email":
        t = "email:bob@example.com"
    else:
        t = ns + ":" + rng.choice(F_FOREIGN_BODY)
    t = t if t not in own else ns + ":zz"
    if rng.random() < 0.12 and not t.startswith("tel:"):
        t = t.title() if rng.random() < 0.5 else t.upper()      # lower-cased by the parser before anything else
    return t


def f_term(rng, masked, own, kind=None):
    k = kind or rng.choice(["plain", "plain", "email", "digits", "plus", "login", "quoted", "own", "foreign", "foreign", "reserved", "junk"])
    if k == "plain":
        return rng.choice(F_PLAIN)
    if k == "email":
        return rng.choice(F_EMAIL)
    if k == "digits":
        return rng.choice(F_PHONE_DIGITS)
    if k == "plus":
        return rng.choice(F_PHONE_PLUS)
    if k == "login":
        return rng.choice(F_LOGIN)
    if k == "quoted":
        return rng.choice(F_QUOTED)
    if k == "own":
        mo = [t for t in own if UNI.prefixed_ns(t) in masked]
        return rng.choice(mo) if mo else rng.choice(own or ["travel"])
    if k == "foreign":
        t = f_foreign(rng, masked, own)
        return '"%s"' % t if rng.random() < 0.15 else t
    if k == "reserved":
        return rng.choice(F_RESERVED)
    return rng.choice(F_JUNK)


F_KINDS = ["plain", "email", "digits", "plus", "login", "quoted", "own", "foreign", "reserved", "junk"]


def f_query(rng, masked, own):
    r = rng.random()
    if r < 0.04:
        return rng.choice(["", " ", "␡", '"', 'a"b', "a,,b", '"a"b', ", ,"])
    n = rng.choice([1, 1, 2, 2, 2, 3, 3, 4])
    parts = []
    for i in range(n):
        parts.append(f_term(rng, masked, own))
        if i + 1 < n:
            parts.append(rng.choice(F_SEPS))
    if rng.random() < 0.12:
        parts.append(rng.choice([",", " ", ", "]))
    if rng.random() < 0.06:
        parts.insert(0, rng.choice([",", " "]))
    q = "".join(parts)
    if rng.random() < 0.05:
        q = q.replace(",", ",,", 1) if "," in q else q + '"'
    return q


def fq(q):
    """a query inside a request: ~ absent, _ empty"""
    if q is None:
        return "~"
    return q.encode("utf-8").hex() if q else "_"


def unfq(h):
    return None if h == "~" else ("" if h in ("_", "-") else bytes.fromhex(h).decode("utf-8", errors="replace"))


def fs_line(masked, own, cc, cands, ops, anon=False):
    cs = ";".join("%d.%s.%d.%s" % (i, k, st, enc_list(l)) for (i, k, st, l) in cands) or "-"
    return "FS %s %s %s %s %s%s" % (enc_list(masked), enc_list(own), cc, cs, "/".join(ops) or "-", " anon" if anon else "")


# auth levels (server/auth/auth.go): sess.authLvl is an int; 'ordinary' = everything that is not LevelRoot
F_LEVEL_NAMES = {0: "LevelNone", 10: "LevelAnon", 20: "LevelAuth", 30: "LevelRoot"}
F_LEVELS_JUNK = [-10, -1, 1, 5, 15, 19, 21, 25, 29, 31, 40, 100, 1000]
F_ROOT = 30


def f_sref(ref):
    """session reference of a request -> (id, level): <id> or <id>l<level>; a bare id means 1, 2 -> auth, 3 -> root"""
    if "l" in ref:
        a, b = ref.split("l", 1)
        return int(a), int(b)
    return int(ref), (30 if int(ref) == 3 else 20)


def f_level_name(lvl):
    return "%s (%d)" % (F_LEVEL_NAMES[lvl], lvl) if lvl in F_LEVEL_NAMES else "%d (not a defined level)" % lvl


def f_rand_level(rng):
    r = rng.random()
    if r < 0.3:
        return 10
    if r < 0.5:
        return 0
    if r < 0.7:
        return 20
    if r < 0.8:
        return 30
    return rng.choice(F_LEVELS_JUNK)


def f_rand_sref(rng, levels):
    """a session of the scenario: ids 1..3 keep their classic meaning, 4.. carry an explicit level (fixed per id
    within the scenario by [levels], now and then re-assigned: a session may log in again)"""
    i = rng.choice([1, 1, 2, 3, 4, 4, 5, 5, 6])
    if i <= 3 and rng.random() < 0.7:
        return str(i)
    if i not in levels or rng.random() < 0.08:
        levels[i] = f_rand_level(rng)
    return "%dl%d" % (i, levels[i])


def f_cands(rng, own, extra=()):
    cands = []
    pool = F_CAND_TAGS + list(extra)
    for i in range(1, rng.randrange(4, 8)):
        tags = sorted(set(rng.choice(pool) for _ in range(rng.randrange(1, 4))))
        st = rng.choice([0, 0, 0, 1, 2])
        cands.append((i, rng.choice("ut"), st, tags))
    return cands


def f_own(rng, masked):
    own = [rng.choice(["flowers", "travel", "alice"])]
    for ns in masked:
        if rng.random() < 0.8:
            own.append(rng.choice(F_OWN_BY_NS.get(ns, [ns + ":own"])))
    if rng.random() < 0.3:
        own.append(rng.choice(["basic:alice", "tel:+16502530000", "org:acme"]))
    return sorted(set(own))


def gen_search_scenario(rng):
    masked = rng.choice(F_MASKED)
    own = f_own(rng, masked)
    cc = rng.choice(["US", "US", "US", "DE", "-"])
    cands = f_cands(rng, own, extra=own)
    ops = []
    levels = {}
    lv = rng.random() < 0.5           # half of the scenarios: sessions of every auth level
    anon = lv and rng.random() < 0.3  # ... of which some with the level-10 sessions logged in by the real code
    for _ in range(rng.randrange(2, 6)):
        s = f_rand_sref(rng, levels) if lv else str(rng.choice([1, 1, 1, 2, 3]))
        q = f_query(rng, masked, own)
        k = rng.random()
        if k < 0.45:
            ops.append("d.%s.%s.~" % (s, fq(q)))
        elif k < 0.85:
            ops.append("d.%s.~.%s" % (s, fq(q)))
        else:
            ops.append("d.%s.%s.%s" % (s, fq(f_query(rng, masked, own)), fq(q)))
        ops.append("g.%s" % s)
        r = rng.random()
        if r < 0.3:
            ops.append("g.%s" % (f_rand_sref(rng, levels) if lv else str(rng.choice([1, 2, 3]))))
        elif r < 0.4:
            ops.append("t")
            ops.append("g.%s" % s)
        elif r < 0.47:
            ops.append("u")
            ops.append("g.%s" % s)
        elif r < 0.52:
            ops.append("d.%s.%s.~" % (s, fq("␡")))
            ops.append("g.%s" % s)
    return fs_line(masked, own, cc, cands, ops, anon)


def fs_level_cases_c19(rng, quick):
    """'ordinary users are never shown suspended or deleted accounts and topics', for EVERY auth level: a query that
    matches an active, a suspended and a soft-deleted account and an active, a suspended and a soft-deleted topic,
    stored as the public or as the private query, searched from a session of each level (none, anon, auth, root and
    numbers that are no level), alone, next to a root session, after a change of level of the same session, after
    unload; once more with the level-10 sessions logged in by the real anonymous account creation / token login"""
    cases = []
    masked, own = ["org"], ["flowers", "org:acme"]
    cands = [(1, "u", 0, ["travel", "flowers"]), (2, "u", 1, ["travel", "flowers"]), (3, "u", 2, ["travel", "flowers"]),
             (4, "t", 0, ["travel", "flowers"]), (5, "t", 1, ["travel", "flowers"]), (6, "t", 2, ["travel", "flowers"]),
             (7, "u", 1, ["basic:alice"]), (8, "t", 2, ["basic:alice", "tel:+16502530000"]), (9, "u", 0, ["chess"])]
    queries = ["travel", "flowers", "travel,chess", "travel flowers", "alice", "6502530000,travel"]
    levels = [0, 10, 20, 30] + (rng.sample(F_LEVELS_JUNK, 4) if quick else F_LEVELS_JUNK)
    for lvl in levels:
        for pub in (0, 1):
            q = rng.choice(queries) if quick else None
            for q in ([q] if quick else queries):
                s = "4l%d" % lvl
                d = "d.%s.%s.~" % (s, fq(q)) if pub else "d.%s.~.%s" % (s, fq(q))
                other = rng.choice([x for x in levels if x != lvl])
                if pub:
                    # the public query is per session: the root session and a session of another level store it too
                    ops = [d, "g.%s" % s, "d.3.%s.~" % fq(q), "g.3", "d.5l%d.%s.~" % (other, fq(q)), "g.5l%d" % other,
                           "g.4l%d" % other, "g.%s" % s, "u", "g.%s" % s]
                else:
                    ops = [d, "g.%s" % s, "g.3", "g.5l%d" % other, "g.4l%d" % other, "g.%s" % s, "u", "g.%s" % s]
                cases.append(fs_line(masked, own, rng.choice(["US", "US", "-"]), cands, ops))
    # the level-10 sessions through the real code: {acc user=new scheme=anonymous login=true}, {login scheme=token}
    for q in (queries[:3] if quick else queries):
        for pub in (0, 1):
            d = "d.1l10.%s.~" % fq(q) if pub else "d.1l10.~.%s" % fq(q)
            ops = [d, "g.1l10", "g.2l10", "g.3", "g.4l0", "g.2l30", "g.2l10", "t", "g.1l10", "u", "g.2l10"]
            cases.append(fs_line(masked, own, "US", cands, ops, anon=True))
    return cases


def fs_corner_cases(rng, quick):
    """the cross product asked for: a masked term (own / foreign) next to a term of every kind, in an AND and in an OR
    position, first and second, as the public and as the private query, from an ordinary and from the root session,
    with the topic holding no tags (as loaded) and then the user's tags"""
    cases = []
    masked, own = ["org"], ["flowers", "org:acme"]
    cands = [(1, "u", 0, ["travel", "org:rival"]), (2, "u", 1, ["travel", "basic:alice"]), (3, "t", 0, ["org:acme", "tel:+16502530000"]),
             (4, "t", 2, ["travel", "org:rival"]), (5, "u", 0, ["basic:alice", "email:alice@example.com"]), (6, "u", 2, ["org:acme"]),
             (7, "t", 1, ["flowers", "basic:6502530000"]), (8, "t", 0, ["tel:+16502530000"])]
    partner = {"plain": "travel", "email": "alice@example.com", "digits": "6502530000", "plus": "+16502530000", "login": "alice",
               "quoted": '"flowers"', "own": "org:acme", "foreign": "org:rival", "reserved": "basic:alice", "junk": "a$b"}
    combos = []
    for m in ("org:acme", "org:rival", '"org:rival"'):
        for kind in F_KINDS:
            for sep in (" ", ",", ", "):
                for first in (0, 1):
                    combos.append((m, kind, sep, first))
    if quick:
        combos = rng.sample(combos, 60)
    for m, kind, sep, first in combos:
        p = partner[kind]
        q = (m + sep + p) if first else (p + sep + m)
        src = rng.choice([0, 1])
        s = rng.choice([1, 1, 3])
        d = "d.%d.%s.~" % (s, fq(q)) if src == 0 else "d.%d.~.%s" % (s, fq(q))
        ops = [d, "g.%d" % s, "t", "g.%d" % s, "g.%d" % (3 if s == 1 else 1)]
        cases.append(fs_line(masked, own, "US", cands, ops))
    # single terms and three-term lists
    for q in ("org:rival", "org:rival,", ",org:rival", "travel,org:rival", "flowers travel, org:rival", "travel org:rival",
              "travel,org:acme", "org:acme", "travel", "alice,6502530000", "flowers 650.253.0000", "6502530000"):
        for s in (1, 3):
            ops = ["d.%d.~.%s" % (s, fq(q)), "g.%d" % s, "d.%d.%s.~" % (s, fq(q)), "g.%d" % s, "t", "g.%d" % s, "u", "g.%d" % s]
            cases.append(fs_line(masked, own, "US", cands, ops))
    return cases


def f_real_rewrite(cc):
    def rw(t, wl):
        if UNI.prefixed_ns(t) is not None:
            return t
        o = ORACLE.get((cc, t))
        if o is None:
            return None
        vals = [x for x in o[:2] if x]
        if len(set(vals)) > 1:
            return None         # two validators claim the term: the order of a Go map decides, nothing to demand
        if vals:
            return vals[0]
        if wl:
            au = [x for x in o[2:] if x]
            if len(set(au)) > 1:
                return None
            if au:
                return au[0]
        return t if UNI.body_ok(t) else ""
    return rw


class Undecided(Exception):
    pass


def f_ref_parse(query, wl, cc):
    """documented reading of a query with the rewriters configured in the driver; None when the oracle has no
    answer for one of its terms (nothing is demanded then)"""
    base = f_real_rewrite(cc)

    def rw(t, w):
        r = base(t, w)
        if r is None:
            raise Undecided()
        return r
    try:
        return ref_parse(query, wl, rw)
    except Undecided:
        return None


def f_terms_of(query):
    """lower-cased terms of a query (what rewriteTag is asked about)"""
    its = ref_lex(UNI.trim(query))
    if its is None:
        # unterminated quote: the parser still rewrites the terms before it
        its = ref_lex(UNI.trim(query).replace('"', " ")) or []
    return [UNI.lower(v) for k, v in its if k != "sep" and v]


def f_oracle_needs(lines):
    need = []
    for l in lines:
        w = l.split()
        if w[0] == "WR":
            need.append((w[1], unhx(w[3])))
            need.append((w[1], UNI.lower(unhx(w[3]))))
        elif w[0] == "QR":
            need += [(w[1], t) for t in f_terms_of(unhx(w[3]))]
        elif w[0] == "FS":
            cc = w[3]
            for op in ([] if w[5] == "-" else w[5].split("/")):
                f = op.split(".")
                if f[0] == "d":
                    for h in f[2:4]:
                        q = unfq(h)
                        if q:
                            need += [(cc, t) for t in f_terms_of(q)]
    return [k for k in dict.fromkeys(need) if k not in ORACLE and k[1]]


def f_parse_calls(s):
    """recorded store calls of one step: [(method, req, opt, active)]"""
    res = []
    if s == "-":
        return res
    for c in s.split("&"):
        f = c.split("!")
        if len(f) != 4:
            return None
        req = [] if f[1] == "-" else [[unhx(h) for h in g.split("+")] for g in f[1].split(";")]
        opt = [] if f[2] == "-" else [unhx(h) for h in f[2].split(",")]
        res.append((f[0], req, opt, f[3] == "1"))
    return res


def fs_parse(case, out):
    w = case.split()
    masked, own, cc = dec_list(w[1]), dec_list(w[2]), w[3]
    cands = {0: ("u", 0, own)}
    if w[4] != "-":
        for c in w[4].split(";"):
            f = c.split(".")
            cands[int(f[0])] = (f[1], int(f[2]), dec_list(f[3]))
    ops = [] if w[5] == "-" else w[5].split("/")
    outs = out[3:].split("/") if out.startswith("FS ") and len(out) > 3 else []
    if len(outs) != len(ops):
        return masked, own, cc, cands, None
    steps = []
    for op, o in zip(ops, outs):
        f = o.split("|")
        if len(f) != 3:
            return masked, own, cc, cands, None
        st = f[2].split("!")
        if len(st) != 3:
            return masked, own, cc, cands, None
        steps.append((op, f[0], f_parse_calls(f[1]), dec_list(st[0]), [unfq(h) for h in st[1].split(",")], unfq(st[2])))
    return masked, own, cc, cands, steps


def f_reply_level(reply, lvl):
    """(reply, level the session really holds): the driver appends ~lvl<n> when the level which the real login code
    gave the session is not the one the request names"""
    if "~lvl" in reply:
        reply, n = reply.split("~lvl", 1)
        try:
            lvl = int(n)
        except ValueError:
            pass
    return reply, lvl


def f_show_op(op):
    f = op.split(".")
    if f[0] == "d":
        i, lvl = f_sref(f[1])
        return "{set desc public=%r private=%r} from session %d (auth level %s)" % (unfq(f[2]), unfq(f[3]), i, f_level_name(lvl))
    if f[0] == "g":
        i, lvl = f_sref(f[1])
        return "{get what=sub} from session %d (auth level %s)" % (i, f_level_name(lvl))
    return {"u": "unload the fnd topic", "t": "Topic.tags := the user's stored tags"}[f[0]]


def f_reading_diff(exp, req, opt):
    """which law a wrong reading breaks: only the rewritten spellings differ, or the interpretation"""
    same_first = [g[0] for g in exp[1]] == [g[0] for g in req if g]
    if same_first and len(exp[1]) == len(req):
        return "search-terms-rewritten-by-precedence"
    return "search-terms-as-documented"


def fs_monitor(case, out, table=None):
    """the search laws of the property evaluated on the implementation's trace of one scenario; a failure is
    reported on the scenario cut after the failing request (what the implementation answered up to there is a
    prefix of its answer: a step depends on the earlier steps only)"""
    fails = fs_monitor_full(case, out)
    if not fails or table is None:
        return fails
    w = case.split()
    res = []
    for law, c, txt in fails:
        n = int(txt.split()[1])          # "request <n> of the scenario: ..."
        short = " ".join(w[:5] + ["/".join(w[5].split("/")[:n])] + w[6:])
        table.setdefault(short, "FS " + "/".join(out[3:].split("/")[:n]))
        res.append((law, short, txt))
    return res


def fs_monitor_full(case, out):
    fails = []
    masked, own, cc, cands, steps = fs_parse(case, out)
    if steps is None:
        return fails
    mset = set(masked)
    for n, (op, reply, calls, tags, pubs, priv) in enumerate(steps):
        f = op.split(".")
        where = "request %d of the scenario: %s -> %s" % (n + 1, f_show_op(op), reply)

        def bad(law, txt):
            fails.append((law, case, where + ": " + txt))
        if calls is None:
            continue
        # whoever calls the store: a masked-namespace term must be one of the user's own tags
        for (m, req, opt, active) in calls:
            for t in [x for g in req for x in g] + opt:
                if mset and UNI.prefixed_ns(t) in mset and t not in own:
                    place = "optional (OR) list" if t in opt else "required (AND) groups"
                    bad("masked-search-terms-are-own-tags", "store.%s called with the masked-namespace term %r in the %s; the user carries %r"
                        % ("FindUsers" if m == "U" else "FindTopics", t, place, own))
                    break
        if f[0] != "g":
            if fails:
                break
            continue
        s, lvl = f_sref(f[1])
        reply, lvl = f_reply_level(reply, lvl)
        # 'ordinary users': every session whose level is not LevelRoot - none, anon, auth, and numbers that are no level
        root = lvl == F_ROOT
        if not root:
            for (m, req, opt, active) in calls:
                if not active:
                    bad("nonroot-search-active-only", "store.%s called with activeOnly=false for a session of auth level %s, which is not root"
                        % ("FindUsers" if m == "U" else "FindTopics", f_level_name(lvl)))
                    break
        found = []
        if reply.startswith("m"):
            found = [x for x in reply[1:].split(",") if x]
        if not root:
            for x in found:
                if x.isdigit() and int(x) in cands and cands[int(x)][1] != 0:
                    bad("nonroot-never-shown-inactive", "%s %s (%s, tags %r) is shown to a session of auth level %s, which is not root"
                        % ("account" if cands[int(x)][0] == "u" else "topic", x, "suspended" if cands[int(x)][1] == 1 else "deleted", cands[int(x)][2],
                           f_level_name(lvl)))
                    break
        # the query that is active for this session, as the topic holds it (printed by the driver)
        q, wl = (pubs[s - 1], True) if pubs[s - 1] is not None else (priv, False)
        if q is None or q == "":
            if fails:
                break
            continue
        exp = f_ref_parse(q, wl, cc)
        if exp is None:
            continue
        if exp[0] == "err":
            if calls or found or not reply.startswith("c4"):
                bad("malformed-search-rejected", "malformed query %r (%s) was not rejected: store calls %r" % (q, exp[1], calls))
        elif exp[1] or exp[2]:
            for (m, req, opt, active) in calls:
                if req != exp[1] or opt != exp[2]:
                    bad(f_reading_diff(exp, req, opt), "query %r (%s, country %s) handed to store.%s as required=%r optional=%r; documented reading required=%r optional=%r"
                        % (q, "public: logins rewritten" if wl else "private: logins not rewritten", cc, "FindUsers" if m == "U" else "FindTopics", req, opt, exp[1], exp[2]))
                    break
            allt = set(x for g in exp[1] for x in g) | set(exp[2])
            for x in found:
                if not x.isdigit() or int(x) not in cands:
                    bad("results-match-query", "result %s is not a row of the scenario" % x)
                    break
                ct = set(cands[int(x)][2])
                if not (ct & allt) or any(g and not (ct & set(g)) for g in exp[1]):
                    bad("results-match-query", "row %s with tags %r is shown for the query %r (reading required=%r optional=%r)"
                        % (x, cands[int(x)][2], q, exp[1], exp[2]))
                    break
        if fails:
            break
    return fails


FS_QUICK = 150
FS_THOROUGH = 4000


def gen_search_cases(ctx):
    rng = ctx.rng
    quick = ctx.tier == "quick"
    cases = []
    # rewriteTag with the real rewriters: every vocabulary term, every country code, with and without logins
    vocab = F_PLAIN + F_EMAIL + F_PHONE_DIGITS + F_PHONE_PLUS + F_LOGIN + F_RESERVED + F_JUNK + \
        ["org:acme", "org:rival", "(650) 253-0000", "650-253-0000", "1 650 253 0000", "alice@", "@example.com", "a@b", "99", "0", "12",
         "1234567", "6502530000x", "x6502530000", "650_253_0000", "+1650253000", "+0000", "00491711234567", "7" * 40, "é@example.com"]
    for t in vocab:
        for cc in CCS:
            for wl in (0, 1):
                cases.append("WR %s %d %s" % (cc, wl, hx(UNI.lower(t))))
    for _ in range(300 if quick else 20000):
        k = rng.random()
        if k < 0.5:
            t = "".join(rng.choice("0123456789") for _ in range(rng.randrange(1, 13)))
            if rng.random() < 0.3:
                t = "+" + t
            elif rng.random() < 0.2:
                t = t[:3] + "." + t[3:]
        elif k < 0.7:
            t = "".join(rng.choice("abc019_.") for _ in range(rng.randrange(1, 8)))
        else:
            t = UNI.lower(rand_word(rng))
        if t:
            cases.append("WR %s %d %s" % (rng.choice(CCS), rng.randrange(2), hx(t)))
    # parseSearchQuery with the real rewriters: pairs of one term of every kind, AND / OR
    masked, own = ["org"], ["flowers", "org:acme"]
    reps = [(k, f_term(rng, masked, own, k)) for k in F_KINDS for _ in range(1 if quick else 3)]
    for (ka, a) in reps:
        for (kb, b) in reps:
            for sep in (" ", ","):
                cases.append("QR %s %d %s" % (rng.choice(["US", "US", "DE", "-"]), rng.randrange(2), hx(a + sep + b)))
    for _ in range(500 if quick else 30000):
        cases.append("QR %s %d %s" % (rng.choice(CCS), rng.randrange(2), hx(f_query(rng, rng.choice(F_MASKED), own))))
    # the same with a rewriter NOT configured to index: tel off; email and basic off
    for cfg in F_CFGS:
        for t in vocab:
            for cc in (["US"] if quick else ["US", "DE"]):
                cases.append("WR %s@%s %d %s" % (cc, cfg, 1 if quick else rng.randrange(2), hx(UNI.lower(t))))
        for (ka, a) in reps:
            b = rng.choice(reps)[1]
            cases.append("QR US@%s %d %s" % (cfg, rng.randrange(2), hx(a + rng.choice([" ", ","]) + b)))
    # whole searches on a real fnd topic
    cases += fs_corner_cases(rng, quick)
    cases += fs_level_cases_c19(rng, quick)
    for _ in range(FS_QUICK if quick else FS_THOROUGH):
        cases.append(gen_search_scenario(rng))
    return cases


TS_QUICK = 340
TS_THOROUGH = 6000


def gen_cases(ctx):
    rng = ctx.rng
    quick = ctx.tier == "quick"
    cases = []
    # every string of length <= L over the alphabet
    L = 5 if quick else 7
    strs = [""]
    for l in range(1, L + 1):
        strs += ["".join(t) for t in itertools.product(ALPHA, repeat=l)]
    for s in strs:
        cases.append("Q 1 " + hx(s))
    # the same against the reference semantics run by the model runner
    for s in strs:
        if len(s) <= 6:
            cases.append("QS 1 " + hx(s))
    for s in rng.sample(strs, min(len(strs), 4000 if quick else 100000)):
        cases.append("Q 0 " + hx(s))
    for _ in range(6000 if quick else 200000):
        q = hx(rand_query(rng))
        wl = rng.randrange(2)
        cases.append("Q %d %s" % (wl, q))
        cases.append("QS %d %s" % (wl, q))
    # rewriteTag alone
    for w in WORDS + TAGS:
        for wl in (0, 1):
            cases.append("W %d %s" % (wl, hx(UNI.lower(w))))
    for _ in range(2000 if quick else 50000):
        cases.append("W %d %s" % (rng.randrange(2), hx(UNI.lower(rand_word(rng)))))
    # normalizeTags (NN = twice, for idempotence)
    for _ in range(3000 if quick else 80000):
        l = rand_tags(rng, nmax=10)
        if rng.random() < 0.03:
            l.append(rng.choice(["␡", " ␡ ", "␡x"]))
        rng.shuffle(l)
        mx = rng.choice([16, 16, 16, 1, 2, 3, 5])
        src = None if rng.random() < 0.02 else l
        cases.append("N %d %s" % (mx, enc_list(src)))
        cases.append("NN %d %s" % (mx, enc_list(src)))
    # restricted namespaces
    for _ in range(3000 if quick else 80000):
        ns = rng.choice(NSS)
        old = rand_tags(rng, TAGS)
        k = rng.random()
        if k < 0.4:
            new = list(old)
            rng.shuffle(new)
            if new and rng.random() < 0.7:
                j = rng.randrange(len(new))
                if rng.random() < 0.5:
                    new[j] = rand_tag(rng)
                else:
                    del new[j]
            if rng.random() < 0.5:
                new.append(rand_tag(rng))
        else:
            new = rand_tags(rng, TAGS)
        cases.append("R %s %s %s" % (enc_list(ns), enc_list(old), enc_list(new)))
        cases.append("F %s %s" % (enc_list(ns), enc_list(new)))
        own = rand_tags(rng, TAGS)
        terms = rand_tags(rng, TAGS + own, nmax=5) if own else rand_tags(rng, TAGS, nmax=5)
        cases.append("G %s %s %s" % (enc_list(ns), enc_list(own), enc_list(terms)))
        cases.append("D %s %s" % (enc_list(old if old else []), enc_list(new if new else [])))
    # stateful tag scenarios
    cases += ts_corner_cases()
    for _ in range(TS_QUICK if quick else TS_THOROUGH):
        cases.append(gen_scenario(rng))
    # the search layer: real rewriters, real fnd topic
    cases += gen_search_cases(ctx)
    return cases


MALFORMED_LAW = {"glued-quote": "glued-quote-rejected", "unterminated-quote": "unterminated-quote-rejected",
                 "double-comma": "double-comma-rejected"}


def tag_valid(t):
    return (2 <= len(t) <= 96 and (UNI.isc("letter", t[0]) or UNI.isc("digit", t[0])) and UNI.lower(t) == t
            and UNI.trim(t) == t)


def monitors(cases, t):
    fails = []
    for c in cases:
        w = c.split()
        o = t[c].split()
        if o and o[0] == "PANIC":
            fails.append(("no-panic", c, "panic in the implementation"))
            continue
        if w[0] == "Q":
            q = unhx(w[2])
            ref = ref_parse(q, w[1] == "1")
            if ref[0] == "err":
                if o[1] != "err":
                    fails.append((MALFORMED_LAW[ref[1]], c, "malformed query %r (%s) accepted and read as %s" % (q, ref[1], t[c])))
            elif o[1] == "err":
                has_quote = '"' in q
                fails.append(("quoted-term-accepted" if has_quote else "wellformed-query-accepted", c,
                              "well-formed query %r rejected; documented reading %s" % (q, fmt_q(ref))))
            elif t[c] != fmt_q(ref):
                fails.append(("interpreted-as-documented", c, "query %r read as %s, documented reading %s" % (q, t[c], fmt_q(ref))))
        elif w[0] == "W":
            term = unhx(w[2])
            got = unhx(o[1])
            if UNI.prefixed_ns(term) is None:
                want = fake_val(term) or (fake_auth(term) if w[1] == "1" else "")
                if want and got != want:
                    fails.append(("rewritten-to-prefixed-form", c, "term %r rewritten to %r, configured rewriter says %r" % (term, got, want)))
        elif w[0] == "N":
            if o[1] == "ok":
                res = dec_list(o[2])
                mx = int(w[1])
                if len(res) > mx:
                    fails.append(("norm-count", c, "%d tags kept, limit %d" % (len(res), mx)))
                if len(set(res)) != len(res):
                    fails.append(("norm-nodup", c, "duplicate tag kept"))
                bad = [x for x in res if not tag_valid(x)]
                if bad:
                    fails.append(("norm-each-tag-valid", c, "tag %r kept" % bad[0]))
        elif w[0] == "NN":
            # NN ok a | ok b   (nil | nil)
            a, b = t[c][3:].split(" | ")
            ca = [] if a == "nil" else dec_list(a.split()[1])
            cb = [] if b == "nil" else dec_list(b.split()[1])
            if ca != cb:
                fails.append(("norm-idempotent", c, "normalising the normalised list changes it: %r -> %r" % (ca, cb)))
        elif w[0] == "TS":
            fails += ts_monitor(c, t[c])
        elif w[0] == "FS":
            fails += fs_monitor(c, t[c], t)
        elif w[0] == "WR":
            term = unhx(w[3])
            got = unhx(o[1]) if len(o) > 1 else ""
            orc = ORACLE.get((w[1], term))
            if orc is not None and UNI.prefixed_ns(term) is None:
                want = f_real_rewrite(w[1])(term, w[2] == "1")
                cfg = f_cfg(w[1])
                for letter, pfx in (("e", "email:"), ("t", "tel:"), ("b", "basic:")):
                    if letter not in cfg and got.startswith(pfx):
                        fails.append(("rewritten-only-when-configured", c,
                                      "term %r rewritten to %r although %s is not configured to index (add_to_tags off; configuration %s)"
                                      % (term, got, pfx[:-1], cfg)))
                if want and want != term and got != want:
                    who = "validator" if want in orc[:2] else "authenticator"
                    fails.append(("rewritten-to-prefixed-form-by-precedence", c,
                                  "term %r (country %s, login rewriting %s) rewritten to %r; the configured rewriters answer email=%r tel=%r basic=%r, so the %s's %r is due (validators first, then authenticators)"
                                  % (term, w[1], "on" if w[2] == "1" else "off", got, orc[0], orc[1], orc[2], who, want)))
        elif w[0] == "QR":
            q = unhx(w[3])
            ref = f_ref_parse(q, w[2] == "1", w[1])
            cfg = f_cfg(w[1])
            spelled = [unhx(h) for g in (o[2].split(";") if len(o) > 3 and o[2] != "-" else []) for h in g.split("+")] + \
                      [unhx(h) for h in (o[3].split(",") if len(o) > 3 and o[3] != "-" else [])]
            srcs = set(f_terms_of(q))
            for letter, pfx in (("e", "email:"), ("t", "tel:"), ("b", "basic:")):
                extra = [x for x in spelled if x.startswith(pfx) and x not in srcs]
                if letter not in cfg and extra:
                    fails.append(("rewritten-only-when-configured", c,
                                  "query %r: term rewritten to %r although %s is not configured to index (add_to_tags off; configuration %s)"
                                  % (q, extra[0], pfx[:-1], cfg)))
            if ref is None:
                pass
            elif ref[0] == "err":
                if o[1] != "err":
                    fails.append((MALFORMED_LAW[ref[1]], c, "malformed query %r (%s) accepted and read as %s" % (q, ref[1], t[c])))
            elif o[1] == "err":
                fails.append(("quoted-term-accepted" if '"' in q else "wellformed-query-accepted", c,
                              "well-formed query %r rejected; documented reading %s" % (q, fmt_q(ref))))
            elif t[c].split(" ", 1)[1] != fmt_q(ref).split(" ", 1)[1]:
                got_and = [] if o[2] == "-" else [[unhx(h) for h in g.split("+")] for g in o[2].split(";")]
                got_or = [] if o[3] == "-" else [unhx(h) for h in o[3].split(",")]
                fails.append((f_reading_diff(ref, got_and, got_or).replace("search-terms", "query-terms"), c,
                              "query %r (country %s, login rewriting %s) read as required=%r optional=%r, documented reading required=%r optional=%r"
                              % (q, w[1], "on" if w[2] == "1" else "off", got_and, got_or, ref[1], ref[2])))
        elif w[0] == "D":
            # stringSliceDelta sorts its arguments in place (the first one is the topic's cached tag list):
            # whatever it does to them, they must keep their elements
            if len(o) == 6:
                for before, after, name in ((w[1], o[4], "first"), (w[2], o[5], "second")):
                    if sorted(dec_list(before) or []) != sorted(dec_list(after) or []):
                        fails.append(("arguments-keep-their-elements", c, "stringSliceDelta left its %s argument %r as %r" % (name, dec_list(before), dec_list(after))))
        elif w[0] == "F":
            if len(o) > 2 and o[2].startswith("changed:"):
                fails.append(("arguments-left-intact", c, "filterRestrictedTags rewrote the caller's slice %r to %r" % (dec_list(w[2]), dec_list(o[2][8:]))))
        elif w[0] == "R":
            if len(o) > 2 and o[2].startswith("changed:"):
                fails.append(("arguments-left-intact", c, "restrictedTagsEqual rewrote one of the caller's slices (%r / %r) to %r" % (dec_list(w[2]), dec_list(w[3]), dec_list(o[2][8:]))))
            if o[1] == "1":
                ns = set(dec_list(w[1]))
                ro = sorted(x for x in dec_list(w[2]) if UNI.prefixed_ns(x) in ns)
                rn = sorted(x for x in dec_list(w[3]) if UNI.prefixed_ns(x) in ns)
                if ro != rn:
                    fails.append(("restricted-equal-sound", c, "update accepted although restricted tags change: %r -> %r" % (ro, rn)))
        elif w[0] == "G":
            if o[1] == "1":
                ns = set(dec_list(w[1]))
                own = set(dec_list(w[2]))
                bad = [x for x in dec_list(w[3]) if UNI.prefixed_ns(x) in ns and x not in own]
                if bad:
                    fails.append(("masked-gate-sound", c, "search allowed with masked term %r the searcher does not carry" % bad[0]))
    # within a law, show first the inputs whose misreading is visible (a non-empty answer), shortest first
    first = {}
    for n, f in enumerate(fails):
        first.setdefault(f[0], n)
    fails.sort(key=lambda f: (first[f[0]], 1 if (t[f[1]].endswith(" - -") or f[2].endswith(" - -")) else 0, len(f[1])))
    return fails


def neighbours(ctx, case):
    w = case.split()
    res = []
    if w[0] == "Q":
        s = unhx(w[2])
        for i in range(len(s) + 1):
            for ch in ALPHA:
                res.append("Q %s %s" % (w[1], hx(s[:i] + ch + s[i:])))
            if i < len(s):
                res.append("Q %s %s" % (w[1], hx(s[:i] + s[i + 1:])))
    elif w[0] == "QR":
        q = unhx(w[3])
        for i in range(len(q) + 1):
            for ch in [" ", ",", '"', "1", "a"]:
                res.append("QR %s %s %s" % (w[1], w[2], hx(q[:i] + ch + q[i:])))
            if i < len(q):
                res.append("QR %s %s %s" % (w[1], w[2], hx(q[:i] + q[i + 1:])))
        res.append("QR %s %s %s" % (w[1], "0" if w[2] == "1" else "1", w[3]))
    elif w[0] == "WR":
        for cc in CCS:
            for wl in "01":
                res.append("WR %s %s %s" % (cc, wl, w[3]))
    elif w[0] == "FS":
        ops = [] if w[5] == "-" else w[5].split("/")
        for i in range(len(ops)):
            res.append(" ".join(w[:5] + ["/".join(ops[:i] + ops[i + 1:]) or "-"] + w[6:]))
        for i in range(1, len(ops)):
            res.append(" ".join(w[:5] + ["/".join(ops[:i])] + w[6:]))
        # the same queries through the other field / from the other session / from a session of another auth level
        for i, op in enumerate(ops):
            f = op.split(".")
            if f[0] == "d":
                sw = "d.%s.%s.%s" % (f[1], f[3], f[2])
                res.append(" ".join(w[:5] + ["/".join(ops[:i] + [sw] + ops[i + 1:])] + w[6:]))
            elif f[0] == "g":
                res.append(" ".join(w[:5] + ["/".join(ops[:i] + ["t", op] + ops[i + 1:])] + w[6:]))
                sid = f_sref(f[1])[0]
                for lvl in (0, 10, 20, 31):
                    res.append(" ".join(w[:5] + ["/".join(ops[:i] + ["g.%dl%d" % (sid, lvl)] + ops[i + 1:])] + w[6:]))
    elif w[0] == "TS":
        ops = [] if w[4] == "-" else w[4].split("/")
        for i in range(len(ops)):
            res.append(" ".join(w[:4] + ["/".join(ops[:i] + ops[i + 1:]) or "-"]))
        for i in range(1, len(ops)):
            res.append(" ".join(w[:4] + ["/".join(ops[:i])]))
    elif w[0] in ("N", "NN", "R", "F", "G", "D"):
        # drop one element of the last list; add one tag
        l = dec_list(w[-1]) or []
        for i in range(len(l)):
            res.append(" ".join(w[:-1] + [enc_list(l[:i] + l[i + 1:])]))
        for x in TAGS[:6]:
            res.append(" ".join(w[:-1] + [enc_list(l + [x])]))
    return res


def nontrivial(case, out):
    w = out.split()
    if case.startswith("TS"):
        return "c200" in out or "c403" in out
    if case.startswith("FS"):
        return "U!" in out or "c403" in out
    if case.startswith("QR"):
        return len(w) == 4 and w[1] == "ok" and (w[2] != "-" or w[3] != "-")
    if case.startswith("Q"):
        return len(w) == 4 and w[1] == "ok" and (w[2] != "-" or w[3] != "-")
    return not (out.endswith(" -") or out.endswith(" nil") or out.endswith(" 0") or out.endswith(" _"))


def run(ctx):
    global UNI
    ok, out = ctx.build_main()
    if not ok:
        ctx.coq_props()
        ctx.violation("corr", "harness-build-broken", "package-main driver no longer builds against the repository: " + out[-1500:],
                      {"correspondence": "build of harness/overlay/server against the server package"})
        ctx.finish()
    kinds = ["lower", "letter", "digit", "number", "space"]
    rc, tabs, err = ctx.run_main_lines("c19", ["UT " + k for k in kinds] + ["UH"])
    if rc != 0 or len(tabs) != len(kinds) + 1:
        ctx.coq_props()
        ctx.violation("corr", "driver-crashed", "driver failed on the unicode table requests: " + err[-1500:],
                      {"correspondence": "driver run", "stderr": err[-3000:]})
        ctx.finish()
    tabd = {k: (v.split(" ", 1)[1] if " " in v else "-") for k, v in zip(kinds, tabs)}
    UNI = Uni(tabd)
    path = os.path.join(ctx.work, "unitab.txt")
    with open(path, "w") as f:
        for k in kinds[:4]:
            f.write("%s %s\n" % (k, tabd[k]))
    os.environ["VERIF_UNITAB"] = path
    if tabs[-1] != "UH ok":
        ctx.violation("corr", "unicode-hypotheses", "a hypothesis of the theorems about unicode.ToLower/IsSpace/strings.ToLower/TrimSpace/UTF-8 order fails on this toolchain: " + tabs[-1],
                      {"correspondence": "Section hypotheses lower_idem / lower_space on all code points", "detail": tabs[-1]})
    # model's concrete is_space against unicode.IsSpace
    if tabd["space"] != "9-13,32-32,133-133,160-160,5760-5760,8192-8202,8232-8233,8239-8239,8287-8287,12288-12288":
        ctx.violation("corr", "unicode-space-table", "unicode.IsSpace differs from Query.is_space: " + tabd["space"],
                      {"correspondence": "Query.is_space"})

    SEARCH = ("WR ", "QR ", "FS ")
    opath = os.path.join(ctx.work, "c19oracle.txt")
    os.environ["VERIF_C19ORACLE"] = opath

    def ask_oracle(lines):
        """the configured rewriters asked directly about every term of the search requests (request O); the answers
        instantiate the model's Section variables vals / auths (file read by the runner) and the monitor's reference"""
        allneed = f_oracle_needs(lines)
        for cfg in sorted(set(f_cfg(cc) for cc, _ in allneed)):
            need = [(cc, t) for cc, t in allneed if f_cfg(cc) == cfg]
            rc, out, err = ctx.run_main_lines("c19f", ["CFG " + cfg] + ["O %s %s" % (cc, hx(t)) for cc, t in need])
            if rc != 0 or len(out) != len(need) + 1:
                return rc or 1, err
            for (cc, t), o in zip(need, out[1:]):
                f = o.split()
                if len(f) == 5 and f[0] == "O":
                    v = [unhx(h) for h in f[1:]]
                    # a validator that is not configured with add_to_tags is not among the model's vals
                    if "e" not in cfg:
                        v[0] = ""
                    if "t" not in cfg:
                        v[1] = ""
                    ORACLE[(cc, t)] = tuple(v)
        with open(opath, "w") as f:
            for (cc, t), v in ORACLE.items():
                f.write("%s %s %s\n" % (cc, hx(t), " ".join(x.encode("utf-8").hex() if x else "_" for x in v)))
        return 0, ""

    def run_impl(lines):
        # the pure requests, the tag scenarios and the search requests are served by three handlers (one process
        # each; the search handler one process per configuration of the rewriters)
        groups = {}

        def which(l):
            if l.startswith("TS "):
                return ("c19x", None)
            if l.startswith(SEARCH):
                return ("c19f", f_cfg_of_line(l))
            return ("c19", None)
        for l in lines:
            groups.setdefault(which(l), []).append(l)
        srch = [l for k, g in groups.items() if k[0] == "c19f" for l in g]
        if srch:
            rc, err = ask_oracle(srch)
            if rc != 0:
                return rc, [], err
        outs, errs = {}, ""
        for (h, cfg), g in sorted(groups.items(), key=lambda kv: (kv[0][0], kv[0][1] or "")):
            pre = ["CFG " + cfg] if cfg else []
            rc, out, err = ctx.run_main_lines(h, pre + g)
            errs += err
            if rc != 0 or len(out) != len(pre) + len(g):
                return (rc or 1), out, err
            outs[(h, cfg)] = iter(out[len(pre):])
        return 0, [next(outs[which(l)]) for l in lines], errs

    purelib.run_pure(
        ctx, "c19", gen_cases, monitors, neighbours, nontrivial,
        rule="parseSearchQuery on every string of length <=5 (quick) / <=7 (thorough) over {a,b,space,tab,comma,quote,colon,e-acute} with login rewriting, a sample of them without, and seeded random queries of 1..6 terms (vocabulary of plain/prefixed/upper-case/non-ASCII/invalid terms and random runes of all UTF-8 widths, 30% quoted, 10% broken quotes, 8% glued, doubled commas, unicode white space around); rewriteTag on the vocabulary and random words; normalizeTags (once and twice) on random lists with case/space/duplicate/length/non-letter/null-marker variations under maxTagCount in {1,2,3,5,16}; restrictedTagsEqual / filterRestrictedTags / stringSliceDelta / the fnd masked-namespace gate on random old/new lists against namespace sets {}, {email}, {email,tel}, {basic,x_1}, {a}, each call with its argument slices compared before/after (F, R: untouched; D: same elements); stateful scenarios TS on real 'me' and group topics above memverif with globals.immutableTagNS in {basic}, {email,tel}, {basic,email}, {tel}, {x_1,basic}, {} and maxTagCount in {16,4,6,3}: 400 hand-shaped scenarios (one ordinary + one reserved tag in every relative order in the old and the new list; rejected attempt followed by a read, by an accepted update, by unload + reload; non-owner; store failure) and seeded random scenarios of 5..12 requests aimed at the holder's current tags (34% change ordinary tags only, 18% replace / 10% drop / 10% add a reserved tag, same set, null marker, duplicates, random; raw spellings with case and white space, shuffled / ascending / descending; 6% store failure; 15% non-owner), {get tags}, unload, server-side UpdateTags, {sub new set.tags}, {acc new tags} with an authenticator adding a reserved tag; after EVERY request the reply, the stored row and the loaded topic's tags of every holder are compared with the model and the laws are evaluated; SEARCH layer (handler c19f: validators email + tel and the basic authenticator configured with add_to_tags, country codes US / DE / none): rewriteTag (WR) on a vocabulary of plain / e-mail / national digit-only and dotted phone / +phone / login / reserved / junk terms x country x login rewriting plus random digit strings and words; parseSearchQuery (QR) on every ordered pair of one term of each of 10 kinds (plain, e-mail, digits-only phone, +phone, login, quoted, masked-own, masked-foreign, reserved, junk) joined by AND and by OR, and random 1..4-term queries; the vocabulary and a sample of the pairs again in two more driver processes where a rewriter is NOT configured to index (tel add_to_tags off; email and basic add_to_tags off: law rewritten-only-when-configured); whole searches (FS) on a real fnd topic above memverif whose FindUsers / FindTopics record their arguments: 60 sampled (quick) / all 180 hand-shaped scenarios (a masked own / foreign / quoted-foreign term next to a term of every kind, AND / OR / comma-space, first / second, as public or private query, ordinary or root session, topic tags empty then the user's) + the queries of the seeded demonstrations + seeded random scenarios of 2..5 query rounds ({set desc public|private|both}, {get sub} from the same / another / the root session, null marker, unload, topic tags assigned) against masked namespaces {org}, {org,dept}, {tel}, {email,tel}, {basic}, {} with 3..6 candidate accounts / topics (60% active, suspended, deleted) carrying the rewritten forms; AUTH LEVELS: half of the random scenarios draw their sessions from ids 1..6 with sess.authLvl in {0 none, 10 anon, 20 auth, 30 root, junk -10 -1 1 5 15 19 21 25 29 31 40 100 1000} (fixed per session id, now and then re-assigned), a third of those as 'anon' scenarios in which the searching user is an account created by the real {acc user=new scheme=anonymous login=true} and every level-10 session gets its level from that reply / from a real {login scheme=token}; plus hand-shaped level scenarios: for each level (none, anon, auth, root, 4 (quick) / all 13 junk values) x public / private query, a query matching an active, a suspended and a soft-deleted account and an active, a suspended and a soft-deleted topic searched from a session of that level, from the root session, from a session of another level, from the same session after its level changed, and after unload; after EVERY request the reply, the recorded store arguments, the topic's tags and the public / private queries it holds are compared with the model and the search laws are evaluated",
        trusted=["harness/overlay/server/zz_verif_c19_test.go (calls parseSearchQuery, rewriteTag, normalizeTags, filterRestrictedTags, restrictedTagsEqual, stringSliceDelta of package main; installs one fake validator and one fake authenticator so that rewriting is deterministic; request G restates the two-line gate expression of topic.go:2434-2442)",
                 "harness/runner/r_c19.ml: UTF-8 <-> rune list conversion (Go range-loop decoding), unicode tables of the Go toolchain instantiate the Section variables lower/is_letter/is_digit/is_number; their hypotheses are checked on all 0x110000 code points by the driver request UH on every run",
                 "harness/overlay/server/zz_verif_c19x_test.go (scenario driver: real hub / topics / sessions / store mappers above memverif; sessions are attached on demand before a {set}/{get}; unload = {leave} of every session + the hub.unreg message of the idle timer; server-side tag change = store.Users.UpdateTags while the topic is not loaded; fake authenticator 'verifx' whose AddRecord appends the scenario's tags to rec.Tags as auth/basic does; the token authenticator is initialised with a fixed key; one failing adapter call injected through memverif.SetFault)",
                 "harness/overlay/server/db/memverif (store contract modelled from db/mysql/adapter.go: UserUpdate/TopicUpdate replace the row's tags and refuse duplicates, UserUpdateTags returns the tags ordered)",
                 "tools/props/c19.py: python restatement of QuerySpec.denote / well_formed and of the tag laws, evaluated on the implementation's answers",
                 "byte order of valid UTF-8 strings equals code point order (checked by UH); input strings are valid UTF-8",
                 "harness/overlay/server/zz_verif_c19fnd_test.go (search driver: globals.validators = {email, tel: add_to_tags}, auth/basic initialised with add_to_tags, globals.maskedTagNS per scenario, sess.countryCode assigned directly; request O asks each validator's PreCheck and each authenticator's AsTag DIRECTLY - these answers instantiate the model's Section variables vals / auths in the runner (file VERIF_C19ORACLE) and the monitor's reference, so the libraries behind them (net/mail, nyaruka/phonenumbers, the login regexp) are oracles, not modelled; request t assigns Topic.tags of the loaded fnd topic from the user's row, which no client request does at HEAD (initTopicFnd leaves it empty) - it exercises the gate with own tags present; a session of level L = a session object of the searching user with sess.authLvl := L assigned directly (root, none and the junk values have no login path in the drivers' configuration: LevelNone is what the proxied session of a cluster master carries), except the level-10 sessions of the 'anon' scenarios, whose level is assigned by the real replyCreateUser / onLogin / token login code with the anonymous and token authenticators initialised)",
                 "harness/overlay/server/db/memverif FindUsers / FindTopics (store contract modelled from db/mysql/adapter.go 2352-2533: a row matches when it has one of the tags and one of every non-empty required group; activeOnly keeps state = OK; the caller is skipped among users) and zz_find_c19.go (argument log); the SQL of the real adapters is not executed",
                 "candidate rows are at most 8 (below the adapter's result limit); result ORDER is not compared (sets of ids)",
                 "no plugin is configured (pluginFind returns the query unchanged); fnd.public / private are strings"],
        run_impl=run_impl)
