"""C13 proof half, tie to the code: the extracted model (coq/Sys/PanicSites.v through harness/runner/
r_c13.ml) is run on the structured messages of the fuzz run together with the state facts the driver
reported (ver / logged in / root / attached / loaded / subscription row), and the outcome class of the
implementation (panic | silent | first reply code) must be one the model allows for some value of
the oracles it leaves open (reply code R* = decided below the modelled level)."""
import re

PLACE = {"@U1@": "usrAAAAAAAAAA1", "@U2@": "usrAAAAAAAAAA2", "@U3@": "usrAAAAAAAAAA3", "@GG@": "grpGG", "@GC@": "grpGC", "@CC@": "chnGC",
         "@GO@": "grpGO", "@PP@": "p2pPP", "@PR@": "p2pPR"}
SESS_USER = {"in": "@U1@", "att": "@U1@", "peer": "@U2@", "root": "@U3@", "slow": "@U2@", "slow2": "@U1@"}
SCHEMES = ["basic", "token", "code", "anonymous", "rest"]


def hx(s):
    if not isinstance(s, str):
        return None
    for k, v in PLACE.items():
        s = s.replace(k, v)
    return s.encode("utf-8", "surrogatepass").hex() or "-"


def bit(x):
    return "1" if x else "0"


def lines_for(it, r, repaired):
    m = it.msg
    if m is None or r is None or r.get("term") or r.get("st") in (None, "", "-") or "dec" not in r:
        return None
    kinds = [k for k in m if k != "extra"]
    if len(kinds) != 1 or not isinstance(m[kinds[0]], dict):
        return None
    k = kinds[0]
    b = m[k]
    ex = m.get("extra") or {}
    obo = ex.get("obo", "")
    dec = r["dec"]
    if k == "hi" or dec.split("/")[0] != k:
        return None
    st = r["st"]
    facts = "".join(st[i] for i in (1, 3, 5, 7, 9, 13 if k == "get" and len(st) > 13 else 11))
    if obo and facts[2] == "1":
        return None          # root acting for somebody else: the driver's facts are about the session's own user
    topic = b.get("topic", "")
    if not isinstance(topic, str) or not isinstance(b.get("id", ""), str):
        return None
    tuid = "0"
    mm = re.fullmatch(r"@U[123]@", topic)
    if mm:
        tuid = "1" if SESS_USER.get(it.sess) == topic else "2"
    what = b.get("what", "") if k in ("del", "note") else ""
    gw = b.get("what", "").split(" ") if k == "get" else []
    gbits = bit("desc" in gw) + bit("sub" in gw) + bit("data" in gw) + bit(any(x in gw for x in ("del", "tags", "cred")))
    q = b if k == "set" else (b.get("set") if k == "sub" and isinstance(b.get("set"), dict) else {})
    desc = q.get("desc")
    sub = q.get("sub")
    sbits = bit(desc is not None) + bit(isinstance(desc, dict) and desc.get("private") is not None) + bit(sub is not None) + \
        bit(isinstance(sub, dict) and sub.get("mode", "") != "") + bit(q.get("tags") is not None) + bit(q.get("cred") is not None)
    seq = b.get("seq", 0) if k == "note" else 0
    if not isinstance(seq, int) or isinstance(seq, bool):
        return None
    fields = [hx(b.get("id", "")), hx(topic), tuid, hx(what), gbits, sbits, str(seq), hx(b.get("event", "") if k == "note" else ""),
              bit(k == "note" and b.get("payload") is not None), bit(bool(b.get("unsub"))), hx(b.get("user", "") if k == "acc" else ""),
              hx(str(b.get("scheme", "")).lower() if k == "login" else ""), hx(str(b.get("tmpscheme", "")).lower() if k == "acc" else ""),
              "0", "1", hx(obo), bit(obo in ("@U1@", "@U2@")), bit(bool(ex.get("attachments"))), ",".join(hx(s) for s in SCHEMES),
              # what the in-topic default-access site reads (driver facts c e x j h t f)
              "".join(st[i] for i in (15, 17, 19, 21, 23, 25, 27)) if len(st) > 27 else "9000001"]
    if any(f is None for f in fields):
        return None
    return "H %s %%s %s %s %s" % ("1" if repaired else "0", facts, k, " ".join(fields))


def impl_class(r):
    if r["res"].startswith("PANIC") or r["res"] == "CRASH":      # CRASH: the process died in a hub / topic goroutine
        return "P"
    fr = [f for f in r["frames"] if f[0] in ("c", "m")]
    if not fr:
        return "S"
    return "Rmeta" if fr[0][0] == "m" else "R%d" % fr[0][1]


def allowed(model, ic):
    for mc in model.split("|"):
        if mc == ic or (mc == "R*" and ic.startswith("R")) or (mc == "R200" and ic == "Rmeta") or (mc.startswith("P") and ic == "P"):
            return True
    return False


def correspondence(ctx, stats):
    recs = stats.get("model_cases", [])
    ok, out = ctx.build_runner()
    if not ok:
        ctx.violation("proof", "extraction-broken", "model extraction/runner build failed: " + out[-1500:], {"theorem_or_obligation": "extraction of the model"})
        return
    panicked = any(impl_class(r) == "P" for _, _, r in recs)
    cases = []
    for cfg, it, r in recs:
        l0 = lines_for(it, r, True)
        if l0 is None:
            continue
        cases.append((cfg, it, r, l0 % str(cfg["media"]), lines_for(it, r, False) % str(cfg["media"])))
    if not cases:
        stats["model"] = {"compared": 0}
        return
    rc, rep, err = ctx.run_model("c13", [c[3] for c in cases])
    rc2, unrep, err2 = ctx.run_model("c13", [c[4] for c in cases])
    if rc != 0 or rc2 != 0 or len(rep) != len(cases) or len(unrep) != len(cases):
        ctx.violation("proof", "runner-crashed", "model runner failed: " + (err + err2)[-1500:], {"theorem_or_obligation": "model runner"})
        return
    mism = []
    predicted = 0
    classes = {}
    site_counts = {}
    for (cfg, it, r, l1, l0), m1, m0 in zip(cases, rep, unrep):
        ic = impl_class(r)
        for mc in m0.split("|"):
            if mc.startswith("P"):
                # requests on which the model of the code BEFORE the repairs reaches a panic site (the code as it is must not)
                site_counts[mc] = site_counts.get(mc, 0) + 1
        classes[ic[:2] if ic.startswith("R") else ic] = classes.get(ic[:2] if ic.startswith("R") else ic, 0) + 1
        if ic == "P":
            # the model of the code as it is (all repairs) is proved never to panic (c13_no_panic): a panic of the
            # implementation is a disagreement; it is "predicted" when the model of the code before the repairs panics here
            if allowed(m0, "P"):
                predicted += 1
            mism.append((cfg, it, r, "model (code as it is) " + m1 + "; model (before the repairs) " + m0, ic))
            continue
        if not allowed(m1, ic) and not allowed(m0, ic):
            mism.append((cfg, it, r, "model " + m1, ic))
    stats["model"] = {"compared": len(cases), "mismatches": len(mism), "impl_panics_predicted_by_unrepaired_model": predicted,
                      "impl_outcome_classes": classes,
                      "requests_reaching_a_modelled_site_in_the_unrepaired_model": site_counts,
                      "projection": "outcome class per structured request: panic | silent | first {ctrl} code / {meta}; model run under all values of the oracles (o_reject, o_store_err); requests of a root session with extra.obo and {hi} are not compared"}
    if mism and not ctx.violations:
        cfg, it, r, mc, ic = mism[0]
        ctx.violation("corr", "correspondence-outcome", "model and implementation disagree on %d of %d structured requests, e.g. %s (session %s, state %s): impl=%s %s; no monitor failure found"
                      % (len(mism), len(cases), it.show()["bytes"][:300], it.sess, r["st"], ic, mc),
                      {"correspondence": "outcome class of Session.dispatch", "input": it.show(), "state": r["st"], "impl": ic, "model": mc,
                       "more": [{"input": a.show()["bytes"][:300], "session": a.sess, "state": b["st"], "impl": d, "model": c2} for _, a, b, c2, d in mism[1:12]]})
    elif mism:
        stats["model"]["first_mismatches"] = [{"input": a.show()["bytes"][:300], "session": a.sess, "state": b["st"], "impl": d, "model": c2} for _, a, b, c2, d in mism[:12]]
