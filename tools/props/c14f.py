"""C14, round s14f.
(1) OBO scenarios: root sessions attached to group topics on behalf of users ({sub} with extra.obo), then {leave} /
    disconnect / {del topic}; run by the life-cycle driver (zz_verif_c14_test.go, request suffix obo=<user>, session
    attribute root=1); law online-count-restored on the implementation's dump; the per-user online counters and the
    attach-as records compared exactly with the extracted model (RegistryC14f part B: oattach_c14f / oleave_c14f).
(2) REGISTRY scenarios: the real SessionStore (TestVerifC14Registry in zz_verif_c14f_test.go) against the extracted
    model (RegistryC14f part A) on the same call sequences; laws registry-exact / registry-call-hangs on the
    implementation's dump of ss.sessCache and ss.lru after every call."""
import json
import os
import subprocess
import time
import vlib


# ---------------------------------------------------------------- (1) acting on behalf of
def gen_obo_scn_c14f(Scn, rng, sid):
    sc = Scn(sid)
    nu = rng.randint(2, 3)
    root = nu + 1
    sc.users = list(range(1, nu + 2))
    regular = list(range(1, nu + 1))
    for k in range(1, rng.randint(1, 2) + 1):
        sc.topics[k] = dict(kind="grp", owner=rng.choice(regular), members=list(regular))
    si = 0
    for u in regular:
        si += 1
        sc.sessions[si] = dict(user=u)
    roots = []
    slow_tail = rng.random() < 0.3
    for _ in range(rng.randint(1, 2)):
        si += 1
        sc.sessions[si] = dict(user=root, root=1)
        if slow_tail and not roots:
            sc.sessions[si]["cap"] = 2      # 2-slot send queue: dropped as a slow consumer in the tail below
        roots.append(si)
    att = {}
    alive = set(sc.sessions)
    deleted = set()
    rid = 0
    for _ in range(rng.randint(8, 16)):
        rid += 1
        ks = [k for k in sc.topics if k not in deleted]
        if not ks or not alive:
            break
        k = rng.choice(ks)
        r = rng.random()
        line = None
        if r < 0.40:
            cand = [s for s in roots if s in alive and (s, k) not in att]
            if cand:
                s = rng.choice(cand)
                u = rng.choice(regular)
                att[(s, k)] = u
                line = "q %d r%d sub %d 0 obo=%d" % (s, rid, k, u)
        elif r < 0.58:
            cand = [s for s in roots if s in alive and (s, k) in att]
            if cand:
                s = rng.choice(cand)
                line = "q %d r%d leave %d 0 obo=%d" % (s, rid, k, att.pop((s, k)))
        elif r < 0.74:
            cand = [s for s in alive if s not in roots and (s, k) not in att]
            if cand:
                s = rng.choice(cand)
                att[(s, k)] = sc.sessions[s]["user"]
                line = "q %d r%d sub %d" % (s, rid, k)
        elif r < 0.82:
            cand = [s for s in alive if s not in roots and (s, k) in att]
            if cand:
                s = rng.choice(cand)
                att.pop((s, k))
                line = "q %d r%d leave %d 0" % (s, rid, k)
        elif r < 0.95:
            s = rng.choice(sorted(alive))
            if rng.random() < 0.7 and [x for x in roots if x in alive]:
                s = rng.choice([x for x in roots if x in alive])
            if slow_tail and s == roots[0]:
                continue        # kept for the slow-consumer tail
            alive.discard(s)
            for key in [key for key in att if key[0] == s]:
                att.pop(key)
            line = "q %d r%d disc" % (s, rid)
        else:
            own = [s for s in alive if s not in roots and sc.sessions[s]["user"] == sc.topics[k]["owner"]]
            if own:
                deleted.add(k)
                for key in [key for key in att if key[1] == k]:
                    att.pop(key)
                line = "q %d r%d deltopic %d" % (own[0], rid, k)
        if line:
            sc.bursts.append([line])
    # tail (laws only, the model comparison stops before it): a member whose user a root session is attached as
    # unsubscribes ({leave unsub} -> Topic.evictUser detaches every session attached as that user, the root one included)
    if slow_tail and roots[0] in alive:
        # tail (laws only): the root session with the 2-slot queue, attached on behalf of a member, stops reading; a member
        # publishes 3-4 messages: the topic drops the root session as a slow consumer (unreg -> handleLeaveRequest)
        R = roots[0]
        ks = [k for k in sc.topics if k not in deleted]
        pubs = [x for x in sorted(alive) if x not in roots]
        if ks and pubs:
            k = rng.choice(ks)
            o = rng.choice(pubs)
            pre = []
            if (R, k) not in att:
                rid += 1
                att[(R, k)] = rng.choice(regular)
                pre.append(["q %d r%d sub %d 0 obo=%d" % (R, rid, k, att[(R, k)])])
            if (o, k) not in att:
                rid += 1
                att[(o, k)] = sc.sessions[o]["user"]
                pre.append(["q %d r%d sub %d" % (o, rid, k)])
            sc.bursts += pre
            lines = ["i stall %d" % R]
            for _ in range(rng.randint(3, 4)):
                rid += 1
                lines.append("q %d r%d pub %d" % (o, rid, k))
            sc.bursts.append(lines)
            sc.bursts.append(["i unstall %d" % R])
            rid += 1
    elif rng.random() < 0.3:
        ks = [k for k in sc.topics if k not in deleted]
        us = [u for u in regular if u in [sc.sessions[s]["user"] for s in alive if s not in roots]]
        if ks and us:
            k = rng.choice(ks)
            us = [u for u in us if u != sc.topics[k]["owner"]]
            rs = [x for x in roots if x in alive]
            if us and rs:
                u = rng.choice(us)
                s = [x for x in sorted(alive) if x not in roots and sc.sessions[x]["user"] == u][0]
                if not any(x in roots and kk == k and uu == u for (x, kk), uu in att.items()):
                    free = [x for x in rs if (x, k) not in att]
                    if free:
                        rid += 1
                        att[(free[0], k)] = u
                        sc.bursts.append(["q %d r%d sub %d 0 obo=%d" % (free[0], rid, k, u)])
                if (s, k) not in att:
                    rid += 1
                    att[(s, k)] = u
                    sc.bursts.append(["q %d r%d sub %d" % (s, rid, k)])
                sc.bursts.append(["q %d r%d leave %d 1" % (s, rid + 1, k)])
    return sc


def is_obo_scn(sc):
    return any(s.get("root") for s in sc.sessions.values())


def laws_obo_c14f(sc, r):
    """online-count-restored: (a) a loaded topic without attached sessions has every perUser.online at 0 (all the
    sessions are gone: left, disconnected, dropped), (b) no perUser entry for a user without a subscription row.
    Evaluated on the scenarios with root sessions only (group topics under their natural name: none of the known
    channel-name findings applies)."""
    res = []
    if not is_obo_scn(sc) or r.get("died"):
        return res
    for bi, b in enumerate(r["bursts"]):
        if not b.get("complete"):
            continue
        for k, t in b["topics"].items():
            if not t["loaded"] or "subrows" not in t or sc.topics[k]["kind"] != "grp":
                continue
            if not t["sessions"] and not t["foreign"]:
                bad = dict((u, c) for u, c in t["online"].items() if c != 0)
                if bad:
                    res.append(("online-count-restored", bi, "topic %d has no session attached but online counts (user:count) %s" % (k, bad)))
            for u, c in t["online"].items():
                if u not in t["subrows"]:
                    res.append(("online-count-restored", bi, "topic %d: perUser entry (online=%d) for user %d who has no subscription row" % (k, c, u)))
    return res


def obo_model_lines(sc):
    """-> (lines for the runner, index of the answer line that closes each burst per topic)"""
    lines = []
    marks = []      # per burst: {k: index into lines of the last line for topic k so far}
    last = {}
    for k, t in sorted(sc.topics.items()):
        lines.append("on reset %s:%d %s" % (sc.id, k, ",".join(map(str, t["members"]))))
        last[k] = len(lines) - 1
    att = {}
    for b in sc.bursts:
        w = b[0].split()
        if w[0] != "q":
            break       # slow-consumer tail: judged by the laws only
        s, kind = int(w[1]), w[3]
        obo = [int(x[4:]) for x in w if x.startswith("obo=")]
        if kind == "sub":
            k = int(w[4])
            u = obo[0] if obo else sc.sessions[s]["user"]
            att[(s, k)] = u
            lines.append("on att %s:%d %d %d" % (sc.id, k, s, u))
            last[k] = len(lines) - 1
        elif kind == "leave" and w[5] == "1":
            break       # {leave unsub}: evictUser is not part of the counter model; the laws judge the rest
        elif kind == "leave":
            k = int(w[4])
            att.pop((s, k), None)
            lines.append("on leave %s:%d %d %d" % (sc.id, k, s, sc.sessions[s]["user"]))
            last[k] = len(lines) - 1
        elif kind == "disc":
            for (s2, k) in sorted(att):
                if s2 == s:
                    att.pop((s2, k))
                    lines.append("on leave %s:%d %d %d" % (sc.id, k, s, sc.sessions[s]["user"]))
                    last[k] = len(lines) - 1
        elif kind == "deltopic":
            last.pop(int(w[4]), None)
        marks.append(dict(last))
    return lines, marks


def compare_obo_c14f(ctx, obos, results):
    if not obos:
        return
    lines, idx = [], []
    for sc in obos:
        ls, marks = obo_model_lines(sc)
        idx.append((len(lines), marks))
        lines += ls
    rc, mout, err = ctx.run_model("c14f", lines)
    if rc != 0 or any(l.startswith("EXC") for l in mout) or len(mout) != len(lines):
        ctx.violation("proof", "runner-crashed", "model runner c14f failed: " + (err or "\n".join(l for l in mout if l.startswith("EXC")))[-1200:],
                      {"theorem_or_obligation": "model runner c14f"})
        return
    mism = []
    for sc, (base, marks) in zip(obos, idx):
        r = results.get(sc.id)
        if r is None or r.get("died"):
            continue
        for bi, mk in enumerate(marks):
            if bi >= len(r["bursts"]) or not r["bursts"][bi].get("complete"):
                break
            b = r["bursts"][bi]
            bad = None
            for k, li in mk.items():
                t = b["topics"].get(k)
                if not t or not t["loaded"] or "asuser" not in t:
                    continue
                kv = dict(p.split("=", 1) for p in mout[base + li].split()[2:])
                mper = dict((int(a), int(c)) for a, c in (x.split(":") for x in kv["per"].split(",") if x))
                msess = dict((int(a), int(c)) for a, c in (x.split(":") for x in kv["sess"].split(",") if x))
                if mper != t["online"] or msess != t["asuser"]:
                    bad = {"topic": k, "model": {"online": mper, "attached_as": msess}, "impl": {"online": t["online"], "attached_as": t["asuser"]}}
                    break
            if bad:
                mism.append((sc, bi, bad))
                break
    if mism:
        sc, bi, d = min(mism, key=lambda x: x[1])
        small = type(sc).from_replay(sc.id, json.loads(json.dumps(sc.replay())))
        small.bursts = small.bursts[:bi + 1]
        ctx.violation("corr", "correspondence-online-obo", "model (oattach_c14f / oleave_c14f) and implementation disagree on the per-user online counters / attach-as records in %d of %d obo scenarios; first: after op %d %s: %s"
                      % (len(mism), len(obos), bi, sc.bursts[bi], json.dumps(d)[:700]),
                      {"correspondence": "online counters, root sessions acting on behalf of users", "scenario": small.replay(), "driver_input": small.lines(),
                       "model_input": obo_model_lines(small)[0], "diff": d})


# ---------------------------------------------------------------- (2) session registry
LIFE = 75       # seconds; ages are 30 / 50 s: no sum of ages is within milliseconds of the life time

FIXED = [
    # a stale long-polling session is expired by the next websocket connect; the user's sessions are then evicted
    ["new lp 1", "new ws 2", "age 0 100", "new ws 1", "get 0", "get 2", "evict 1 -", "disc 2", "disc 1"],
    # two stale long-polling sessions behind a fresh one; a long-poll connect expires both
    ["new lp 1", "new lp 2", "new lp 3", "age 0 100", "age 1 100", "get 2", "new lp 1", "get 3", "evict 1 -", "evict 3 2", "disc 2"],
    # the oldest is fresh again after a poll (MoveToFront): only the one now at the back goes
    ["new lp 1", "new lp 2", "age 0 100", "age 1 100", "get 0", "new ws 3", "get 1", "get 0", "disc 0", "evict 3 -"],
]


def gen_reg_scn_c14f(rng, i):
    if i < len(FIXED):
        return list(FIXED[i])
    ops = []
    S = []          # dict(lp, uid, age, reg, clean)
    lru = []        # front first
    for _ in range(rng.randint(6, 22)):
        r = rng.random()
        live = [j for j, s in enumerate(S) if s["reg"]]
        if r < 0.36 or not S:
            lp = rng.random() < 0.65
            uid = rng.randint(1, 3)
            S.append(dict(lp=lp, uid=uid, age=0, reg=True, clean=False))
            j = len(S) - 1
            if lp:
                lru.insert(0, j)
            while lru and S[lru[-1]]["age"] > LIFE:
                x = lru.pop()
                S[x]["reg"] = False
                S[x]["clean"] = True
            ops.append("new %s %d" % ("lp" if lp else "ws", uid))
        elif r < 0.62:
            cand = [j for j in live if S[j]["lp"]] or live
            if not cand:
                continue
            j = rng.choice(cand)
            d = rng.choice((30, 50, 50))
            S[j]["age"] += d
            ops.append("age %d %d" % (j, d))
        elif r < 0.76:
            j = rng.randrange(len(S))
            if S[j]["reg"] and S[j]["lp"]:
                lru.remove(j)
                lru.insert(0, j)
                S[j]["age"] = 0
            ops.append("get %d" % j)
        elif r < 0.90:
            cand = [j for j, s in enumerate(S) if not s["clean"]]
            if not cand:
                continue
            j = rng.choice(cand)
            S[j]["clean"] = True
            S[j]["reg"] = False
            if j in lru:
                lru.remove(j)
            ops.append("disc %d" % j)
        else:
            uid = rng.randint(1, 3)
            mine = [j for j in live if S[j]["uid"] == uid]
            skip = rng.choice(mine) if mine and rng.random() < 0.4 else None
            for j in mine:
                if j != skip:
                    S[j]["reg"] = False
                    if j in lru:
                        lru.remove(j)
            ops.append("evict %d %s" % (uid, "-" if skip is None else skip))
    return ops


def reg_laws(ops, out):
    """registry-exact on the implementation's dumps: after every call the registry holds exactly the sessions created so
    far that are not terminated (cleanUp done / stop message queued), each once, under its own sid; the LRU list exactly
    the long-polling ones among them, each once.  -> (law, op index, detail) or None"""
    lp = []
    for i, (op, l) in enumerate(zip(ops, out)):
        w = op.split()
        if w[0] == "new":
            lp.append(w[1] == "lp")
        if " HANG" in l:
            return ("registry-call-hangs", i, "call %d '%s' of the session store did not return within 8 s: %s" % (i, op, l[:600]))
        if "skipped-after-hang" in l:
            return None
        kv = dict(p.split("=", 1) for p in l.split()[2:])
        cache = [x for x in kv["cache"].split(",") if x]
        lru = [x for x in kv["lru"].split(",") if x]
        term = set(x for x in kv["term"].split(",") if x)
        want = set(str(j) for j in range(len(lp))) - term
        if len(set(cache)) != len(cache) or set(cache) != want:
            return ("registry-exact", i, "after call %d '%s' the registry holds %s, the sessions created and not terminated are %s (terminated: %s)"
                    % (i, op, sorted(cache), sorted(want, key=int), sorted(term)))
        wl = set(j for j in want if lp[int(j)])
        if len(set(lru)) != len(lru) or set(lru) != wl:
            return ("registry-exact", i, "after call %d '%s' the LRU list holds %s, the live long-polling sessions are %s" % (i, op, lru, sorted(wl, key=int)))
        if kv.get("ret", "").startswith("refused"):
            return ("registry-exact", i, "call %d '%s': the session was already cleaned up (expired) although the scenario never lets it go stale" % (i, op))
    return None


def run_impl_registry(ctx, lines, timeout=600):
    fin = os.path.join(ctx.work, "c14f_reg_in.txt")
    fout = os.path.join(ctx.work, "c14f_reg_out.txt")
    open(fin, "w").write("\n".join(lines) + "\n")
    if os.path.exists(fout):
        os.remove(fout)
    env = dict(vlib.GOENV, VERIF_IN=fin, VERIF_OUT=fout)
    try:
        p = subprocess.run([os.path.join(vlib.BUILD, "maindrv.test"), "-test.run", "^TestVerifC14Registry$", "-test.count=1"],
                           stdout=subprocess.PIPE, stderr=subprocess.STDOUT, text=True, errors="replace", timeout=timeout, env=env,
                           cwd=os.path.join(vlib.REPO, "server"))
        rc, log = p.returncode, p.stdout
    except subprocess.TimeoutExpired as e:
        rc, log = -9, "driver timed out: " + str(e.stdout)[-500:]
    out = open(fout).read().split("\n") if os.path.exists(fout) else []
    return rc, [l for l in out if l], log


def run_registry_c14f(ctx, quick):
    rng = ctx.rng
    if ctx.replay:
        rp = json.load(open(ctx.replay))["replay"]
        if "registry_ops" not in rp:
            return {"skipped": "replay of a life-cycle scenario"}
        scns = [list(rp["registry_ops"])]
    else:
        scns = [gen_reg_scn_c14f(rng, i) for i in range(200 if quick else 3000)]
    lines = []
    for i, ops in enumerate(scns):
        lines += ["scn g%d %d" % (i, LIFE)] + ops + ["end"]
    t0 = time.time()
    rc, out, log = run_impl_registry(ctx, lines)
    t_impl = time.time() - t0
    rcm, mout, err = ctx.run_model("c14f", lines)
    if rcm != 0 or any(l.startswith("EXC") for l in mout) or len(mout) != len(lines):
        ctx.violation("proof", "runner-crashed", "model runner c14f failed: " + (err or "\n".join(l for l in mout if l.startswith("EXC")))[-1200:],
                      {"theorem_or_obligation": "model runner c14f"})
        return {"error": "runner"}
    if len(out) != len(lines):
        ctx.violation("monitor", "registry-call-hangs", "the session-store driver ended after %d of %d lines (rc=%s): %s" % (len(out), len(lines), rc, log[-1200:]),
                      {"registry_ops": scns[0], "how": "TestVerifC14Registry"})
        return {"error": "driver"}
    pos = 0
    fails, mism = {}, []
    ncalls = 0
    nexp = 0
    for i, ops in enumerate(scns):
        o = out[pos + 1:pos + 1 + len(ops)]
        m = mout[pos + 1:pos + 1 + len(ops)]
        pos += len(ops) + 2
        ncalls += len(ops)
        v = reg_laws(ops, o)
        if v:
            fails.setdefault(v[0], []).append((ops[:v[1] + 1], v[2], o[:v[1] + 1]))
        for j, (a, b) in enumerate(zip(o, m)):
            if "skipped-after-hang" in a:
                break
            if a != b:
                mism.append((ops[:j + 1], {"call": ops[j], "impl": a, "model": b}))
                break
        nexp += sum(1 for j, op in enumerate(ops) if op.startswith("new") and j > 0 and
                    m[j].split("term=")[1] != m[j - 1].split("term=")[1])
    for law, lst in fails.items():
        ops, detail, o = min(lst, key=lambda x: len(x[0]))
        ctx.violation("monitor", law, "law %s fails on the implementation (%d of %d registry scenarios): %s" % (law, len(lst), len(scns), detail),
                      {"registry_ops": ops, "driver_input": ["scn g0 %d" % LIFE] + ops + ["end"], "driver_output": o, "law": law, "detail": detail,
                       "how": "VERIF_IN=<driver_input> VERIF_OUT=.. build/maindrv.test -test.run '^TestVerifC14Registry$' (cwd server/)"})
    if mism and not fails:
        ops, d = min(mism, key=lambda x: len(x[0]))
        ctx.violation("corr", "correspondence-registry", "model (RegistryC14f) and SessionStore disagree on %d of %d registry scenarios; first: %s" % (len(mism), len(scns), json.dumps(d)[:700]),
                      {"correspondence": "session registry call sequences", "registry_ops": ops, "driver_input": ["scn g0 %d" % LIFE] + ops + ["end"], "diff": d})
    return {"registry_scenarios": len(scns), "registry_calls": ncalls, "connects_that_expired_a_session": nexp,
            "registry_mismatches": len(mism), "registry_law_failures": {k: len(v) for k, v in fails.items()}, "impl_wall_s": round(t_impl, 1),
            "rule": "3 fixed + seeded random call sequences (6-22 calls) on one store with life time 75 s: connect (65% long-polling through NewSession(http.ResponseWriter), else websocket through NewSession(*websocket.Conn)) of users 1-3, lastTouched of a live (mostly long-polling) session moved back by 30 / 50 s, Get of any session ever created, the closing connection's cleanUp(false) of a session not yet cleaned up, EvictUser with or without a skipped session"}
