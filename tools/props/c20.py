"""C20 (identifiers and topic names): theorems in coq/Props/PropC20.v about
coq/Base/Base64.v, coq/Pure/Uid.v, coq/Pure/P2PName.v; correspondence against
server/store/types (Uid codecs, ParseUid32/String32, UserId/ParseUserId,
GrpToChn/ChnToGrp, P2PName/ParseP2P/P2PNameForUser, UidGenerator.DecodeUid/
EncodeInt64) through harness/ext/c20.go.
Part B (protobuf <-> JSON equivalence of requests and replies, server/pbconverter.go):
tools/props/c20pblib.py (reflection prober -> coq/Gen/GenPb.v -> table_ok obligations,
random messages against the extracted table-driven model coq/Sys/PbTable.v)."""
import base64
import struct
from props import purelib

M64 = (1 << 64) - 1
B64 = "ABCDEFGHIJKLMNOPQRSTUVWXYZabcdefghijklmnopqrstuvwxyz0123456789-_"
B32L = "abcdefghijklmnopqrstuvwxyz234567"


def hx(b):
    if isinstance(b, str):
        b = b.encode("latin1")
    return b.hex() if b else "-"


def unhx(h):
    return b"" if h == "-" else bytes.fromhex(h)


def canon(u):
    """reference spelling of a non-zero id (python's own base64)"""
    return base64.urlsafe_b64encode(struct.pack("<Q", u)).rstrip(b"=")


def canon32(u):
    return base64.b32encode(struct.pack("<Q", u)).rstrip(b"=").lower()


def spells(s, u):
    """s is one of the four spellings of u: equal to the canonical text except for
    the two unused trailing bits of the last character"""
    c = canon(u)
    if len(s) != 11 or s[:10] != c[:10]:
        return False
    ch = chr(s[10])
    return ch in B64 and (B64.index(ch) >> 2) == (B64.index(chr(c[10])) >> 2)


def spells_pair(s, u1, u2):
    """s spells the 16 bytes LE(u1)||LE(u2): canonical but for the 4 unused bits of the last character"""
    c = base64.urlsafe_b64encode(struct.pack("<QQ", u1, u2)).rstrip(b"=")
    if len(s) != 22 or s[:21] != c[:21]:
        return False
    ch = chr(s[21])
    return ch in B64 and (B64.index(ch) >> 4) == (B64.index(chr(c[21])) >> 4)


def boundary_ids():
    ids = {0, 1, 2, 3, 255, 256, M64, M64 - 1, 1 << 63, (1 << 63) - 1, (1 << 63) + 1}
    for k in range(64):
        ids.update({1 << k, (1 << k) - 1, ((1 << k) + 1) & M64, M64 ^ (1 << k)})
    return sorted(ids)


def rand_id(rng):
    r = rng.random()
    if r < 0.6:
        return rng.getrandbits(64)
    if r < 0.8:
        return rng.getrandbits(rng.randrange(1, 65))
    v = 0
    for _ in range(rng.randrange(1, 5)):
        v |= 1 << rng.randrange(64)
    return v if r < 0.9 else M64 ^ v


JUNK = [b"=", b"\r", b"\n", b"\x00", b"\xff", b"+", b"/", b" ", b".", b"A", b"_", b"-", b"z", b"9"]


def text_variants(rng, c, quick):
    """strings near a canonical 11-character text"""
    res = [c]
    last = B64.index(chr(c[10]))
    for k in range(4):                       # the four trailing-bit spellings
        res.append(c[:10] + B64[(last & ~3) | k].encode())
    for i in range(11):                      # every single-character mutation
        reps = list(JUNK) + [bytes([rng.choice(B64.encode())]) for _ in range(2)]
        if not quick:
            reps += [bytes([x]) for x in B64.encode()]
        for r in reps:
            res.append(c[:i] + r + c[i + 1:])
    # wrong lengths
    res += [c[:10], c[1:], c + b"A", b"A" + c, c + b"=", c[:8], c[:3], b"", c + c, c[:10] + b"==", c + b"\n", b"\r\n" + c]
    # CR/LF-laden: inserted (length 12+) and replacing (length 11)
    for _ in range(4):
        i = rng.randrange(12)
        res.append(c[:i] + rng.choice([b"\r", b"\n", b"\r\n"]) + c[i:])
        i = rng.randrange(11)
        res.append(c[:i] + rng.choice([b"\r", b"\n"]) + c[i + 1:])
    res.append(b"\n" * 11)
    res.append(b"\r\n" * 5 + b"A")
    return res


def rand_string(rng):
    n = rng.choice([0, 1, 3, 8, 10, 11, 11, 11, 11, 12, 13, 14, 16, 22, 25])
    r = rng.random()
    if r < 0.6:
        return bytes(rng.choice(B64.encode()) for _ in range(n))
    if r < 0.8:
        return bytes(rng.choice(B64.encode() + b"\r\n=+/") for _ in range(n))
    return bytes(rng.randrange(256) for _ in range(n))


def gen_cases(ctx):
    rng = ctx.rng
    quick = ctx.tier == "quick"
    cases = []
    ids = boundary_ids() + [rand_id(rng) for _ in range(600 if quick else 20000)]
    for u in ids:
        cases.append("S %d" % u)
        cases.append("RT %d" % u)
    # decoding of texts near canonical ones
    dec_ids = boundary_ids()[::7] + [1, M64, 1 << 63] + [rand_id(rng) for _ in range(40 if quick else 1500)]
    texts = []
    for u in dec_ids:
        if u == 0:
            continue
        texts += text_variants(rng, canon(u), quick)
    texts += [rand_string(rng) for _ in range(3000 if quick else 100000)]
    texts += [b"A" * 11, b"_" * 11, b"AAAAAAAAAAB", b"AAAAAAAAAAD", b"AAAAAAAAAAE"]
    for s in texts:
        h = hx(s)
        cases.append("PU " + h)
        cases.append("UT %d %s" % (rng.choice([0, 1, 77, M64]), h))
    for s in texts[::3]:
        for pre in (b"usr", b"us", b"usR", b"fnd", b"", b"usrusr", b"grp"):
            cases.append("PI " + hx(pre + s))
        cur = rng.choice([0, 5, M64])
        cases.append("UJ %d %s" % (cur, hx(b'"' + s + b'"')))
        cases.append("UJ %d %s" % (cur, hx(rng.choice([b"'", b"", b'"', b"\x00"]) + s + rng.choice([b'"', b"", b"'"]))))
    # binary form
    for _ in range(300 if quick else 5000):
        n = rng.choice([0, 1, 7, 8, 8, 8, 9, 16])
        cases.append("UB %d %s" % (rng.choice([0, 9]), hx(bytes(rng.randrange(256) for _ in range(n)))))
    # base32 texts: canonical (lower), upper-cased, mutated, extended, with the 0xFF "padding" byte
    for u in dec_ids[: (60 if quick else 800)]:
        c = canon32(u)
        vs = [c, c.upper(), c[:12], c + b"a", c + b"aaa", c + b"\n", c[:5] + b"\r\n" + c[5:], c + b"\xff\xff", c + b"\xff",
              c + b"=", c[:12] + bytes([rng.choice(B32L.encode())]), c + c]
        for i in range(13):
            vs.append(c[:i] + rng.choice([b"1", b"0", b"8", b"A", b"a", b"7", b"\xff", b"=", b"\x00"]) + c[i + 1:])
        for s in vs:
            cases.append("P32 " + hx(s))
    for _ in range(500 if quick else 20000):
        n = rng.choice([0, 2, 5, 8, 12, 13, 13, 13, 14, 15, 16, 20, 21])
        alpha = B32L.encode() if rng.random() < 0.7 else (B32L + B32L.upper() + "\xff\r\n=189").encode("latin1")
        cases.append("P32 " + hx(bytes(rng.choice(alpha) for _ in range(n))))
    # group / channel names
    names = []
    for u in dec_ids[:60]:
        c = canon(u)
        for pre in (b"grp", b"chn", b"nch", b"new", b"usr", b"gr", b"ch", b"", b"Grp", b"grpgrp", b"chngrp", b"grpchn", b"p2p", b"xgrp"):
            names.append(pre + c)
    names += [b"grp", b"chn", b"g", b"", b"me", b"fnd", b"sys", b"grp\x00", b"chn\xff\xfe"]
    names += [rng.choice([b"grp", b"chn", b""]) + rand_string(rng) for _ in range(300 if quick else 5000)]
    for s in names:
        cases.append("GC " + hx(s))
    # pairs
    pairs = []
    small = [0, 1, 2, 3, 255, 256, M64, M64 - 1, 1 << 63, (1 << 63) - 1, 1 << 32, 1 << 56]
    for a in small:
        for b in small:
            pairs.append((a, b))
    for _ in range(800 if quick else 30000):
        a, b = rand_id(rng), rand_id(rng)
        r = rng.random()
        if r < 0.1:
            b = a
        elif r < 0.3:
            b = a ^ (1 << rng.randrange(64))       # differ in one bit
        elif r < 0.4:
            b = int.from_bytes(a.to_bytes(8, "little")[::-1], "little")   # byte-reversed
        pairs.append((a, b))
    for a, b in pairs:
        cases.append("P2 %d %d" % (a, b))
        cases.append("P2 %d %d" % (b, a))
    # parsing of p2p names: canonical, swapped order, trailing-bit spellings, mutations, bad prefixes, lengths
    for a, b in pairs[:: (6 if quick else 3)]:
        if a == 0 or b == 0:
            continue
        body = base64.urlsafe_b64encode(struct.pack("<QQ", min(a, b), max(a, b))).rstrip(b"=")
        swapped = base64.urlsafe_b64encode(struct.pack("<QQ", max(a, b), min(a, b))).rstrip(b"=")
        last = B64.index(chr(body[21]))
        vs = [b"p2p" + body, b"p2p" + swapped, b"P2P" + body, b"p2" + body, body, b"usr" + body, b"p2p" + body[:21],
              b"p2p" + body + b"A", b"p2pp2p" + body, b"p2p" + body[:11], b"p2p" + body[:10] + b"\n" + body[10:],
              b"p2p" + body[:10] + b"\r" + body[11:], b"p2p" + body + b"==", b"p2p", b""]
        for k in range(0, 16, 1 if not quick else 5):
            vs.append(b"p2p" + body[:21] + B64[(last & ~15) | k].encode())
        for _ in range(3):
            i = rng.randrange(22)
            vs.append(b"p2p" + body[:i] + rng.choice(JUNK) + body[i + 1:])
        for s in vs:
            cases.append("PP " + hx(s))
            for u in (a, b, rng.choice([0, 1, a ^ 1])):
                cases.append("PF %d %s" % (u, hx(s)))
    for _ in range(300 if quick else 10000):
        s = b"p2p" + bytes(rng.choice(B64.encode()) for _ in range(rng.choice([22, 22, 22, 21, 23, 11])))
        cases.append("PP " + hx(s))
        cases.append("PF %d %s" % (rand_id(rng), hx(s)))
    # database form: the cipher's answers on the two blocks each request needs are asked from the
    # implementation's cipher first (XD/XE are oracle queries, not cases) and travel with the request
    dbids = boundary_ids()[::5] + [rand_id(rng) for _ in range(200 if quick else 5000)]
    q1 = ["XD " + struct.pack("<Q", u).hex() for u in dbids]
    rc, a1, _ = ctx.run_ext("c20", q1)
    h1 = [x.split()[1] for x in a1]
    rc, a2, _ = ctx.run_ext("c20", ["XE " + h for h in h1])
    for u, x, y in zip(dbids, h1, a2):
        cases.append("DBR %d %s %s" % (u, x, y.split()[1]))
    zs = [0, 1, -1, (1 << 63) - 1, -(1 << 63), 255, 256, -256] + [rng.getrandbits(64) - (1 << 63) for _ in range(200 if quick else 5000)]
    rc, a1, _ = ctx.run_ext("c20", ["XE " + struct.pack("<q", z).hex() for z in zs])
    h1 = [x.split()[1] for x in a1]
    rc, a2, _ = ctx.run_ext("c20", ["XD " + h for h in h1])
    for z, x, y in zip(zs, h1, a2):
        cases.append("EIR %d %s %s" % (z, x, y.split()[1]))
    # the same conversions from 8 goroutines at once (testing in support: no Gallina model has shared mutable
    # buffers; the theorem says the conversion is a function of its argument, this asks the code the same)
    for k in range(6 if quick else 60):
        cases.append("DBC %d %d" % (4000, rng.getrandbits(60)))
    return cases


def monitors(cases, t):
    fails = []
    names = {}      # p2p name -> unordered pair, for injectivity over the whole run
    for c in cases:
        w = c.split()
        o = t[c].split()
        if o and o[0] == "PANIC":
            fails.append(("no-panic", c, "panic in the implementation"))
            continue
        k = w[0]
        if k == "RT":
            u = w[1]
            if o[1] != u:
                fails.append(("uid-text-roundtrip", c, "ParseUid(u.String()) != u"))
            if o[2] != u:
                fails.append(("uid-prefix-roundtrip", c, "ParseUserId(u.UserId()) != u"))
            if o[3] != u or (u != "0" and o[4] != "1"):
                fails.append(("uid-json-roundtrip", c, "UnmarshalJSON(MarshalJSON(u)) != u"))
            if o[5] != u:
                fails.append(("uid32-roundtrip", c, "ParseUid32(u.String32()) = %s != u" % o[5]))
            if o[6] != u or o[7] != "1":
                fails.append(("uid-binary-roundtrip", c, "UnmarshalBinary(MarshalBinary(u)) != u"))
        elif k == "S":
            u = int(w[1])
            if u != 0 and unhx(o[4]) != b"usr" + unhx(o[1]) or u != 0 and unhx(o[5]) != b"fnd" + unhx(o[1]):
                fails.append(("uid-prefixed-form", c, "UserId/FndName is not prefix + String()"))
            if u == 0 and (o[1] != "-" or o[4] != "-" or o[5] != "-"):
                fails.append(("uid-zero-empty", c, "the zero id has a non-empty text"))
        elif k in ("PU", "PI", "UT", "UJ"):
            s = unhx(w[-1])
            if k == "PU":
                val, body, cur = int(o[1]), s, 0
            elif k == "PI":
                val, body, cur = int(o[1]), (s[3:] if s.startswith(b"usr") else None), 0
            elif k == "UT":
                val, body, cur = int(o[1]), s, int(w[1])
                if o[2] == "0":
                    body = None
            else:
                val, cur = int(o[1]), int(w[1])
                body = s[1:-1] if (len(s) == 13 and s[:1] == b'"' and s[-1:] == b'"' and o[2] == "1") else None
            if body is None:
                if val != cur:
                    fails.append(("invalid-text-decodes-to-zero", c, "rejected text changed the value to %d" % val))
            elif val != 0 and not spells(body, val):
                fails.append(("uid-decode-sound", c, "text decodes to %d but does not spell it (canonical %r)" % (val, canon(val))))
            if body is not None and (len(body) != 11 or any(chr(x) not in B64 for x in body)):
                if val != cur and not (k in ("PU", "PI") and val == 0):
                    fails.append(("invalid-text-decodes-to-zero", c, "text of wrong length or with a character outside the alphabet decodes to %d" % val))
                if k in ("UT", "UJ") and o[2] == "1":
                    fails.append(("invalid-text-decodes-to-zero", c, "text of wrong length or with a character outside the alphabet is accepted"))
        elif k == "UB":
            b = unhx(w[2])
            if len(b) < 8:
                if o[1] != w[1] or o[2] != "0":
                    fails.append(("uid-binary-short", c, "short binary form not rejected"))
            elif int(o[1]) != struct.unpack("<Q", b[:8])[0]:
                fails.append(("uid-binary-layout", c, "binary form is not little endian"))
        elif k == "P32":
            val = int(o[1])
            if val != 0:
                s = bytes(x for x in unhx(w[1]) if x not in (10, 13)).lower()
                c32 = canon32(val)
                okp = len(s) >= 13 and s[:12] == c32[:12] and chr(s[12]) in B32L and \
                    (B32L.index(chr(s[12])) >> 1) == (B32L.index(chr(c32[12])) >> 1)
                if not okp:
                    fails.append(("uid32-decode-sound", c, "base32 text decodes to %d but does not start with its spelling %r" % (val, c32)))
        elif k == "GC":
            s = unhx(w[1])
            g2c, c2g, isch, c2g_g2c, g2c_c2g, isch_g2c = unhx(o[1]), unhx(o[2]), o[3], unhx(o[4]), unhx(o[5]), o[6]
            if s.startswith(b"grp"):
                if not (c2g_g2c == s and g2c == b"chn" + s[3:] and c2g == s and isch_g2c == "1"):
                    fails.append(("grp-chn-inverse", c, "grp -> chn -> grp is not the identity / keeps the id"))
            elif s.startswith(b"chn"):
                if not (g2c_c2g == s and c2g == b"grp" + s[3:] and g2c == s and isch == "1"):
                    fails.append(("grp-chn-inverse", c, "chn -> grp -> chn is not the identity / keeps the id"))
            elif g2c != b"" or c2g != b"" or isch != "0":
                fails.append(("grp-chn-other-names", c, "a name that is neither grp nor chn is converted"))
        elif k == "P2":
            a, b = int(w[1]), int(w[2])
            name = o[1]
            rev = t.get("P2 %d %d" % (b, a))
            if rev is not None and rev.split()[1] != name:
                fails.append(("p2p-commutes", c, "a.P2PName(b) != b.P2PName(a)"))
            if a == 0 or b == 0 or a == b:
                if name != "-" or o[4] != "0":
                    fails.append(("p2p-no-self", c, "a name is produced for a zero id or for a = b"))
            else:
                if name == "-" or not unhx(name).startswith(b"p2p"):
                    fails.append(("p2p-name-form", c, "no p2p name for two distinct non-zero ids"))
                if not (o[4] == "1" and int(o[2]) == min(a, b) and int(o[3]) == max(a, b)):
                    fails.append(("p2p-parse", c, "ParseP2P(P2PName(a,b)) != (min,max)"))
                if not (o[5] == "1" and o[6] == o[10] and o[7] == "1" and o[8] == o[9]):
                    fails.append(("p2p-for-user", c, "a participant is not shown the other's user id"))
                if unhx(o[9]) != b"usr" + canon(a) or unhx(o[10]) != b"usr" + canon(b):
                    fails.append(("uid-prefixed-form", c, "UserId is not usr + canonical text"))
                key = frozenset((a, b))
                if names.setdefault(name, key) != key:
                    fails.append(("p2p-injective", c, "two different pairs share the name %s" % name))
        elif k == "PP":
            s = unhx(w[1])
            if o[3] == "1":
                if not (s.startswith(b"p2p") and spells_pair(s[3:], int(o[1]), int(o[2]))):
                    fails.append(("p2p-decode-sound", c, "name parses to (%s,%s) but does not spell that pair" % (o[1], o[2])))
            elif o[1] != "0" or o[2] != "0":
                fails.append(("p2p-decode-sound", c, "rejected name yields non-zero ids"))
            if o[3] == "1" and (not s.startswith(b"p2p") or len(s) != 25 or any(chr(x) not in B64 for x in s[3:])):
                fails.append(("p2p-invalid-rejected", c, "name with bad prefix, length or character accepted"))
        elif k == "PF":
            pp = t.get("PP " + w[2])
            if pp is not None:
                p = pp.split()
                u = int(w[1])
                if p[3] == "0":
                    if o[1] != "0":
                        fails.append(("p2p-for-user", c, "unparsable name is shown to a user"))
                else:
                    u1, u2 = int(p[1]), int(p[2])
                    if u in (u1, u2) and u1 != u2 and u1 != 0 and u2 != 0:
                        other = u2 if u == u1 else u1
                        if not (o[1] == "1" and unhx(o[2]) == b"usr" + canon(other)):
                            fails.append(("p2p-for-user", c, "participant %d is not shown the other's id" % u))
        elif k == "DBC":
            if o[1] != "ok":
                fails.append(("db-form-concurrent", c, "EncodeInt64(DecodeUid(u)) != u for u=%s when 8 goroutines convert at the same time (the uid generator is one value shared by every topic and session goroutine)" % o[-1]))
        elif k == "DBR":
            if o[2] != w[1]:
                fails.append(("uid-db-roundtrip", c, "EncodeInt64(DecodeUid(u)) != u"))
        elif k == "EIR":
            if o[2] != w[1]:
                fails.append(("uid-db-roundtrip", c, "DecodeUid(EncodeInt64(z)) != z"))
    return fails


def neighbours(ctx, case):
    w = case.split()
    res = []
    if w[0] in ("RT", "S"):
        u = int(w[1])
        res += ["RT %d" % (u ^ (1 << i)) for i in range(64)]
        res += ["RT %d" % x for x in (0, 1, M64, u >> 1, (u << 1) & M64)]
    elif w[0] == "P2":
        a, b = int(w[1]), int(w[2])
        for i in range(0, 64, 3):
            res.append("P2 %d %d" % (a ^ (1 << i), b))
            res.append("P2 %d %d" % (b, a ^ (1 << i)))
        res += ["P2 %d %d" % (b, a), "P2 %d %d" % (a, a)]
    elif w[0] in ("PU", "PI", "UT", "UJ", "P32", "GC", "PP", "PF"):
        s = unhx(w[-1])
        for i in range(len(s) + 1):
            for r in (b"A", b"_", b"\n", b"=", b"\xff", b"b"):
                res.append(" ".join(w[:-1] + [hx(s[:i] + r + s[i:])]))
                if i < len(s):
                    res.append(" ".join(w[:-1] + [hx(s[:i] + r + s[i + 1:])]))
            if i < len(s):
                res.append(" ".join(w[:-1] + [hx(s[:i] + s[i + 1:])]))
        if w[0] == "PF":
            res += ["PP " + w[2]]
    return res


def nontrivial(case, out):
    o = out.split()
    k = case.split()[0]
    if k in ("PU", "PI", "P32"):
        return o[1] != "0"
    if k in ("UT", "UJ", "UB"):
        return o[2] == "1"
    if k == "PP":
        return o[3] == "1"
    if k == "PF":
        return o[1] == "1"
    if k == "P2":
        return o[1] != "-"
    if k == "GC":
        return o[1] != "-" or o[2] != "-"
    return case.split()[1] != "0"


def run(ctx):
    # part B (protobuf <-> JSON): regenerates coq/Gen/GenPb.v + ObC20pb.v from vlib.REPO before the Coq
    # build, records its violations and coverage; part A then builds, runs and finishes the check
    from props import c20pblib
    ctx.coverage.update(c20pblib.run_part_b(ctx))
    purelib.run_pure(
        ctx, "c20", gen_cases, monitors, neighbours, nontrivial,
        rule="boundary ids (0, 1, 2^k, 2^k+-1, ~2^k, 2^63, 2^64-1) and seeded random 64-bit ids through every codec (String/MarshalText/String32/UserId/FndName/MarshalJSON/MarshalBinary and back); for sampled ids: the canonical text, its 4 trailing-bit spellings, every single-character mutation (junk set incl. '=', CR, LF, 0x00, 0xFF, '+', '/'; thorough: all 64 alphabet characters at every position), wrong lengths, CR/LF-laden texts, random strings, each through ParseUid/UnmarshalText, prefixed through ParseUserId (good and bad prefixes) and quoted through UnmarshalJSON; base32 texts (lower, upper, mutated, extended, 0xFF padding byte) through ParseUid32; names with good/bad prefixes through GrpToChn/ChnToGrp/IsChannel; pairs (boundary x boundary, random, equal, one-bit-apart, byte-reversed) in both orders through P2PName/ParseP2P/P2PNameForUser; canonical/swapped/16 trailing-bit spellings/mutated/mis-prefixed p2p names through ParseP2P and P2PNameForUser; DecodeUid/EncodeInt64 round trips with the real XTEA cipher (its block answers are passed to the model, whose cipher is a section variable); non-trivial = decoded to a non-zero id / accepted / non-empty name",
        trusted=["harness/ext/c20.go (calls the exported functions of server/store/types of the tree under test; golang.org/x/crypto/xtea with a fixed key)",
                 "tools/props/c20.py law monitors (python restatement of the theorems using python's own base64/struct, evaluated on the implementation's answers)",
                 "Go's encoding/base64, encoding/base32 (go1.23) are modelled in coq/Base/Base64.v from their source and validated by this differential run, not verified",
                 "the XTEA cipher is a Section variable of the model (assumed: Encrypt/Decrypt are mutually inverse on 8-byte blocks); the run checks the round trip on the real cipher"]
        + c20pblib.PB_TRUSTED)
