"""C08 (s08c): MODEL-GUIDED permission histories over every branch of Topic.thisUserSub,
Topic.anotherUserSub and replyOfflineTopicSetSub.

The extracted model is stepped interactively next to generation (build/runner c08c = the topic
runner + the extracted classifier PermBranchC08c.perm_branch_c08c).  At every step the generator
builds candidate {sub} / {set sub} requests from the MODEL's current modes (the requester's and
the target's want/given: the same, one bit more, one bit less, without J, with/without O, default,
"N", junk; every session, attached or not; every user incl. one that is in no table), asks the
classifier which branch each candidate would take in the current state, and picks a candidate of
the branch that has been taken least so far.  Each chosen request is followed by {get sub} /
{get desc} queries; "mover" requests (leave, unsubscribe, evict, publish, unload+re-attach,
restart) change which branches are reachable.  The differential of c08.py reloads the topic right
after such requests (positions chosen per branch), the coherence monitor compares cache and
store after every request."""
import os
import subprocess
import vlib
from props import topiclib as T
from props.statelib import View

LETTERS = "JRWPASDO"
J, R, W, P, A, S, D, O = 1, 2, 4, 8, 16, 32, 64, 128
JUNK = ["+W", "JX", "-R", "N?", "J R", "NJ", "jrwx"]

# every branch label of PermBranchC08c.pbr_c08c that a request on an existing group topic can take
REQUIRED = [
    "sub-attached",
    "t-junk", "t-new-limit", "t-new-banned", "t-new-default", "t-new-explicit", "t-new-selfban", "t-resub-default", "t-resub-explicit",
    "t-owner-keeps", "t-ask-owner", "t-default-nochange", "t-unselfban", "t-unselfban-banned", "t-raise-admin", "t-raise-owner",
    "t-accept", "t-accept-raise", "t-same", "t-selfban", "t-banned", "t-reject-offer", "t-within", "t-beyond",
    "a-not-sharer", "a-junk", "a-sharer-explicit", "a-give-owner-nonowner", "a-new-limit", "a-invite-unknown", "a-invite-nojoin",
    "a-invite-default", "a-invite-explicit", "a-invite-ban", "a-reinvite-default", "a-reinvite-explicit", "a-nochange",
    "a-strip-owner", "a-offer-owner", "a-withdraw-offer", "a-ban", "a-unban", "a-up", "a-down", "a-other",
    "o-empty", "o-other-user", "o-nosub", "o-junk", "o-owner-bit", "o-same", "o-changed"]
# branches in which the requester's own grant is raised (theorems c08_self_raise_*_stored)
RAISE = ("t-raise-admin", "t-raise-owner", "t-accept-raise")
TEST_NAME = "^TestVerifC08cPerm$"
# reply code(s) a fault-free request of a branch is answered with ({sub}: 200 where {set sub} says 304 "not modified");
# recorded next to the measured codes in the evidence (a consistency check of the labels, not a verdict)
EXPECT = {b: ("200",) for b in REQUIRED}
EXPECT.update({
    "sub-attached": ("304",), "t-junk": ("400",), "t-new-limit": ("422",), "t-new-banned": ("403",), "t-owner-keeps": ("403",),
    "t-ask-owner": ("403",), "t-banned": ("403",), "t-unselfban-banned": ("403", "200", "304"), "t-default-nochange": ("200", "304"),
    "t-same": ("200", "304"), "a-not-sharer": ("403",), "a-junk": ("400",), "a-sharer-explicit": ("403",),
    "a-give-owner-nonowner": ("403",), "a-new-limit": ("422",), "a-invite-unknown": ("404",), "a-invite-nojoin": ("403",),
    "a-nochange": ("304",), "a-strip-owner": ("403",), "o-empty": ("304",), "o-other-user": ("403",), "o-nosub": ("404",),
    "o-junk": ("500",), "o-owner-bit": ("403",), "o-same": ("304",)})


def mstr(m):
    m &= 255
    return "".join(c for i, c in enumerate(LETTERS) if m >> i & 1) or "N"


def mval(s):
    return sum(1 << LETTERS.index(c) for c in s if c in LETTERS)


class ModelProcC08c:
    """the extracted model + classifier stepped interactively"""
    def __init__(self):
        self.p = subprocess.Popen([os.path.join(vlib.BUILD, "runner"), "c08c"], stdin=subprocess.PIPE, stdout=subprocess.PIPE,
                                  text=True, bufsize=1)

    def start(self, sc):
        for l in sc.head:
            self.p.stdin.write(l + "\n")
        self.p.stdin.flush()
        for l in sc.head:
            self.p.stdout.readline()

    def op(self, flt, kind, args):
        """-> (branch label or None, View of the model's state after the request)"""
        self.p.stdin.write(("op %s %s %s" % (flt, kind, " ".join(str(a) for a in args))).rstrip() + "\n\n")
        self.p.stdin.flush()
        out = []
        while True:
            l = self.p.stdout.readline()
            if l == "" or l == "\n":
                break
            out.append(l.rstrip("\n"))
        br = next((l.split()[1] for l in out if l.startswith("branch ")), None)
        blocks = T.parse_blocks(["scn m"] + out)["m"]
        return br, View(blocks[-1])

    def probe(self, cands):
        for kind, args in cands:
            self.p.stdin.write("probe %s %s\n" % (kind, " ".join(str(a) for a in args)))
        self.p.stdin.flush()
        res = []
        for _ in cands:
            l = self.p.stdout.readline().split()
            res.append(l[1] if len(l) > 1 and l[0] == "branch" else "?")
        return res

    def close(self):
        try:
            self.p.stdin.close()
            self.p.wait(timeout=5)
        except Exception:
            self.p.kill()


# ---------------------------------------------------------------------------
# initial configurations

MEMBER_ROWS = [(63, 63), (31, 31), (127, 127), (47, 47), (15, 15), (3, 3), (3, 47), (47, 3), (47, 46), (46, 46), (46, 47),
               (47, 255), (47, 191), (63, 191), (31, 63), (63, 31), (47, 63), (55, 55), (47, 175), (0, 47), (31, 30), (39, 39)]
OWNER_ROWS = [(255, 255), (255, 255), (255, 255), (191, 191), (175, 175), (143, 143), (191, 255), (175, 255), (239, 239)]     # want within given: Topics.Create stores want & given


def gen_head(rng, sid):
    sc = T.Scn(sid)
    n = rng.choice([3, 4, 4, 5, 5])
    sc.nusers = n
    auth = rng.choice([47, 47, 47, 63, 3, 0, 46, 15, 31])
    ow, og = rng.choice(OWNER_ROWS)
    sc.head.append("scn %s owner=1 auth=%d anon=0 ownerwant=%d ownergiven=%d" % (sid, auth, ow, og))
    for i in range(1, n + 1):
        sc.head.append("user %d acc=%d" % (i, rng.choice([47, 47, 63, 31, 15, 46, 127, 47])))
    sc.head.append("ghost %d" % (n + 1))
    nsub = rng.choice([1, 2, 2, 3, 3, 4, 4]) - 1
    members = rng.sample(range(2, n + 1), min(nsub, n - 1))
    for i in sorted(members):
        want, given = rng.choice(MEMBER_ROWS)
        sc.head.append("subrow %d want=%d given=%d" % (i, want, given))
    s = 0
    for i in range(1, n + 1):
        for _ in range(rng.choice([1, 1, 2])):
            s += 1
            sc.sessions[s] = i
            sc.head.append("sess %d %d" % (s, i))
    return sc


# ---------------------------------------------------------------------------
# candidates aimed by the model's current modes

def cur_modes(v, u):
    """(want, given) of user u in the MODEL's current state: cached entry if the topic is loaded, else the live row"""
    if v is None:
        return None
    p = v.cusers.get(u) if v.loaded else None
    if p is None and not v.loaded:
        p = v.subs.get(u)
        if p is not None and p["deleted"]:
            p = None
    if p is None:
        return None
    return mval(p["want"]), mval(p["given"])


def self_pool(rng, wg, auth):
    if wg is None:
        return ["", "", "JRWPS", "JR", "N", "RWP", "JRWPASDO", mstr(auth), "JRWPA", rng.choice(JUNK)]
    w, g = wg
    pool = ["", "", "N", mstr(g), mstr(w), "JRWPASDO", "JRWPAS", rng.choice(JUNK)]
    missing = [b for b in (J, R, W, P, A, S, D) if not g & b]
    present = [b for b in (R, W, P, A, S, D) if g & b]
    for b in rng.sample(missing, min(3, len(missing))):
        pool.append(mstr(g | b))
        pool.append(mstr(w | b))
    if missing:
        pool.append(mstr(g | A | rng.choice(missing)))
        pool.append(mstr(g | O | rng.choice(missing)))
    for b in rng.sample(present, min(2, len(present))):
        pool.append(mstr(g & ~b))
    pool += [mstr(g & ~J), mstr(w | O), mstr(w & ~O), mstr(g | O), mstr((w | g) & ~O)]
    return pool


def target_pool(rng, wg, auth):
    if wg is None:
        return ["", "", "JRWPS", "JR", "RWP", "JRWPASDO", mstr(auth), mstr(auth | J), "JRWPA", rng.choice(JUNK)]
    w, g = wg
    pool = ["", mstr(g), "N", "JRWPASDO", rng.choice(JUNK), mstr(g & ~J), mstr(g | J), mstr(g | O), mstr(g & ~O)]
    missing = [b for b in (R, W, P, A, S, D) if not g & b]
    present = [b for b in (R, W, P, A, S, D) if g & b]
    for b in rng.sample(missing, min(2, len(missing))):
        pool.append(mstr(g | b))
    for b in rng.sample(present, min(2, len(present))):
        pool.append(mstr(g & ~b))
    if missing and present:
        pool.append(mstr((g | rng.choice(missing)) & ~rng.choice(present)))
    return pool


def candidates(rng, sc, v, auth):
    cands = []
    users = list(range(1, sc.nusers + 2))      # nusers+1 = the ghost
    for s in sorted(sc.sessions):
        u = sc.sessions[s]
        wg = cur_modes(v, u)
        att = v is not None and v.loaded and s in v.csess
        sp = self_pool(rng, wg, auth)
        if att:
            if rng.random() < 0.3:
                cands.append(("sub", [s, T.hx(rng.choice(sp)), 0]))
        else:
            for m in sp:
                cands.append(("sub", [s, T.hx(m), 0]))
        for m in sp:
            cands.append(("setsub", [s, rng.choice([0, u]), T.hx(m)]))
        for t in users:
            if t == u:
                continue
            for m in target_pool(rng, cur_modes(v, t), auth):
                cands.append(("setsub", [s, t, T.hx(m)]))
    if len(cands) > 320:
        cands = rng.sample(cands, 320)
    return cands


def queries_after(rng, sc, v, actor_sid, target):
    """{get sub}/{get desc} right after a permission request: the requester, a session of the user it was about,
    one more attached session"""
    ops = [("N", "getsub", [actor_sid]), ("N", "getdesc", [actor_sid])]
    att = sorted(v.csess) if v.loaded else []
    if target:
        ts = [s for s in att if v.csess[s] == target and s != actor_sid]
        if ts:
            ops.append(("N", "getdesc", [rng.choice(ts)]))
    others = [s for s in att if s != actor_sid]
    if others:
        ops.append(("N", "getsub", [rng.choice(others)]))
    return ops


def mover(rng, sc, v):
    """a request that changes which branches are reachable"""
    att = sorted(v.csess) if v.loaded else []
    r = rng.random()
    if r < 0.18 and att:
        return [("N", "leave", [rng.choice(att), 0])]
    if r < 0.40 and att:
        cand = [s for s in att if v.csess[s] != v.cache.get("owner")] or att
        return [("N", "leave", [rng.choice(cand), 1])]
    if r < 0.62 and att:
        strong = [s for s in att if (lambda wg: wg and (wg[0] & wg[1] & (A | O)))(cur_modes(v, v.csess[s]))] or att
        s = rng.choice(strong)
        tg = [u for u in v.cusers if u != v.csess[s]] or [1]
        return [("N", "delsub", [s, rng.choice(tg)])]
    if r < 0.70 and att:
        return [("N", "pub", [rng.choice(att), 700 + len(sc.ops), 0])]
    if r < 0.90:
        back = [s for s in att if rng.random() < 0.8]
        ops = [("N", "leave", [s, 0]) for s in att] + [("N", "unload", [])] + [("N", "sub", [s, "-", 0]) for s in back]
        if back:
            ops += [("N", "getsub", [back[0]]), ("N", "getdesc", [back[-1]])]
        return ops
    back = [s for s in att if rng.random() < 0.8]
    return [("N", "restart", [])] + [("N", "sub", [s, "-", 0]) for s in back]


def gen_guided(ctx, count, extra_max=0, steps=(9, 13)):
    """-> (scenarios, {scn id: {op index: branch}}, coverage {branch: requests}).  [count] scenarios, then up to
    [extra_max] more while a REQUIRED branch is still empty."""
    rng = ctx.rng
    mp = ModelProcC08c()
    scns, labels, cov = [], {}, {}
    try:
        i = 0
        while i < count or (i < count + extra_max and any(cov.get(b, 0) == 0 for b in REQUIRED)):
            sc = gen_head(rng, "q%d" % i)
            i += 1
            auth = int(T_kv(sc.head[0])["auth"])
            mp.start(sc)
            lab = {}
            v = None

            def do(op):
                nonlocal v
                br, v = mp.op(*op)
                if br is not None and br != "other":
                    lab[len(sc.ops)] = br
                    cov[br] = cov.get(br, 0) + 1
                sc.ops.append(op)
            # a few sessions attach first (these are requests of thisUserSub too)
            for s in sorted(sc.sessions):
                if rng.random() < 0.55:
                    do(("N", "sub", [s, "-", 0]))
            for _ in range(rng.randint(*steps)):
                cands = candidates(rng, sc, v, auth)
                brs = mp.probe(cands)
                by = {}
                for c, b in zip(cands, brs):
                    if b not in ("other", "?", "sub-load-fail"):
                        by.setdefault(b, []).append(c)
                if not by:
                    break
                if rng.random() < 0.15:
                    b = rng.choice(sorted(by))
                else:
                    low = min(cov.get(b, 0) for b in by)
                    b = rng.choice(sorted(b for b in by if cov.get(b, 0) == low))
                kind, args = rng.choice(by[b])
                do(("N", kind, args))
                target = args[1] if kind == "setsub" and args[1] not in (0, sc.sessions[args[0]]) else 0
                for q in queries_after(rng, sc, v, args[0], target):
                    do(q)
                if rng.random() < 0.35:
                    for m in mover(rng, sc, v):
                        do(m)
            scns.append(sc)
            labels[sc.id] = lab
            mp.p.stdin.write("end\n")
            mp.p.stdin.flush()
            mp.p.stdout.readline()
    finally:
        mp.close()
    return scns, labels, cov


def T_kv(line):
    return dict(p.split("=", 1) for p in line.split() if "=" in p)


# ---------------------------------------------------------------------------
# the model (with branch labels) on a batch of scenarios

def run_model_branches(ctx, scns):
    """like topiclib.run_model, through runner c08c: -> (rc, blocks per scenario, {scn id: {op index: branch}}, stderr)"""
    lines = []
    for sc in scns:
        lines += sc.lines()
    rc, out, err = ctx.run_model("c08c", lines)
    flat = []
    for o in out:
        flat += o.split("\n")
    labels = {}
    cur, k = None, -1
    for ln in flat:
        if ln.startswith("scn "):
            cur, k = {}, -1
            labels[ln.split()[1]] = cur
        elif ln.startswith("op "):
            k += 1
        elif ln.startswith("branch ") and cur is not None:
            b = ln.split()[1]
            if b != "other":
                cur[k] = b
    return rc, T.parse_blocks(flat), labels, err
