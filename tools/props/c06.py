"""C06 one owner: theorems in coq/Props/PropC06.v over Sys/Topic.v; correspondence and monitor
through the topic-history driver."""
import re
from props import statelib
from props.statelib import eff


def owners(rows):
    return sorted(u for u, s in rows.items() if not s.get("deleted") and "O" in eff(s["want"], s["given"]))


def sessions_of(sc):
    """sid -> user; taken from the head lines when the scenario comes from a replay/corpus file."""
    if sc.sessions:
        return sc.sessions
    res = {}
    for l in sc.head:
        w = l.split()
        if w and w[0] == "sess":
            res[int(w[1])] = int(w[2])
    return res


def monitor(sc, views):
    """The laws of C06 on the implementation's trace.  Fault-free prefix: all laws; after the first
    injected store fault only the counting laws, tagged "-after-store-fault"."""
    res = []
    prev = None
    faulted = False
    unsafe = False      # a store fault hit the actor's OWN {sub}/{set sub} naming O (the three-write acceptance: known finding)
    sessions = sessions_of(sc)
    for k, v in enumerate(views):
        fault, kind, args = sc.ops[k]
        if fault != "N":
            faulted = True
        actor = sessions.get(args[0]) if args else None
        if fault != "N" and own_request_naming_o(kind, args, actor):
            unsafe = True
        res += offer_laws(k, kind, args, actor, prev, v, unsafe)
        ow = owners(v.subs)
        tag = "-after-store-fault" if faulted else ""
        # exactly one effective owner, equal to the owner field, in the store and in the cache
        if len(ow) != 1:
            res.append(("stored-owner-count-%d%s" % (len(ow), tag), k, "stored subscriptions have %d effective owners %s" % (len(ow), ow)))
        elif v.topic.get("owner") != ow[0]:
            res.append(("stored-owner-field" + tag, k, "topics.owner=%s but the effective owner is %s" % (v.topic.get("owner"), ow[0])))
        if v.loaded:
            cw = owners(v.cusers)
            if len(cw) != 1:
                res.append(("cached-owner-count-%d%s" % (len(cw), tag), k, "cached subscriptions have %d effective owners %s" % (len(cw), cw)))
            elif v.cache.get("owner") != cw[0]:
                res.append(("cached-owner-field" + tag, k, "topic.owner=%s but the cached effective owner is %s" % (v.cache.get("owner"), cw[0])))
        if prev is not None and not faulted:
            po = owners(prev.subs)
            if len(po) == 1:
                o = po[0]
                before, after = prev.subs[o], v.subs.get(o)
                still = o in ow
                moved = len(ow) == 1 and ow[0] != o
                if not moved:
                    if actor != o:
                        # no request by another user removes, bans or demotes the owner
                        lost_j = still and "J" in eff(before["want"], before["given"]) and "J" not in eff(after["want"], after["given"])
                        if not still or lost_j:
                            res.append(("owner-demoted-by-other", k, "owner %d removed/banned/demoted by %s of user %s" % (o, kind, actor)))
                    elif not still:
                        # the owner cannot unsubscribe or give up ownership except by transfer
                        res.append(("owner-gives-up-ownership", k, "owner %d lost ownership by his own %s with no successor" % (o, kind)))
                else:
                    n = ow[0]
                    # ownership moved: only by acceptance of a grant made by the owner
                    if not (kind in ("sub", "setsub") and actor == n and (kind == "sub" or args[1] in (0, n))):
                        res.append(("transfer-by-acceptance-only", k, "ownership moved from %d to %d by %s of user %s" % (o, n, kind, actor)))
                    if "O" not in prev.subs.get(n, {}).get("given", ""):
                        res.append(("transfer-needs-grant", k, "user %d became owner without O in the previous grant" % n))
                    if after is not None and not after["deleted"] and ("O" in after["want"] or "O" in after["given"]):
                        res.append(("previous-owner-loses-ownership", k, "previous owner %d keeps O: %s/%s" % (o, after["want"], after["given"])))
            # O is granted only by the owner (a re-subscription restores the previous grant, deleted row included)
            for u, s in v.subs.items():
                p = prev.subs.get(u)
                had = p is not None and "O" in p["given"]
                if "O" in s["given"] and not s["deleted"] and not had and len(po) == 1:
                    if actor != po[0] and not (actor == u and ow and ow[0] == u):
                        res.append(("grant-ownership-owner-only", k, "O appeared in the grant of user %d by %s of user %s (owner %d)" % (u, kind, actor, po[0])))
            if kind == "leave" and args[1] == 1 and len(po) == 1 and actor == po[0] and prev.loaded and args[0] in prev.csess:
                mine = [t for s, t in v.frames if s == args[0] and t.startswith("ctrl ")]
                if not mine or int(mine[0].split()[1]) < 400:
                    res.append(("owner-cannot-leave", k, "owner's unsubscribe answered %s" % mine))
        prev = v
    return res


def mode_text(h):
    if h in ("-", "", None):
        return ""
    try:
        return bytes.fromhex(str(h)).decode("latin1")
    except ValueError:
        return str(h)


def own_request_naming_o(kind, args, actor):
    """asks_op of PropC06.v, read generously (any o/O in the mode text)"""
    if kind == "sub":
        return "o" in mode_text(args[1]).lower()
    if kind == "setsub":
        return args[1] in (0, actor) and "o" in mode_text(args[2]).lower()
    return False


def modes_of(rows, keys=("want", "given", "deleted")):
    return {u: tuple(r.get(x) for x in keys) for u, r in rows.items()}


def offer_laws(k, kind, args, actor, prev, v, unsafe):
    """Laws about the OFFER of ownership, evaluated whatever faults came before:
    failed-offer-grants-nothing (c06_failed_offer_grants_nothing): an attached session's {set sub} naming another
    user that is not acknowledged leaves the stored and the cached modes and the owner fields as they were;
    transfer-needs-stored-grant (c06_transfer_needs_stored_grant): as long as no store fault hit an own request
    naming O, topics.owner moves only to the actor of an own {sub}/{set sub} whose STORED live row had O in given."""
    res = []
    if prev is None:
        return res
    if kind == "setsub" and args[1] not in (0, actor) and prev.loaded and args[0] in prev.csess:
        acked = [t for s, t in v.frames if s == args[0] and t.startswith("ctrl ") and int(t.split()[1]) < 400]
        if not acked:
            if modes_of(v.subs) != modes_of(prev.subs) or v.topic.get("owner") != prev.topic.get("owner"):
                res.append(("failed-offer-grants-nothing", k, "unacknowledged {set sub user=%s} of user %s changed the store: %s -> %s"
                            % (args[1], actor, modes_of(prev.subs), modes_of(v.subs))))
            elif v.loaded and (modes_of(v.cusers, ("want", "given")) != modes_of(prev.cusers, ("want", "given"))
                               or v.cache.get("owner") != prev.cache.get("owner")):
                res.append(("failed-offer-grants-nothing", k, "unacknowledged {set sub user=%s} of user %s changed the live topic: cached %s -> %s (store unchanged)"
                            % (args[1], actor, modes_of(prev.cusers, ("want", "given")), modes_of(v.cusers, ("want", "given")))))
    if not unsafe and prev.topic and v.topic and prev.topic.get("owner") != v.topic.get("owner"):
        n = v.topic.get("owner")
        row = prev.subs.get(n)
        own = kind == "sub" or (kind == "setsub" and args[1] in (0, actor))
        if not (own and actor == n and row is not None and not row["deleted"] and "O" in row["given"]):
            res.append(("transfer-needs-stored-grant", k, "topics.owner moved %s -> %s by %s of user %s although the stored grant of %s before the step was %s"
                        % (prev.topic.get("owner"), n, kind, actor, n, None if row is None else "%s/%s deleted=%s" % (row["want"], row["given"], row["deleted"]))))
    return res


def offer_scenarios(ctx, total):
    """Directed histories around the offer of ownership: everybody attaches; an owner / administrator
    {set sub}s another user (mostly a mode with O) with a store fault on THAT request (F1 = the Subs.Update /
    Subs.Get fails, later calls, crash) or without; the target then accepts (own {set sub}/{sub} naming O,
    fault-free); then detach/unload/restart and reload.  Faults only on requests naming another user, so
    every history is inside hist_ok_c06x and all laws apply."""
    from props import topiclib as T
    rng = ctx.rng
    res = []
    omodes = ["JRWPASDO", "JRWPASDO", "JRWPSO", "JRWPO", "JRWPASO"]
    for i in range(max(8, int(total * 0.2))):
        sc = T.Scn("x%d" % i)
        n = rng.choice([2, 2, 3, 3, 4])
        sc.nusers = n
        sc.head.append("scn %s owner=1 auth=%d anon=0 ownerwant=255 ownergiven=255" % (sc.id, rng.choice([47, 47, 63, 15])))
        for u in range(1, n + 1):
            sc.head.append("user %d acc=%d" % (u, rng.choice([47, 47, 63])))
        subscribed = [1]
        for u in range(2, n + 1):
            if u == 2 or rng.random() < 0.7:
                want = rng.choice([47, 47, 63, 127, 127])
                given = rng.choice([47, 63, 127, 127, 255])
                sc.head.append("subrow %d want=%d given=%d" % (u, want, given))
                subscribed.append(u)
        sid_of = {}
        s = 0
        for u in range(1, n + 1):
            for _ in range(rng.choice([1, 1, 1, 2])):
                s += 1
                sc.sessions[s] = u
                sid_of.setdefault(u, s)
                sc.head.append("sess %d %d" % (s, u))
        ops = []
        for u in subscribed:
            ops.append(("N", "sub", [sid_of[u], "-", 0]))
        owner = 1
        for _ in range(rng.choice([1, 1, 2, 3])):
            tgt = rng.choice([u for u in range(1, n + 1) if u != owner])
            offerer = owner if rng.random() < 0.85 else rng.choice(subscribed)
            if offerer == tgt:
                offerer = owner
            flt = rng.choice(["F1", "F1", "F1", "N", "C1", "F2", "F3"])
            mode = rng.choice(omodes) if rng.random() < 0.85 else rng.choice(["JRWPAS", "JRWPASD", "JRWP", "N"])
            ops.append((flt, "setsub", [sid_of[offerer], tgt, T.hx(mode)]))
            if flt[0] == "C":
                for u in subscribed:
                    if rng.random() < 0.8:
                        ops.append(("N", "sub", [sid_of[u], "-", 0]))
            r = rng.random()
            if r < 0.2:
                ops.append(("N", "getsub", [sid_of[offerer]]))
            elif r < 0.3:
                ops.append(("N", "setsub", [sid_of[owner], tgt, T.hx(rng.choice(omodes))]))   # a second, fault-free offer
            # the acceptance (fault-free)
            acc = rng.choice(omodes)
            if rng.random() < 0.8:
                ops.append(("N", "setsub", [sid_of[tgt], rng.choice([0, tgt]), T.hx(acc)]))
            else:
                ops.append(("N", "sub", [sid_of[tgt], T.hx(acc), 0]))
            if rng.random() < 0.6:
                # reload the topic from the store
                if rng.random() < 0.5:
                    ops.append(("N", "restart", []))
                else:
                    for ss in sorted(sc.sessions):
                        ops.append(("N", "leave", [ss, 0]))
                    ops.append(("N", "unload", []))
                for u in range(1, n + 1):
                    if rng.random() < 0.8:
                        ops.append(("N", "sub", [sid_of[u], "-", 0]))
                ops.append(("N", "getsub", [sid_of[owner]]))
            if rng.random() < 0.5:
                # who owns the topic now tries to use it / the previous owner tries to
                ops.append(("N", "setsub", [sid_of[rng.choice([owner, tgt])], rng.choice([u for u in range(1, n + 1)]), T.hx(rng.choice(["JRWPS", "JRWPAS", "JRWPASDO"]))]))
            if rng.random() < 0.3:
                ops.append(("N", "leave", [sid_of[rng.choice([owner, tgt])], 1]))
        sc.ops = ops
        res.append(sc)
    return res


def frame_f(t):
    return t.startswith("ctrl ")


def line_f(kind, l):
    if kind == "store":
        if l.startswith("sub "):
            return re.sub(r" read=.*? deleted=", " deleted=", l)
        if l.startswith("topic "):
            return "topic owner=" + l.split("owner=")[1]
        return None
    if l.startswith("user "):
        return re.sub(r" read=.*", "", l)
    if l.startswith("lastid"):
        return "owner=" + l.split("owner=")[1]
    return None


# ---------------------------------------------------------------------------
# owner-only requests ({del topic}, {set desc public|trusted|defacs}, {set tags}): outside the op
# alphabet of Sys/Topic.v; gate model Sys/OwnerGate.v against the real server, exhaustively.

GATE_KINDS = ["deltopic", "public", "trusted", "defacs", "defacso", "tags"]
GATE_ACTORS = {"owner": (1, 1, 1), "admin": (0, 0, 1), "pending": (0, 0, 1), "stranger": (0, 0, 0)}   # owner_c, owner_s, subscribed


def gate_cases():
    res = []
    for kind in GATE_KINDS:
        for actor in GATE_ACTORS:
            for loaded, attached in ((0, 0), (1, 0), (1, 1)):
                if actor == "stranger" and attached:
                    continue    # attaching subscribes
                for root in (0, 1):
                    res.append((kind, actor, loaded, attached, root))
    return res


def gate_check(ctx, cases):
    """-> (number of cases run, mismatches, law failures); violations are recorded in ctx"""
    ok1, _ = ctx.build_runner()
    ok2, _ = ctx.build_main()
    if not (ok1 and ok2):
        return 0, 0, 0     # reported by run_stateful
    ilines = ["gate %s %s %d %d %d" % c for c in cases]
    mlines = ["gate %s %d %d %d %d %d %d" % ((c[0], c[2], c[3]) + GATE_ACTORS[c[1]] + (c[4],)) for c in cases]
    rc, impl, log = ctx.run_main_lines("c06", ilines)
    if rc != 0 or len(impl) != len(cases):
        ctx.violation("monitor", "server-crashed", "the server process died while running the owner-only request cases: " + log[-1500:],
                      {"gate": ilines, "log": log[-4000:]})
        return len(cases), 0, 1
    rc2, model, err = ctx.run_model("c06", mlines)
    if rc2 != 0 or len(model) != len(cases):
        ctx.violation("proof", "runner-crashed", "model runner failed on the gate cases: " + err[-1500:], {"theorem_or_obligation": "model runner c06"})
        return len(cases), 0, 0
    fails, mism = [], []
    for c, il, i, m in zip(cases, ilines, impl, model):
        w = i.split()
        if len(w) < 2 or w[0] not in ("all", "own", "none"):
            fails.append(("owner-only-op-unanswered", il, i))
            continue
        if w[0] == "all" and c[1] != "owner":
            fails.append(("owner-only-op", il, i))
        if "lost=" in i:
            fails.append(("owner-only-op-foreign-subscription-lost", il, i))
        if w[0] == "own" and c[0] != "deltopic":
            fails.append(("owner-only-op", il, i))
        if w[:2] != m.split() or ("loaded=%d" % c[2]) not in w or ("attached=%d" % c[3]) not in w:
            mism.append((il, i, m))
    seen = set()
    for law, il, i in fails:
        if law not in seen:
            seen.add(law)
            ctx.violation("monitor", law, "law %s fails on the real server: request '%s' by a user who is not the owner answered '%s' (%d such cases)"
                          % (law, il, i, len([1 for f in fails if f[0] == law])), {"gate": [il], "law": law, "observed": i})
    if mism and not fails:
        il, i, m = mism[0]
        ctx.violation("corr", "correspondence-owner-gate",
                      "gate model Sys/OwnerGate.v and the server disagree on %d of %d owner-only request cases; first: '%s' server '%s' model '%s'; no non-owner was served in any of the %d cases (the case space is run exhaustively)"
                      % (len(mism), len(cases), il, i, m, len(cases)), {"correspondence": "owner-only gate", "gate": [x[0] for x in mism[:20]]})
    return len(cases), len(mism), len(fails)


# ---------------------------------------------------------------------------
# {del what=topic} with the POPULATION of the topic (Sys/OwnerGateC06x.v against the real server):
# category x loaded/attached x number of subscribers x requester kind x hard/soft, exhaustively.

def popgate_cases():
    res = []
    for hard in (1, 0):
        for nsubs in (1, 2, 3):
            for req in ("owner", "member", "none"):
                if req == "member" and nsubs < 2:
                    continue
                for loaded, attached in ((0, 0), (1, 0), (1, 1)):
                    if attached and req == "none":
                        continue            # attaching subscribes
                    if loaded and not attached and req == "owner" and nsubs == 1:
                        continue            # nobody else could keep the topic loaded
                    res.append(("grp", loaded, nsubs, req, attached, hard))
        for nsubs in (2, 1):
            for req in ("member", "former", "none"):
                if req == "former" and nsubs != 1:
                    continue                # with two live subscriptions the other party is a member too
                for loaded, attached in ((0, 0), (1, 0), (1, 1)):
                    if attached and req != "member":
                        continue
                    if loaded and not attached and req == "member" and nsubs == 1:
                        continue
                    res.append(("p2p", loaded, nsubs, req, attached, hard))
    return res


def popgate_model_line(c):
    cat, loaded, nsubs, req, attached, hard = c
    own = 1 if req == "owner" else 0
    sub = 1 if req in ("owner", "member") else 0
    return "delgate %s %d %d %d %d %d %d" % (cat, loaded, own, nsubs if loaded else 0, sub, own, nsubs)


def popgate_check(ctx, cases):
    """-> (cases run, mismatches, law failures); laws on the real server's answers: a GROUP topic is deleted for
    everybody only at its owner's request (owner-only-op), nobody else's subscription disappears
    (owner-only-op-foreign-subscription-lost), the request is answered."""
    ok1, _ = ctx.build_runner()
    ok2, _ = ctx.build_main()
    if not (ok1 and ok2):
        return 0, 0, 0
    ilines = ["delgate %s %d %d %s %d %d" % c for c in cases]
    mlines = [popgate_model_line(c) for c in cases]
    rc, impl, log = ctx.run_main_lines("c06x", ilines)
    if rc != 0 or len(impl) != len(cases):
        ctx.violation("monitor", "server-crashed", "the server process died while running the {del topic} population cases: " + log[-1500:],
                      {"gate": ilines, "log": log[-4000:]})
        return len(cases), 0, 1
    rc2, model, err = ctx.run_model("c06", mlines)
    if rc2 != 0 or len(model) != len(cases):
        ctx.violation("proof", "runner-crashed", "model runner failed on the {del topic} population cases: " + err[-1500:], {"theorem_or_obligation": "model runner c06"})
        return len(cases), 0, 0
    fails, mism = [], []
    for c, il, i, m in zip(cases, ilines, impl, model):
        w = i.split()
        if len(w) < 2 or w[0] not in ("all", "own", "none") or w[1] == "0":
            fails.append(("owner-only-op-unanswered", il, i))
            continue
        if c[0] == "grp":
            if w[0] == "all" and c[3] != "owner":
                fails.append(("owner-only-op", il, i))
            if "lost=" in i:
                fails.append(("owner-only-op-foreign-subscription-lost", il, i))
        setup = ["loaded=%d" % c[1], "attached=%d" % c[4], "count=%d" % (c[2] if c[1] else -1), "scount=%d" % c[2]]
        if w[:2] != m.split() or any(x not in w for x in setup):
            mism.append((il, i, m))
    seen = set()
    for law, il, i in fails:
        if law not in seen:
            seen.add(law)
            ctx.violation("monitor", law, "law %s fails on the real server: request '%s' (category, loaded, subscribers, requester, attached, hard) answered '%s' (%d such cases)"
                          % (law, il, i, len([1 for f in fails if f[0] == law])), {"gate": [il], "law": law, "observed": i})
    if mism and not fails:
        il, i, m = mism[0]
        ctx.violation("corr", "correspondence-owner-gate-population",
                      "gate model Sys/OwnerGateC06x.v and the server disagree on %d of %d {del topic} population cases; first: '%s' server '%s' model '%s'; no group topic was deleted by a non-owner in any of the %d cases"
                      % (len(mism), len(cases), il, i, m, len(cases)), {"correspondence": "owner-only gate with population", "gate": [x[0] for x in mism[:20]]})
    return len(cases), len(mism), len(fails)


def parse_popgate_line(l):
    w = l.split()
    return (w[1], int(w[2]), int(w[3]), w[4], int(w[5]), int(w[6]))


def parse_gate_line(l):
    w = l.split()
    return (w[1], w[2], int(w[3]), int(w[4]), int(w[5]))


def run(ctx):
    import json
    if ctx.replay:
        rp = json.load(open(ctx.replay))
        if "gate" in rp.get("replay", {}):
            ctx.coq_props()
            import vlib
            vlib.proof_violation(ctx)
            gl = [l for l in rp["replay"]["gate"] if l.startswith("gate ")]
            pl = [l for l in rp["replay"]["gate"] if l.startswith("delgate ")]
            n = 0
            if gl:
                n += gate_check(ctx, [parse_gate_line(l) for l in gl])[0]
            if pl:
                n += popgate_check(ctx, [parse_popgate_line(l) for l in pl])[0]
            ctx.coverage.update({"evaluations": n, "distinct_nontrivial": n, "rule": "replay of owner-only request cases"})
            ctx.finish()
    else:
        n, mm, ff = gate_check(ctx, gate_cases())
        ctx.coverage["owner_only_gate"] = {
            "cases_run_on_real_server": n, "exhaustive_over": "6 request kinds x {owner, administrator without O, pending transferee, stranger} x {not loaded, loaded by another session, attached} x {auth, root}",
            "mismatches_with_gate_model": mm, "law_failures": ff}
        n2, mm2, ff2 = popgate_check(ctx, popgate_cases())
        ctx.coverage["del_topic_population_gate"] = {
            "cases_run_on_real_server": n2,
            "exhaustive_over": "{group, p2p} x {not loaded, loaded by another session, requester attached} x subscribers {1 (owner alone), 2, 3 / p2p 1, 2} x requester {owner, subscribed non-owner, former p2p party, not subscribed at all} x {hard, soft}; cases that cannot exist are left out",
            "mismatches_with_gate_model": mm2, "law_failures": ff2}
    statelib.run_stateful(
        ctx, [("perm", 0.0, 0.75), ("perm", 0.12, 0.25)], monitor,
        dict(ops={"sub", "setsub", "delsub", "leave"}, frame=frame_f, line=line_f, keys=("frames", "store", "cache")),
        extra_scns=offer_scenarios,
        rule="directed offer/acceptance histories (a fifth of the scenarios: {set sub} naming another user, mostly with O, with a store fault on that request, then the target's acceptance, then a reload) and seeded random histories over one group topic: subscribe (arbitrary requested modes incl. O, junk), invite / permission change by owner, approvers, sharers, members, pending transferees (seeded O in the grant), strangers; acceptance, self-ban, leave, unsubscribe, eviction, with unload/restart between steps and a share with single store faults; non-trivial = at least one accepted mutating request",
        trusted=["projection compared for C06: ctrl replies of sub/set-sub/del-sub/leave requests, stored want/given/deleted per user and topics.owner, cached want/given per user and Topic.owner",
                 "{del topic}, {set desc public|trusted|defacs}, {set tags}: gate model Sys/OwnerGate.v (decision only: who is served, reply code, whether the effect is topic-wide / own subscription / none), compared with the real server on every case of its input space by harness/overlay/server/zz_verif_c06_test.go; the effects themselves (what is deleted, notifications) are not modelled"])
