"""C06 one owner: theorems in coq/Props/PropC06.v over Sys/Topic.v; correspondence and monitor
through the topic-history driver."""
import re
from props import statelib
from props.statelib import eff


def owners(rows):
    return sorted(u for u, s in rows.items() if not s.get("deleted") and "O" in eff(s["want"], s["given"]))


def sessions_of(sc):
    """sid -> user; taken from the head lines when the scenario comes from a replay/corpus file."""
    if sc.sessions:
        return sc.sessions
    res = {}
    for l in sc.head:
        w = l.split()
        if w and w[0] == "sess":
            res[int(w[1])] = int(w[2])
    return res


def monitor(sc, views):
    """The laws of C06 on the implementation's trace.  Fault-free prefix: all laws; after the first
    injected store fault only the counting laws, tagged "-after-store-fault"."""
    res = []
    prev = None
    faulted = False
    sessions = sessions_of(sc)
    for k, v in enumerate(views):
        fault, kind, args = sc.ops[k]
        if fault != "N":
            faulted = True
        actor = sessions.get(args[0]) if args else None
        ow = owners(v.subs)
        tag = "-after-store-fault" if faulted else ""
        # exactly one effective owner, equal to the owner field, in the store and in the cache
        if len(ow) != 1:
            res.append(("stored-owner-count-%d%s" % (len(ow), tag), k, "stored subscriptions have %d effective owners %s" % (len(ow), ow)))
        elif v.topic.get("owner") != ow[0]:
            res.append(("stored-owner-field" + tag, k, "topics.owner=%s but the effective owner is %s" % (v.topic.get("owner"), ow[0])))
        if v.loaded:
            cw = owners(v.cusers)
            if len(cw) != 1:
                res.append(("cached-owner-count-%d%s" % (len(cw), tag), k, "cached subscriptions have %d effective owners %s" % (len(cw), cw)))
            elif v.cache.get("owner") != cw[0]:
                res.append(("cached-owner-field" + tag, k, "topic.owner=%s but the cached effective owner is %s" % (v.cache.get("owner"), cw[0])))
        if prev is not None and not faulted:
            po = owners(prev.subs)
            if len(po) == 1:
                o = po[0]
                before, after = prev.subs[o], v.subs.get(o)
                still = o in ow
                moved = len(ow) == 1 and ow[0] != o
                if not moved:
                    if actor != o:
                        # no request by another user removes, bans or demotes the owner
                        lost_j = still and "J" in eff(before["want"], before["given"]) and "J" not in eff(after["want"], after["given"])
                        if not still or lost_j:
                            res.append(("owner-demoted-by-other", k, "owner %d removed/banned/demoted by %s of user %s" % (o, kind, actor)))
                    elif not still:
                        # the owner cannot unsubscribe or give up ownership except by transfer
                        res.append(("owner-gives-up-ownership", k, "owner %d lost ownership by his own %s with no successor" % (o, kind)))
                else:
                    n = ow[0]
                    # ownership moved: only by acceptance of a grant made by the owner
                    if not (kind in ("sub", "setsub") and actor == n and (kind == "sub" or args[1] in (0, n))):
                        res.append(("transfer-by-acceptance-only", k, "ownership moved from %d to %d by %s of user %s" % (o, n, kind, actor)))
                    if "O" not in prev.subs.get(n, {}).get("given", ""):
                        res.append(("transfer-needs-grant", k, "user %d became owner without O in the previous grant" % n))
                    if after is not None and not after["deleted"] and ("O" in after["want"] or "O" in after["given"]):
                        res.append(("previous-owner-loses-ownership", k, "previous owner %d keeps O: %s/%s" % (o, after["want"], after["given"])))
            # O is granted only by the owner (a re-subscription restores the previous grant, deleted row included)
            for u, s in v.subs.items():
                p = prev.subs.get(u)
                had = p is not None and "O" in p["given"]
                if "O" in s["given"] and not s["deleted"] and not had and len(po) == 1:
                    if actor != po[0] and not (actor == u and ow and ow[0] == u):
                        res.append(("grant-ownership-owner-only", k, "O appeared in the grant of user %d by %s of user %s (owner %d)" % (u, kind, actor, po[0])))
            if kind == "leave" and args[1] == 1 and len(po) == 1 and actor == po[0] and prev.loaded and args[0] in prev.csess:
                mine = [t for s, t in v.frames if s == args[0] and t.startswith("ctrl ")]
                if not mine or int(mine[0].split()[1]) < 400:
                    res.append(("owner-cannot-leave", k, "owner's unsubscribe answered %s" % mine))
        prev = v
    return res


def frame_f(t):
    return t.startswith("ctrl ")


def line_f(kind, l):
    if kind == "store":
        if l.startswith("sub "):
            return re.sub(r" read=.*? deleted=", " deleted=", l)
        if l.startswith("topic "):
            return "topic owner=" + l.split("owner=")[1]
        return None
    if l.startswith("user "):
        return re.sub(r" read=.*", "", l)
    if l.startswith("lastid"):
        return "owner=" + l.split("owner=")[1]
    return None


def run(ctx):
    statelib.run_stateful(
        ctx, [("perm", 0.0, 0.75), ("perm", 0.12, 0.25)], monitor,
        dict(ops={"sub", "setsub", "delsub", "leave"}, frame=frame_f, line=line_f, keys=("frames", "store", "cache")),
        rule="seeded random histories over one group topic: subscribe (arbitrary requested modes incl. O, junk), invite / permission change by owner, approvers, sharers, members, pending transferees (seeded O in the grant), strangers; acceptance, self-ban, leave, unsubscribe, eviction, with unload/restart between steps and a share with single store faults; non-trivial = at least one accepted mutating request",
        trusted=["projection compared for C06: ctrl replies of sub/set-sub/del-sub/leave requests, stored want/given/deleted per user and topics.owner, cached want/given per user and Topic.owner",
                 "{del topic}, {set desc}, {set tags} (owner-only operations) are outside the group-topic model; C13/C14 drivers exercise them without judging ownership"])
